"""Generic driver of one property check:  run.py <Cxx> [--tier quick|thorough] [--replay file]

Steps (DESIGN.md §2/§4): proof obligations + axiom audit, corpus replay, seeded correspondence
between /repo's dyce and the compiled Lean model, classification of disagreements with the
property's own oracle, shrinking, replay files, known-finding matching, evidence.
Exit 0 = held on everything explored; 1 = VIOLATION line(s) printed; 2 = infrastructure problem.
"""
from __future__ import annotations

import argparse
import importlib
import json
import os
import random
import subprocess
import sys
import time
import traceback

sys.path.insert(0, os.path.dirname(os.path.abspath(__file__)))
import common as C  # noqa: E402

MAX_REPORTED = 4
SHRINK_BUDGET = 400


CaseTimeout = C.CaseTimeout


_ALARMS = [0]


def _case_alarm(signum, frame):
    _ALARMS[0] += 1
    C.TIMED_OUT[0] = True
    raise CaseTimeout()


CASE_TIMEOUT = float(os.environ.get("VERIF_CASE_TIMEOUT", "10"))


def safe(f, case):
    import signal

    signal.signal(signal.SIGALRM, _case_alarm)
    _ALARMS[0] = 0
    C.TIMED_OUT[0] = False
    # the alarm repeats: code under test that swallows the exception (a bare except, `continue` in a `finally`)
    # is interrupted again until the timeout gets through
    signal.setitimer(signal.ITIMER_REAL, CASE_TIMEOUT, 0.2)
    try:
        res = f(case)
        if _ALARMS[0]:
            return "exc Timeout(>%gs)" % CASE_TIMEOUT  # it fired and was swallowed: the answer is not to be trusted
        return res
    except C.DriverUnavailable:
        raise
    except CaseTimeout:
        return "exc Timeout(>%gs)" % CASE_TIMEOUT
    except BaseException as e:  # the implementation side may raise anything
        if isinstance(e, (KeyboardInterrupt, SystemExit)):
            raise
        return "exc " + C.exc_name(e)
    finally:
        signal.setitimer(signal.ITIMER_REAL, 0)
        C.TIMED_OUT[0] = False


class Runner:
    def __init__(self, prop, tier, seed):
        self.prop, self.tier, self.seed = prop, tier, seed
        self.mod = importlib.import_module("props." + prop)
        self.t0 = time.time()
        self.driver_ok = True
        self.driver_log = ""

    # -- evaluation of a batch of cases -------------------------------------------------------
    def model_batch(self, cases):
        """-> list of model answers (or None when the model cannot be run)"""
        if not self.driver_ok:
            return [None] * len(cases)
        lines, idx = [], []
        for i, c in enumerate(cases):
            try:
                ml = self.mod.model(c)
            except (KeyboardInterrupt, SystemExit, C.CaseTimeout):
                raise
            except BaseException:  # building the op line touches the implementation (sizes, presented rolls)
                ml = None
            if ml is None:
                continue
            if isinstance(ml, str):
                ml = [ml]
            for l in ml:
                lines.append(l)
                idx.append(i)
        try:
            outs = C.run_driver(lines, timeout=1200 if len(cases) > 1 else 20)
        except subprocess.TimeoutExpired:
            return [None] * len(cases)  # the model does not finish on this input: no verdict from it
        except C.DriverUnavailable as e:
            self.driver_ok = False
            self.driver_log = str(e)
            return [None] * len(cases)
        res = [None] * len(cases)
        for i, o in zip(idx, outs):
            res[i] = o if res[i] is None else res[i] + " || " + o
        post = getattr(self.mod, "model_post", None)
        if post:
            res = [post(c, r) if r is not None else None for c, r in zip(cases, res)]
        return res

    def expected_for(self, case, model_out):
        """the answer the property demands, and who says so"""
        orc = safe_oracle(self.mod, case)
        if orc is not None:
            return orc, "oracle"
        if model_out is not None:
            return model_out, "model"
        return None, "none"

    def failing(self, case):
        """does the implementation violate the property on this case? (used by the shrinker)"""
        got = safe(self.mod.impl, case)
        m = self.model_batch([case])[0]
        exp, who = self.expected_for(case, m)
        if exp is None:
            return False, got, exp, who
        return got != exp, got, exp, who

    def shrink(self, case):
        global CASE_TIMEOUT
        budget = SHRINK_BUDGET
        shr = getattr(self.mod, "shrink", None)
        if shr is None:
            return case
        improved = True
        t_end = time.time() + 30  # wall-clock budget of one shrink
        saved, CASE_TIMEOUT = CASE_TIMEOUT, min(CASE_TIMEOUT, 2.0)
        try:
            case = self._shrink_loop(case, shr, budget, t_end)
        finally:
            CASE_TIMEOUT = saved
        return case

    def _shrink_loop(self, case, shr, budget, t_end):
        improved = True
        while improved and budget > 0 and time.time() < t_end:
            improved = False
            for cand in shr(case):
                budget -= 1
                if budget <= 0 or time.time() > t_end:
                    break
                try:
                    bad, _, _, _ = self.failing(cand)
                except Exception:
                    bad = False
                if bad:
                    case = cand
                    improved = True
                    break
        return case


def safe_oracle(mod, case):
    f = getattr(mod, "oracle", None)
    if f is None:
        return None
    try:
        return f(case)
    except Exception as e:
        if getattr(mod, "ORACLE_MAY_RAISE", False):
            return "exc " + C.exc_name(e)
        return None


def load_corpus(prop):
    d = os.path.join(C.CORPUS, prop)
    cases = []
    if os.path.isdir(d):
        for fn in sorted(os.listdir(d)):
            if fn.endswith(".json"):
                j = json.load(open(os.path.join(d, fn)))
                cs = j["cases"] if isinstance(j, dict) and "cases" in j else [j.get("case", j)]
                cases.extend(cs)
    return cases


def write_replay(prop, name, payload):
    os.makedirs(C.REPLAYS, exist_ok=True)
    path = os.path.join(C.REPLAYS, "%s_%s.json" % (prop, name))
    with open(path, "w") as f:
        json.dump(payload, f, indent=1, sort_keys=True, default=str)
    return path


def main():
    ap = argparse.ArgumentParser()
    ap.add_argument("prop")
    ap.add_argument("--tier", default=os.environ.get("VERIF_TIER", "quick"))
    ap.add_argument("--replay")
    ap.add_argument("--budget", type=float, default=None, help="scale the number of generated cases")
    a = ap.parse_args()
    tier = a.tier if a.tier in ("quick", "thorough") else "quick"
    seed = int(os.environ.get("VERIF_SEED", "0") or 0)
    prop = a.prop
    C.load_dyce()
    R = Runner(prop, tier, seed)
    mod = R.mod
    global CASE_TIMEOUT
    CASE_TIMEOUT = float(os.environ.get("VERIF_CASE_TIMEOUT", getattr(mod, "CASE_TIMEOUT", {}).get(tier, CASE_TIMEOUT)))

    if a.replay:
        return replay(R, a.replay)

    # stale replay files of an earlier run with the same tier/seed would be misleading
    if os.path.isdir(C.REPLAYS):
        for fn in os.listdir(C.REPLAYS):
            if fn.startswith("%s_%s_s%d_" % (prop, tier, seed)):
                os.remove(os.path.join(C.REPLAYS, fn))

    # 1. proof obligations
    aud = C.audit(prop, tier)
    proof_broken = bool(aud["failed"])

    # 2./3. corpus + seeded generation
    rnd = random.Random("%s/%s/%d" % (prop, tier, seed))
    corpus = load_corpus(prop)
    scale = a.budget if a.budget else 1.0
    changed_files = C.fingerprints_changed(prop)
    if changed_files and tier == "quick" and not a.budget:
        scale = 4.0  # the anchored source differs from the verified tree: look harder (never an alarm by itself)
    gen_tier = tier
    if proof_broken and tier == "quick":
        gen_tier = "thorough"  # §4.4: a broken obligation triggers the deep search
    generated = list(mod.generate(rnd, gen_tier, scale))
    cases = corpus + generated
    impl_outs = []
    timeouts = 0
    t_impl_end = time.time() + (150 if tier == "quick" else 1500)
    for c in cases:
        if time.time() > t_impl_end and len(impl_outs) >= 50:
            break  # the implementation is far slower than it should be: judge what has been run
        if hasattr(mod, "before_each"):
            mod.before_each(c)
        impl_outs.append(safe(mod.impl, c))
        if impl_outs[-1].startswith("exc Timeout"):
            timeouts += 1
            if timeouts >= 3:  # the implementation hangs on this kind of input: enough to report
                break
    cases = cases[: len(impl_outs)]
    model_outs = R.model_batch(cases)

    # 4. classification
    strat = {}
    distinct = set()
    violations = []  # (case, got, exp, who)
    corr_breaks = []  # implementation == oracle but != model
    n_oracle = 0
    oracle_every = getattr(mod, "ORACLE_EVERY", 1)
    for i, (c, got, m) in enumerate(zip(cases, impl_outs, model_outs)):
        k = mod.classify(c, got) if hasattr(mod, "classify") else "all"
        strat[k] = strat.get(k, 0) + 1
        key = json.dumps(c, sort_keys=True, default=str)
        if (not hasattr(mod, "nontrivial")) or mod.nontrivial(c, got):
            distinct.add(key)
        if m is not None and got == m:
            # agreement; additionally cross-check the proved model against the oracle now and then
            if oracle_every and i % oracle_every == 0:
                orc = safe_oracle(mod, c)
                if orc is not None:
                    n_oracle += 1
                    if orc != got:
                        violations.append((c, got, orc, "oracle (model and implementation agree, both differ from the spec oracle)"))
            continue
        exp, who = R.expected_for(c, m)
        if exp is None:
            continue
        if who == "oracle":
            n_oracle += 1
        if got == exp:
            if m is not None:
                corr_breaks.append((c, got, m))
            continue
        violations.append((c, got, exp, who))

    # shrink + report
    known = [k for k in C.load_known_findings() if k.get("property") == prop and k.get("status") == "open"]
    reported, seen_known, seen_keys = [], {}, set()
    for (c, got, exp, who) in violations:
        kf = mod.known_finding(c, got, exp, known) if hasattr(mod, "known_finding") else None
        if kf:
            seen_known.setdefault(kf["id"], (kf, c, got, exp))
            continue
        if len(reported) >= MAX_REPORTED:
            continue
        small = R.shrink(c)
        bad, g2, e2, w2 = R.failing(small)
        if not bad:
            small, g2, e2, w2 = c, got, exp, who
        kf = mod.known_finding(small, g2, e2, known) if hasattr(mod, "known_finding") else None
        if kf:
            # shrinking walked into a recorded finding; the failure that was found is a different one: report it as found
            small, g2, e2, w2 = c, got, exp, who
        key = json.dumps(small, sort_keys=True, default=str)
        if key in seen_keys:
            continue
        seen_keys.add(key)
        path = write_replay(
            prop,
            "%s_s%d_%d" % (tier, seed, len(reported)),
            dict(
                property=prop,
                kind="failing-input",
                case=small,
                original_case=c,
                describe=mod.describe(small) if hasattr(mod, "describe") else None,
                implementation=g2,
                expected=e2,
                expected_by=w2,
                model=R.model_batch([small])[0],
                seed=seed,
                tier=tier,
                replay_cmd="./check %s --replay <this file>" % prop,
            ),
        )
        reported.append(path)

    out_lines = []
    for kid, (kf, c, got, exp) in seen_known.items():
        out_lines.append("KNOWN-FINDING: property=%s %s: %s" % (prop, kid, kf.get("what", "")))
    for p in reported:
        out_lines.append("VIOLATION property=%s replay=%s" % (prop, p))

    nfi = []
    if not reported:
        # nothing concrete found: broken obligations / broken correspondence are still reported
        if proof_broken:
            p = write_replay(
                prop,
                "%s_s%d_proof" % (tier, seed),
                dict(
                    property=prop,
                    kind="proof-obligation",
                    no_longer_checks=aud["failed"],
                    log=aud["log"],
                    searched_cases=len(cases),
                    note="no failing input found by the search (tier %s budget)" % gen_tier,
                ),
            )
            nfi.append(p)
        if (not R.driver_ok) and not proof_broken:
            p = write_replay(
                prop,
                "%s_s%d_driver" % (tier, seed),
                dict(property=prop, kind="correspondence", no_longer_checks="Lean driver unavailable", log=R.driver_log),
            )
            nfi.append(p)
        if corr_breaks:
            c, got, m = corr_breaks[0]
            p = write_replay(
                prop,
                "%s_s%d_corr" % (tier, seed),
                dict(
                    property=prop,
                    kind="correspondence",
                    no_longer_checks="correspondence op of %s: model and implementation disagree while the "
                    "implementation agrees with the property oracle" % prop,
                    case=c,
                    describe=mod.describe(c) if hasattr(mod, "describe") else None,
                    implementation=got,
                    model=m,
                    count=len(corr_breaks),
                ),
            )
            nfi.append(p)
        for p in nfi:
            out_lines.append("VIOLATION property=%s replay=%s no-failing-input-found" % (prop, p))

    # 5. evidence
    samples = []
    for j in range(0, len(cases), max(1, len(cases) // 4))[:4] if cases else []:
        samples.append(
            dict(
                case=mod.describe(cases[j]) if hasattr(mod, "describe") else cases[j],
                op_line=(lambda ml: ml if ml is None or isinstance(ml, str) else " || ".join(ml))(mod.model(cases[j]))[:400]
                if mod.model(cases[j]) is not None
                else None,
                implementation=str(impl_outs[j])[:300],
                model=str(model_outs[j])[:300],
            )
        )
    samples.append(dict(obligation=aud["obligations"][:1], kind="theorem audited with #print axioms"))
    ev = dict(
        property_id=prop,
        tier=tier,
        seed=seed,
        level="proof",
        coverage=dict(
            obligations=len(aud["obligations"]),
            discharged=len(aud["discharged"]),
            theorems=aud["obligations"],
            undischarged=aud["failed"],
            fingerprint_changed=changed_files,
            leanchecker=aud.get("leanchecker", "not run (thorough tier only)"),
            checker_cmd=aud["cmd"],
            trusted_base=getattr(mod, "TRUSTED", [])
            + [
                "Lean 4.33.0 kernel; axioms of every property theorem audited ⊆ {propext, Classical.choice, Quot.sound}",
                "Lean compiler (the driver runs the compiled definitions the theorems are about)",
                "harness/run.py + harness/props/%s.py (encoders, canonicalisation, oracle) and the finite sample drawn" % prop,
            ],
            evaluations=len(cases),
            distinct_nontrivial=len(distinct),
            rule=getattr(mod, "RULE", ""),
            samples=samples,
            strategy_histogram=strat,
            corpus_cases=len(corpus),
            oracle_evaluations=n_oracle,
            correspondence_disagreements=len(violations) + len(corr_breaks),
            known_findings_seen=sorted(seen_known),
            exhaustive=bool(getattr(mod, "EXHAUSTIVE", {}).get(tier, False)),
            explanation=getattr(mod, "EXPLANATION", ""),
        ),
        assumptions=getattr(mod, "ASSUMPTIONS", []),
        wall_s=round(time.time() - R.t0, 2),
        violations=len(reported) + len(nfi),
    )
    os.makedirs(C.EVIDENCE, exist_ok=True)
    with open(os.path.join(C.EVIDENCE, prop + ".json"), "w") as f:
        json.dump(ev, f, indent=1, sort_keys=True, default=str)

    for l in out_lines:
        print(l)
    print(
        "%s %s seed=%d: %d cases (%d distinct non-trivial), %d/%d obligations discharged, %d violation(s), %.1fs"
        % (prop, tier, seed, len(cases), len(distinct), len(aud["discharged"]), len(aud["obligations"]), len(reported) + len(nfi), time.time() - R.t0)
    )
    return 1 if (reported or nfi) else 0


def replay(R, path):
    j = json.load(open(path))
    prop = R.prop
    if j.get("kind") == "failing-input":
        c = j["case"]
        bad, got, exp, who = R.failing(c)
        print("case:", R.mod.describe(c) if hasattr(R.mod, "describe") else c)
        print("implementation:", got)
        print("expected (%s):" % who, exp)
        if bad:
            print("VIOLATION property=%s replay=%s" % (prop, path))
            return 1
        print("no violation on this input")
        return 0
    if j.get("kind") == "proof-obligation":
        aud = C.audit(prop)
        if aud["failed"]:
            print(json.dumps(aud["failed"], indent=1))
            print("VIOLATION property=%s replay=%s no-failing-input-found" % (prop, path))
            return 1
        print("all obligations discharged")
        return 0
    if j.get("kind") == "correspondence" and "case" in j:
        c = j["case"]
        got = safe(R.mod.impl, c)
        m = R.model_batch([c])[0]
        print("implementation:", got)
        print("model:", m)
        if got != m:
            bad, got, exp, who = R.failing(c)
            print("VIOLATION property=%s replay=%s%s" % (prop, path, "" if bad else " no-failing-input-found"))
            return 1
        return 0
    print("nothing to replay in", path)
    return 0


def _watchdog(limit):
    import threading

    def fire():
        print("TIMEOUT: check exceeded its wall-clock budget of %ds (infrastructure problem, not a verdict)" % limit, flush=True)
        os._exit(2)

    t = threading.Timer(limit, fire)
    t.daemon = True
    t.start()


if __name__ == "__main__":
    _watchdog(int(os.environ.get("VERIF_TIMEOUT", "1500" if "thorough" not in " ".join(sys.argv) else "5400")))
    try:
        sys.exit(main())
    except SystemExit:
        raise
    except BaseException:
        traceback.print_exc()
        sys.exit(2)
