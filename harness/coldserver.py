"""A pristine interpreter that answers each request in a freshly forked child.

The server imports dyce (from /repo) and the C13 query code, computes nothing itself, and forks once
per request: the child therefore sees the library exactly as a fresh interpreter does after
`import dyce` — no functools cache, module-level dict, per-instance memo or interned object can carry
anything over from another query — builds the objects from their description, answers ONE query and exits.

protocol: one JSON object per line {"case": ..., "qi": n}  ->  one JSON line [value, types] or {"exc": name}
"""
import json
import os
import sys


def main():
    import common as C

    C.load_dyce()
    from props import C13

    out = sys.stdout
    for line in sys.stdin:
        req = json.loads(line)
        r, w = os.pipe()
        pid = os.fork()
        if pid == 0:
            os.close(r)
            try:
                hs, ps = C13._build(req["case"])
                res = list(C13._safe_query(req["case"]["queries"][req["qi"]], hs, ps))
            except BaseException as e:  # noqa: BLE001  the child's answer is the exception's name
                res = {"exc": type(e).__name__}
            with os.fdopen(w, "w") as f:
                f.write(json.dumps(res))
            os._exit(0)
        os.close(w)
        with os.fdopen(r) as f:
            data = f.read()
        os.waitpid(pid, 0)
        out.write((data or json.dumps({"exc": "no-answer"})) + "\n")
        out.flush()


if __name__ == "__main__":
    main()
