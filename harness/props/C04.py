"""C04 — repetition, pooling and totals obey the counting laws."""
from __future__ import annotations

from collections import Counter
from fractions import Fraction
from math import lcm

import common as C
import gen

RULE = (
    "cases = corpus + seeded: n@h / h@n for n in -2..40 (counts far beyond 2**53), (m+n)@h vs m@h + n@h, P(*args) over "
    "nested / permuted / zero-total / H(n)-shorthand arguments with iteration, indexing, total and permutation invariance, "
    "n@p, (n@P(h)).h(); distinct = distinct case; non-trivial = non-empty operand and no exception"
)
TRUSTED = [
    "outcomes are scaled to integers by the lcm of their denominators (sums preserved); CPython sum()/sorted/tuple comparison are modelled",
    "dice lists are compared as sorted multisets plus explicit flags for 'iteration == indexing' and 'same sequence for permuted arguments' "
    "(the property fixes that there is ONE canonical order, not which one)",
]
ASSUMPTIONS = ["outcomes are exact rationals or integral floats"]
EXPLANATION = "theorems C04_matmul_* (n-fold sum, total, additivity), C04_pool_* (flatten, drop empty, permutation invariance, total, n@p, (n@P(h)).h())"


def _den(hs):
    den = 1
    for h in hs:
        for o, _ in h:
            den = lcm(den, Fraction(C.dec_out(o)).denominator)
    return den


def _fmt_h(items, total, den):
    agg = Counter()
    for o, c in items:
        if c:
            agg[int(Fraction(o) * den)] += c
    return ("ok " + " ".join("%d:%d" % kv for kv in sorted(agg.items()))).strip() + " total=%d" % total


def _leaves(args):
    """all histograms mentioned anywhere in the (nested) argument list"""
    for a in args:
        if a["t"] == "h":
            yield a["items"]
        elif a["t"] == "p":
            yield from _leaves(a["args"])


def _build_args(args):
    from dyce import P

    out = []
    for a in args:
        if a["t"] == "h":
            out.append(C.dec_h(a["items"]))
        elif a["t"] == "n":
            out.append(a["v"])
        else:
            out.append(P(*_build_args(a["args"])))
    return out


def _arg_tokens(args, enc):
    toks = [str(len(args))]
    for a in args:
        if a["t"] == "h":
            h = C.dec_h(a["items"])  # the histogram as H.__init__ leaves it (ascending, merged)
            toks += ["0", str(len(h))]
            for o, c in h.items():
                toks += [str(enc(o)), str(c)]
        elif a["t"] == "n":
            toks += ["1", str(a["v"])]
        else:
            toks += ["2"] + _arg_tokens(a["args"], enc)
    return toks


def _fmt_dice(dice_items, total, extra=""):
    ds = sorted("[" + ",".join("%d:%d" % (o, c) for o, c in d) + "]" for d in dice_items)
    return ("ok " + " ".join(ds)).strip() + " total=%d%s" % (total, extra)


def _pool_out(p, enc):
    return [[(enc(o), c) for o, c in h.items()] for h in p]


def _shuffled(args, salt):
    import random

    r = random.Random(salt)
    a2 = list(args)
    r.shuffle(a2)
    return a2


def impl(case):
    from dyce import P

    k = case["k"]
    if k in ("matmul", "rmatmul") and case.get("nq") is not None:
        # a repetition count given in another numeric type: integral values are the integer they equal,
        # non-integral ones are rejected (never truncated)
        h = C.dec_h(case["h"])
        nq = C.dec_out(case["nq"])
        try:
            r = (nq @ h) if k == "rmatmul" else (h @ nq)
        except (ValueError, TypeError):
            return "err rejected"
        return _fmt_h(r.items(), r.total, _den([case["h"]]))
    if k in ("matmul", "rmatmul"):
        h = C.dec_h(case["h"])
        den = _den([case["h"]])
        try:
            r = (case["n"] @ h) if k == "rmatmul" else (h @ case["n"])
        except ValueError:
            return "err ValueError"
        return _fmt_h(r.items(), r.total, den)
    if k == "matmul_add":
        h = C.dec_h(case["h"])
        den = _den([case["h"]])
        r = (case["m"] @ h) + (case["n"] @ h)
        return _fmt_h(r.items(), r.total, den)
    if k == "ph_matmul":
        h = C.dec_h(case["h"])
        den = _den([case["h"]])
        r = (case["n"] @ P(h)).h()
        tot = h.total ** case["n"] if h.total and case["n"] else 0
        if (r.total != tot):
            return "bad-total %d" % r.total
        return _fmt_h(r.items(), tot if h.total else 0, den)
    # pools
    allh = list(_leaves(case["args"]))
    outs = [C.dec_out(o) for h in allh for o, _ in h]
    ints = [abs(a["v"]) for a in _flat_ints(case["args"])]
    table = C.ranks(outs + [i for m in ints for i in range(-m, m + 1)])
    enc = lambda o: C.rank_of(table, o)  # noqa
    try:
        p = P(*_build_args(case["args"]))
        if k == "pmatmul":
            n = case["n"]
            if case.get("ntype") and n >= 0:
                # an integral count in another numeric type is the integer it equals (as for n @ h)
                n = {"f": float, "q": Fraction, "b": (lambda v: bool(v) if v in (0, 1) else v)}[case["ntype"]](n)
            p = (n @ p) if case.get("r") else (p @ n)
    except ValueError:
        return "err ValueError"
    seq = _pool_out(p, enc)
    flags = ""
    if [p[i] for i in range(len(p))] != list(p) or len(p) != len(seq):
        flags += " iter-ne-index"
    # a slice of a pool is a pool: same dice as the slice of the sequence, in the canonical order, with its own total
    import random as _random

    r = _random.Random(case.get("salt", 0))
    for _ in range(3):
        sl = slice(r.choice([None, 0, 1, 2, -1, -2, len(p)]), r.choice([None, 0, 1, 2, -1, len(p)]), r.choice([None, 1, 2, -1, -1, -2]))
        q, ref = p[sl], P(*list(p)[sl])
        if _pool_out(q, enc) != _pool_out(ref, enc) or [q[i] for i in range(len(q))] != list(ref) or q.total != ref.total or not (q == ref):
            flags += " slice(%s,%s,%s)-not-canonical" % (sl.start, sl.stop, sl.step)
            break
    # p.h() is the sum of p's dice, count for count (the convolution itself is C01's subject)
    if 1 <= len(p) <= 6:
        from dyce import H

        acc = H({0: 1})
        for die in p:
            acc = acc + die
        if {o: c for o, c in p.h().items() if c} != {o: c for o, c in acc.items() if c} or p.h().total != p.total:
            flags += " h()-is-not-the-sum-of-the-dice"
    # pools that compare equal denote the same distribution (a pool == its h() by C05, and equality is transitive):
    # neighbours of p that differ in how often a die occurs must not be == p unless their sums agree
    if len(p):
        for q in (P(*list(p)[1:]), P(*(list(p) + [p[0]])), P(*(list(p)[1:] + [p[-1]])), P(*(list(p)[:-1] + [p[0]]))):
            if (q == p) and not (q.h() == p.h()):
                flags += " equal-pools-with-different-sums"
                break
            if (q == p) == (q != p):
                flags += " pool-ne-inconsistent"
                break
    p2 = P(*_build_args(_shuffled(case["args"], case.get("salt", 0))))
    if k == "pmatmul":
        p2 = case["n"] @ p2
    if _pool_out(p2, enc) != seq:
        flags += " perm-changes-sequence"
    if not (p2 == p) or (p2 != p):
        flags += " perm-ne"
    return _fmt_dice(seq, p.total, flags)


def _flat_ints(args):
    for a in args:
        if a["t"] == "n":
            yield a
        elif a["t"] == "p":
            yield from _flat_ints(a["args"])


def model(case):
    k = case["k"]
    if case.get("nq") is not None and Fraction(C.dec_out(case["nq"])).denominator != 1:
        return None  # a non-integral count: the oracle (rejection) decides
    if k in ("matmul", "rmatmul", "matmul_add", "ph_matmul"):
        h = C.dec_h(case["h"])
        den = _den([case["h"]])
        n = case["m"] + case["n"] if k == "matmul_add" else case["n"]
        toks = ["MATMUL", str(n), str(len(h))]
        for o, c in h.items():
            toks += [str(int(Fraction(o) * den)), str(c)]
        return " ".join(toks)
    allh = list(_leaves(case["args"]))
    outs = [C.dec_out(o) for h in allh for o, _ in h]
    ints = [abs(a["v"]) for a in _flat_ints(case["args"])]
    table = C.ranks(outs + [i for m in ints for i in range(-m, m + 1)])
    enc = lambda o: C.rank_of(table, o)  # noqa
    # H(n) shorthands are rank-encoded on the harness side (the model's ofInt works on real ints)
    args = _lower_ints(case["args"])
    toks = _arg_tokens(args, enc)
    if k == "pmatmul":
        return " ".join(["PMATMUL", str(case["n"])] + toks)
    return " ".join(["PMK"] + toks)


def _lower_ints(args):
    out = []
    for a in args:
        if a["t"] == "n":
            v = a["v"]
            rng = range(1, v + 1) if v > 0 else range(v, 0)
            out.append({"t": "h", "items": [["i:%d" % i, 1] for i in rng]})
        elif a["t"] == "p":
            out.append({"t": "p", "args": _lower_ints(a["args"])})
        else:
            out.append(a)
    return out


def model_post(case, out):
    if case["k"] in ("pmk", "pmatmul") and out.startswith("ok"):
        body, tot = out[2:].rsplit("total=", 1)
        ds = sorted(body.split())
        return ("ok " + " ".join(ds)).strip() + " total=" + tot.strip()
    if case["k"] == "ph_matmul" and out.startswith("ok"):
        # (n@P(h)).h() of a zero-total histogram is the empty histogram
        if not any(c for _, c in case["h"]):
            return "ok total=0"
    return " ".join(out.split())


def oracle(case):
    """first principles: repeated convolution / multiset of non-empty leaves"""
    k = case["k"]
    if case.get("nq") is not None:
        q = Fraction(C.dec_out(case["nq"]))
        if q.denominator != 1 or q < 0:
            return "err rejected"
    if k in ("matmul", "rmatmul", "matmul_add", "ph_matmul"):
        n = case["m"] + case["n"] if k == "matmul_add" else case["n"]
        if n < 0:
            return "err ValueError"
        den = _den([case["h"]])
        base = Counter()
        for o, c in C.dec_items(case["h"]):
            base[int(Fraction(o) * den)] += c
        if n == 0 or (k == "ph_matmul" and not sum(base.values())):
            return "ok total=0"
        acc = Counter({0: 1})
        for _ in range(n):
            nxt = Counter()
            for s, c in acc.items():
                for o, d in base.items():
                    nxt[s + o] += c * d
            acc = nxt
        return _fmt_h(acc.items(), sum(base.values()) ** n, 1)
    if k == "pmatmul" and case["n"] < 0:
        return "err ValueError"
    args = _lower_ints(case["args"])
    allh = list(_leaves(case["args"]))
    outs = [C.dec_out(o) for h in allh for o, _ in h]
    ints = [abs(a["v"]) for a in _flat_ints(case["args"])]
    table = C.ranks(outs + [i for m in ints for i in range(-m, m + 1)])
    dice = []
    tot = 1
    for h in _leaves(args):
        agg = {}
        for o, c in C.dec_items(h):
            r = C.rank_of(table, o)
            agg[r] = agg.get(r, 0) + c
        if sum(agg.values()):
            dice.append(sorted(agg.items()))
    if k == "pmatmul":
        dice = dice * case["n"]
    for d in dice:
        tot *= sum(c for _, c in d)
    return _fmt_dice(dice, tot)


def classify(case, got):
    return case["k"]


def nontrivial(case, got):
    return got.startswith("ok") and not got.startswith("ok total=")


def describe(case):
    return case


def shrink(case):
    if "h" in case:
        h = case["h"]
        for j in range(len(h)):
            if len(h) > 1:
                yield dict(case, h=h[:j] + h[j + 1 :])
        for key in ("n", "m"):
            if key in case and case[key] > 1:
                yield dict(case, **{key: case[key] - 1})
    if "args" in case:
        a = case["args"]
        for j in range(len(a)):
            yield dict(case, args=a[:j] + a[j + 1 :])
        for j, x in enumerate(a):
            if x["t"] == "p":
                yield dict(case, args=a[:j] + x["args"] + a[j + 1 :])


def _rand_args(rnd, depth=0):
    args = []
    kind = rnd.choice(["int", "int", "neg", "frac", "float"])
    for _ in range(rnd.randint(0, 4)):
        r = rnd.random()
        if r < 0.15:
            args.append({"t": "n", "v": rnd.choice([0, 1, 2, 3, 4, 6, -2, -3])})
        elif r < 0.35 and depth < 2:
            args.append({"t": "p", "args": _rand_args(rnd, depth + 1)})
        elif r < 0.45:
            args.append({"t": "h", "items": rnd.choice(gen.catalogue())})
        else:
            args.append({"t": "h", "items": gen.rand_h(rnd, 3, kind, allow_zero_total=rnd.random() < 0.15)})
    if args and rnd.random() < 0.3:
        hs = [a for a in args if a["t"] == "h" and a["items"]]
        if hs:
            args.append({"t": "h", "items": gen.scale_h(rnd.choice(hs)["items"], 2)})
    return args


def generate(rnd, tier, scale):
    n = int((700 if tier == "quick" else 6000) * scale)
    for _ in range(n):
        r = rnd.random()
        kind = rnd.choice(["int", "int", "neg", "frac", "float", "bool"])
        h = rnd.choice(gen.catalogue()) if rnd.random() < 0.25 else gen.rand_h(rnd, 4, kind, allow_zero_total=rnd.random() < 0.1, counts=(0, 1, 1, 2, 3, 5))
        if r < 0.25:
            yield dict(k=rnd.choice(["matmul", "rmatmul"]), h=h, n=rnd.choice([-2, -1, 0, 1, 2, 3, 5, 8, 13, 21, 40]))
            if rnd.random() < 0.25:
                nq = rnd.choice(["f:2.5", "f:0.5", "q:5/2", "q:1/3", "f:2.0", "q:3/1", "b:1", "f:-1.5", "f:1.999"])
                yield dict(k=rnd.choice(["matmul", "rmatmul"]), h=h, n=int(Fraction(C.dec_out(nq))), nq=nq)
        elif r < 0.4:
            yield dict(k="matmul_add", h=h, m=rnd.randint(1, 12), n=rnd.randint(1, 12))
        elif r < 0.5:
            yield dict(k="ph_matmul", h=h, n=rnd.choice([0, 1, 2, 3, 6, 10]))
        elif r < 0.85:
            yield dict(k="pmk", args=_rand_args(rnd), salt=rnd.randint(0, 10**6))
        else:
            yield dict(k="pmatmul", args=_rand_args(rnd), n=rnd.choice([-1, 0, 1, 2, 3]), r=rnd.random() < 0.5, salt=rnd.randint(0, 10**6), **({"ntype": rnd.choice(["f", "q", "b"])} if rnd.random() < 0.25 else {}))
