"""C14 — evaluation limits and context never leak across calls, even after errors."""
from __future__ import annotations

import common as C
from props import C07
from props import evalcommon as E

RULE = (
    "histories of explode / H.substitute / foreach whose predicate / expand / callback raises (ValueError, TypeError, KeyError, LookupError, "
    "ZeroDivisionError, AttributeError, AssertionError, IndexError, StopIteration, user Exception / BaseException / RuntimeError subclasses) "
    "followed by probes judged by the re-roll process; "
    "cases = corpus + seeded histories: a recursive program (as C07) whose callback tables also raise at arbitrary table "
    "positions — Exception subclasses, RuntimeError subclasses, BaseException subclasses (non-Exception), ValueError, "
    "RecursionError — at the top level, in nested evaluations and while pool rolls are enumerated; a history of 2..5 top-level "
    "evaluations (completed, cut, aborted) in ONE interpreter, each compared with its fresh-interpreter answer and the identity "
    "of the propagated exception object; distinct = distinct history; non-trivial = some evaluation aborts and a later one succeeds"
)
TRUSTED = C07.TRUSTED
ASSUMPTIONS = C07.ASSUMPTIONS
EXPLANATION = "theorems C14_context_restored (all fuel, callbacks, abort points), C14_history_fresh, C14_error_propagates, C14_recursion_error_to_sentinel"

model_post = E.model_post


def impl(case):
    if case["k"] == "xs":
        return _xs_impl(case)
    return E.run_impl(case)


def model(case):
    if case["k"] == "xs":
        return None  # judged step by step against the re-roll process (C08's first-principles oracle)
    return E.model_line(case)


# ---- histories through explode / substitute / foreach whose user callables raise -----------------


def _xs_impl(case):
    import operator
    import warnings

    from dyce import H
    from dyce.evaluation import explode, foreach

    h = H([(o, c) for o, c in case["h"]])
    faces = set(case["faces"])
    outs = []
    cur = {}

    def trig(outcome):
        st = cur["st"]
        if st["raise_at"] is not None and outcome == st["raise_at"]:
            e = E.make_exc(st["exc"])
            cur["raised"].append(e)
            raise e

    # ONE predicate / expand / callback object for the whole history (what it does depends on the step in progress)
    pred = lambda res: (trig(res.outcome), res.outcome in faces)[1]  # noqa: E731
    expand = lambda hh, o: (trig(o), hh if o in faces else o)[1]  # noqa: E731
    cb = lambda res: (trig(res.outcome), res.outcome)[1]  # noqa: E731
    for st in case["steps"]:
        raised = []
        cur.update(st=st, raised=raised)

        try:
            with warnings.catch_warnings():
                warnings.simplefilter("ignore")
                if st["api"] == "explode":
                    r = explode(H(h) if st.get("fresh") else h, pred, limit=E.py_limit(st["lim"]) if st.get("lim") else st["n"])
                elif st["api"] == "foreach":
                    r = foreach(cb, h)
                else:
                    r = h.substitute(expand, operator.__add__, max_depth=st["n"])
            outs.append(E.fmt_h(r))
        except BaseException as e:  # noqa: B902
            if isinstance(e, (KeyboardInterrupt, SystemExit, C.CaseTimeout)):
                raise
            s = E.exc_str(e)
            if raised and isinstance(getattr(e, "tag", None), int) and e is not raised[-1]:
                s += " (not the raised object)"
            outs.append(s)
    return " ; ".join(outs)


def _xs_oracle(case):
    from props import C08

    outs = []
    for st in case["steps"]:
        if st["raise_at"] is not None:
            outs.append(E.exc_str(E.make_exc(st["exc"])))
        elif st["api"] == "foreach":
            outs.append(E.fmt_dist(E.dist_of_items(case["h"])))
        else:
            lim = E.normalize(st["lim"]) if st.get("lim") and st["api"] == "explode" else ("i", st["n"])
            outs.append(E.fmt_dist(C08.spec_explode(case["h"], set(case["faces"]), lim)))
    return " ; ".join(outs)


def oracle(case):
    """every call judged alone, from a fresh interpreter (the sentence of the property)"""
    if case["k"] == "xs":
        return _xs_oracle(case)
    outs = []
    for call in case["calls"]:
        r = E.run_reference(dict(case, calls=[call]))
        if r is None:
            return None
        outs.append(r)
    return " ; ".join(outs)


def known_finding(case, got, exp, known):
    """F12: a callback raising StopIteration — the evaluator calls callbacks inside a generator, so the interpreter
    (PEP 479) turns it into RuntimeError; every OTHER difference is still reported"""
    g, e = got.split(" ; "), (exp or "").split(" ; ")
    if len(g) != len(e):
        return None
    diff = [(a, b) for a, b in zip(g, e) if a != b]
    if diff and all(b == "err User7" and a in ("err RuntimeError", "err Other:RuntimeError") for a, b in diff):
        for k in known:
            if k.get("match", {}).get("exception") == "StopIteration":
                return k
    return None


def classify(case, got):
    if case["k"] == "xs":
        return "xs/" + "+".join(sorted({st["api"] for st in case["steps"]}))
    return _classify_hist(case, got)


def _classify_hist(case, got):
    parts = got.split(" ; ")
    nerr = sum(1 for p in parts if p.startswith("err"))
    kinds = sorted({("User" if "User" in p else p.split()[1]) for p in parts if p.startswith("err") and len(p.split()) > 1})
    return "%dcalls/%derr/%s" % (len(parts), nerr, "+".join(kinds) or "-")


def nontrivial(case, got):
    parts = got.split(" ; ")
    seen_err = False
    for p in parts:
        if p.startswith("err"):
            seen_err = True
        elif seen_err and p.startswith("ok"):
            return True
    return False


describe = C07.describe


def shrink(case):
    if case["k"] == "xs":
        st = case["steps"]
        for j in range(len(st)):
            if len(st) > 1:
                yield dict(case, steps=st[:j] + st[j + 1 :])
        return
    yield from C07.shrink(case)


def _gen_xs(rnd):
    import gen

    items = [[o, c] for o, c in ((int(o.split(":")[1]), c) for o, c in gen.rand_h(rnd, rnd.choice([1, 2, 4, 4]), "int", counts=(0, 1, 1, 2, 3))) ]
    if not any(c for _, c in items):
        items[0][1] = 1
    outs = [o for o, _ in items]
    faces = rnd.sample(outs, rnd.randint(1, max(1, len(outs) - 1)))
    steps = []
    for _ in range(rnd.randint(2, 4)):
        api = rnd.choice(["explode", "explode", "substitute", "foreach"])
        raising = rnd.random() < 0.5
        st = dict(api=api, n=rnd.choice([1, 1, 2]), raise_at=rnd.choice(outs) if raising else None,
                  exc=rnd.choice([1, 2, 2, 3, 4, 5, 6, 8, 9, 10, 20, 30, 7] + list(range(40, 46)) + list(range(47, 55))), fresh=rnd.random() < 0.5)
        if api == "explode" and rnd.random() < 0.3:
            st["lim"] = ["q", 1, rnd.choice([2, 3, 5, 9])]  # a limit of the other kind, same predicate object
        steps.append(st)
    steps.append(dict(api=rnd.choice(["explode", "substitute"]), n=rnd.choice([0, 1, 2]), raise_at=None, exc=1))  # a probe that must succeed
    return dict(k="xs", h=items, faces=faces, steps=steps)


def generate(rnd, tier, scale):
    for _ in range(int((120 if tier == "quick" else 1200) * scale)):
        yield _gen_xs(rnd)
    n = int((400 if tier == "quick" else 4000) * scale)
    made = tries = 0
    while made < n and tries < 30 * n:
        tries += 1
        sources, srclists, fns = C07.rand_program(rnd)
        # sprinkle exceptions over the tables
        for f in fns:
            for j in range(len(f["acts"])):
                if rnd.random() < 0.22:
                    f["acts"][j] = ["throw", rnd.choice([0, 0, 1, 10, 11, 12, 20, 21, 30, 31, 2, 3, 4, 5, 6, 7, 8, 9] + list(range(40, 46)) + list(range(47, 55)))]
        calls = []
        for _ in range(rnd.randint(2, 5)):
            calls.append([rnd.randrange(len(fns)), rnd.randrange(len(srclists)), E.rand_limit(rnd, ("none", "int", "int", "frac", "bad"))])
        case = dict(k="hist", sources=sources, srclists=srclists, fns=fns, calls=calls)
        if rnd.random() < 0.15:
            case["prime"] = True
        if rnd.random() < 0.3 and all(sl.get("nkw", 0) <= len(sl["srcs"]) for sl in srclists):
            case["via"] = "foreach"  # the same histories through evaluation.foreach
        try:
            if oracle(case) is None:
                continue
        except RecursionError:
            continue
        made += 1
        yield case
