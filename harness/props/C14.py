"""C14 — evaluation limits and context never leak across calls, even after errors."""
from __future__ import annotations

import common as C
from props import C07
from props import evalcommon as E

RULE = (
    "cases = corpus + seeded histories: a recursive program (as C07) whose callback tables also raise at arbitrary table "
    "positions — Exception subclasses, RuntimeError subclasses, BaseException subclasses (non-Exception), ValueError, "
    "RecursionError — at the top level, in nested evaluations and while pool rolls are enumerated; a history of 2..5 top-level "
    "evaluations (completed, cut, aborted) in ONE interpreter, each compared with its fresh-interpreter answer and the identity "
    "of the propagated exception object; distinct = distinct history; non-trivial = some evaluation aborts and a later one succeeds"
)
TRUSTED = C07.TRUSTED
ASSUMPTIONS = C07.ASSUMPTIONS
EXPLANATION = "theorems C14_context_restored (all fuel, callbacks, abort points), C14_history_fresh, C14_error_propagates, C14_recursion_error_to_sentinel"

impl = E.run_impl
model = E.model_line
model_post = E.model_post


def oracle(case):
    """every call judged alone, from a fresh interpreter (the sentence of the property)"""
    outs = []
    for call in case["calls"]:
        r = E.run_reference(dict(case, calls=[call]))
        if r is None:
            return None
        outs.append(r)
    return " ; ".join(outs)


def classify(case, got):
    parts = got.split(" ; ")
    nerr = sum(1 for p in parts if p.startswith("err"))
    kinds = sorted({("User" if "User" in p else p.split()[1]) for p in parts if p.startswith("err") and len(p.split()) > 1})
    return "%dcalls/%derr/%s" % (len(parts), nerr, "+".join(kinds) or "-")


def nontrivial(case, got):
    parts = got.split(" ; ")
    seen_err = False
    for p in parts:
        if p.startswith("err"):
            seen_err = True
        elif seen_err and p.startswith("ok"):
            return True
    return False


describe = C07.describe
shrink = C07.shrink


def generate(rnd, tier, scale):
    n = int((400 if tier == "quick" else 4000) * scale)
    made = tries = 0
    while made < n and tries < 30 * n:
        tries += 1
        sources, srclists, fns = C07.rand_program(rnd)
        # sprinkle exceptions over the tables
        for f in fns:
            for j in range(len(f["acts"])):
                if rnd.random() < 0.22:
                    f["acts"][j] = ["throw", rnd.choice([0, 0, 1, 10, 11, 12, 20, 21, 30, 31])]
        calls = []
        for _ in range(rnd.randint(2, 5)):
            calls.append([rnd.randrange(len(fns)), rnd.randrange(len(srclists)), E.rand_limit(rnd, ("none", "int", "int", "frac", "bad"))])
        case = dict(k="hist", sources=sources, srclists=srclists, fns=fns, calls=calls)
        try:
            if oracle(case) is None:
                continue
        except RecursionError:
            continue
        made += 1
        yield case
