"""C13 — results never depend on what was computed earlier (cache transparency)."""
from __future__ import annotations

from collections import Counter
from fractions import Fraction
from math import lcm

import common as C
import gen
from props import poolcommon as PC

RULE = (
    "cases = corpus + seeded histories of 2..7 queries (P.h, rolls_with_counts, order_stat_for_n_at_pos, appearances_in_rolls, ==, "
    "hash, lowest_terms) over a shared population built from twin families that collide under == and hash (scaled counts, "
    "zero-count padding, equal-valued outcomes of int / float / Fraction / bool type, H(h) aliases, lowest_terms() objects); every "
    "warm answer is compared with the model's history-free answer and — outcomes, their TYPES and positive counts — with the "
    "answer the same query gives in a freshly forked pristine interpreter and cold in-process (fresh objects, every functools cache cleared); distinct = distinct history; non-trivial = "
    ">= 2 queries touch objects of one twin family"
)
TRUSTED = [
    "'fresh interpreter' = (a) a child forked per query from a pristine process that has imported dyce and computed nothing (harness/coldserver.py), (b) in-process: all objects rebuilt from their descriptions and cache_clear() on every functools cache of dyce.p / dyce.h",
    "values reach the model rank-encoded (types are compared warm-vs-cold on the implementation side)",
]
ASSUMPTIONS = ["outcomes are totally ordered numbers"]
EXPLANATION = "theorems C13_memo_transparent (any memo with a sound key answers every history like a cold computation), C13_exact_key_sound, C13_pinned_key_unsound, C13_selection_memo_history; the stateless model is the cold answer"


def _build(case):
    """fresh objects from the description: list of H, list of P (pools reference histograms by index)"""
    from dyce import H, P

    hs = []
    for d in case["hists"]:
        if d[0] == "h":
            hs.append(C.dec_h(d[1]))
        elif d[0] == "n":
            hs.append(H(C.dec_out(d[1])))  # the H(n) shorthand: outcomes take the type of n
        elif d[0] == "alias":
            hs.append(H(hs[d[1]]))
        elif d[0] == "lt":
            hs.append(hs[d[1]].lowest_terms())
    ps = [P(*[hs[i] for i in idxs]) for idxs in case["pools"]]
    return hs, ps


def _typed(items):
    return ",".join("%s:%s" % (type(o).__name__, o) for o in items)


def _run_query(q, hs, ps):
    """-> (value string with rank-encoded outcomes, type string)"""
    k = q[0]
    if k == "ph":
        p = ps[q[1]]
        which = gen.which_to_py(q[2])
        r = p.h(*which)
        den = 1
        for h in p:
            for o in h.outcomes():
                den = lcm(den, Fraction(o).denominator)
        vals = ("ok " + " ".join("%d:%d" % (int(Fraction(o) * den), c) for o, c in sorted(r.items()) if c)).strip()
        return vals, _typed(o for o, c in r.items() if c)
    if k == "rwc":
        p = ps[q[1]]
        table = PC.pool_rank_table(p)
        c = Counter()
        types = set()
        for roll, cnt in p.rolls_with_counts(*gen.which_to_py(q[2])):
            if cnt:
                c[tuple(C.rank_of(table, o) for o in roll)] += cnt
                types.add(_typed(roll))
        return PC.fmt_rolls(c), "|".join(sorted(types))
    if k == "ostat":
        h = hs[q[1]]
        table = C.ranks(list(h.outcomes()))
        r = h.order_stat_for_n_at_pos(q[2], q[3])
        vals = ("ok " + " ".join("%d:%d" % (C.rank_of(table, o), c) for o, c in r.items() if c)).strip() + " total=%d" % r.total
        return vals, _typed(o for o, c in r.items() if c)
    if k == "appear":
        p = ps[q[1]]
        r = p.appearances_in_rolls(C.dec_out(q[2]))
        return ("ok " + " ".join("%d:%d" % (o, c) for o, c in sorted(r.items()) if c)).strip() + " total=%d" % r.total, ""
    if k == "hash":
        hash(hs[q[1]])  # caches the hash on the object; answers like h == h
        q = ["eq", q[1], q[1]]
        k = "eq"
    if k == "eq":
        a, b = hs[q[1]], hs[q[2]]
        eq = a == b
        s = "ok eq=%s" % str(bool(eq)).lower()
        if eq and hash(a) != hash(b):
            s += " hash-differs"
        return s, ""
    if k == "lt":
        h = hs[q[1]]
        table = C.ranks(list(h.outcomes()))
        r = h.lowest_terms()
        return ("ok " + " ".join("%d:%d" % (C.rank_of(table, o), c) for o, c in r.items())).strip() + " total=%d" % r.total, _typed(r.outcomes())
    raise KeyError(k)


def _safe_query(q, hs, ps):
    try:
        return _run_query(q, hs, ps)
    except IndexError:
        return "err IndexError", ""


_SERVER = None


def _cold_server():
    """the pristine fork server (harness/coldserver.py), started on first use"""
    global _SERVER
    import atexit
    import os
    import subprocess
    import sys

    if _SERVER is None or _SERVER.poll() is not None:
        here = os.path.dirname(os.path.dirname(os.path.abspath(__file__)))
        _SERVER = subprocess.Popen([sys.executable, "-B", os.path.join(here, "coldserver.py")], stdin=subprocess.PIPE, stdout=subprocess.PIPE, text=True, bufsize=1)
        atexit.register(_stop_server)
    return _SERVER


def _stop_server():
    global _SERVER
    if _SERVER is not None:
        try:
            _SERVER.kill()
            _SERVER.wait(timeout=5)
        except Exception:
            pass
        _SERVER = None


def _cold_fresh(case, qi):
    """the answer of query `qi` in a freshly forked pristine interpreter"""
    import json

    srv = _cold_server()
    try:
        srv.stdin.write(json.dumps({"case": case, "qi": qi}) + "\n")
        srv.stdin.flush()
        line = srv.stdout.readline()
        if not line:
            raise RuntimeError("cold server died")
        res = json.loads(line)
    except BaseException:
        _stop_server()  # never reuse a server that may be mid-request (e.g. after a case timeout)
        raise
    if isinstance(res, dict):
        return "exc " + res["exc"], ""
    return res[0], res[1]


def impl(case):
    C.clear_caches()
    hs, ps = _build(case)
    outs = []
    warm = []
    for q in case["queries"]:
        v, t = _safe_query(q, hs, ps)
        warm.append((v, t))
    # the same queries, each in a fresh interpreter: (a) a freshly forked pristine process, (b) in-process emulation
    for qi, (q, (v, t)) in enumerate(zip(case["queries"], warm)):
        s = v
        fv, ft = _cold_fresh(case, qi)
        if fv != v:
            s += " DIFFERS-FROM-FRESH-PROCESS(%s)" % fv
        if ft != t:
            s += " TYPES-DIFFER-FROM-FRESH-PROCESS(warm %s / fresh %s)" % (t, ft)
        C.clear_caches()
        chs, cps = _build(case)
        cv, ct = _safe_query(q, chs, cps)
        if cv != v:
            s += " DIFFERS-FROM-COLD(%s)" % cv
        if ct != t:
            s += " TYPES-DIFFER-FROM-COLD(warm %s / cold %s)" % (t, ct)
        outs.append(s)
    C.clear_caches()
    return " || ".join(outs)


def model(case):
    C.clear_caches()
    hs, ps = _build(case)
    lines = []
    for q in case["queries"]:
        k = q[0]
        if k == "ph":
            p = ps[q[1]]
            den = 1
            for h in p:
                for o in h.outcomes():
                    den = lcm(den, Fraction(o).denominator)
            lines.append(" ".join(["PH"] + PC.pool_tokens(p, lambda o: int(Fraction(o) * den)) + gen.which_tokens(q[2])))
        elif k == "rwc":
            p = ps[q[1]]
            table = PC.pool_rank_table(p)
            lines.append(" ".join(["RWC"] + PC.pool_tokens(p, lambda o: C.rank_of(table, o)) + gen.which_tokens(q[2])))
        elif k == "ostat":
            h = hs[q[1]]
            table = C.ranks(list(h.outcomes()))
            toks = [str(len(h))]
            for o, c in h.items():
                toks += [str(C.rank_of(table, o)), str(c)]
            lines.append(" ".join(["OSTAT"] + toks + [str(q[2]), str(q[3])]))
        elif k == "appear":
            p = ps[q[1]]
            o = C.dec_out(q[2])
            table = C.ranks([x for h in p for x in h.outcomes()] + [o])
            lines.append(" ".join(["APPEAR"] + PC.pool_tokens(p, lambda x: C.rank_of(table, x)) + [str(C.rank_of(table, o))]))
        elif k in ("eq", "hash"):
            a, b = hs[q[1]], hs[q[2] if k == "eq" else q[1]]
            table = C.ranks(list(a.outcomes()) + list(b.outcomes()))
            toks = []
            for h in (a, b):
                toks.append(str(len(h)))
                for o, c in h.items():
                    toks += [str(C.rank_of(table, o)), str(c)]
            lines.append(" ".join(["EQ"] + toks))
        elif k == "lt":
            h = hs[q[1]]
            table = C.ranks(list(h.outcomes()))
            toks = [str(len(h))]
            for o, c in h.items():
                toks += [str(C.rank_of(table, o)), str(c)]
            lines.append(" ".join(["LT"] + toks))
    C.clear_caches()
    return lines


def model_post(case, out):
    parts = out.split(" || ")
    res = []
    for q, p in zip(case["queries"], parts):
        p = " ".join(p.split())
        k = q[0]
        if k in ("ph",):
            items = [t for t in p.split()[1:] if not t.endswith(":0")]
            p = ("ok " + " ".join(items)).strip() if p.startswith("ok") else p
        if k == "appear":
            p = " ".join(t for t in p.split() if not t.endswith(":0") or t.startswith("total"))
        if k in ("eq", "hash"):
            p = p.split(" hasheq")[0]
        if p.startswith("err"):
            p = "err IndexError"
        res.append(p)
    return " || ".join(res)


def classify(case, got):
    return "+".join(sorted({q[0] for q in case["queries"]}))


def nontrivial(case, got):
    return len(case["queries"]) >= 2 and "ok" in got


def describe(case):
    return case


def shrink(case):
    q = case["queries"]
    for j in range(len(q)):
        if len(q) > 1:
            yield dict(case, queries=q[:j] + q[j + 1 :])


def _retyped(rnd, items):
    t = rnd.choice(["f", "q", "i"])
    partial = rnd.random() < 0.5  # only some outcomes change type (mixed-type histograms)
    out = []
    for o, c in items:
        v = C.dec_out(o)
        if isinstance(v, bool) or Fraction(v).denominator != 1 or (partial and rnd.random() < 0.5):
            out.append([o, c])
        else:
            out.append([C.enc_out(float(v) if t == "f" else Fraction(int(v)) if t == "q" else int(v)), c])
    return out


def generate(rnd, tier, scale):
    n = int((600 if tier == "quick" else 6000) * scale)
    for _ in range(n):
        base = gen.rand_h(rnd, 4, rnd.choice(["int", "int", "neg"]), counts=(1, 1, 2, 3))
        fam = [["h", base]]
        for _ in range(rnd.randint(1, 3)):
            t = rnd.random()
            if t < 0.3:
                fam.append(["h", gen.scale_h(base, rnd.choice([2, 3]))])
            elif t < 0.5:
                pad = [list(x) for x in base]
                pad.insert(rnd.randint(0, len(pad)), [C.enc_out(rnd.choice([-9, 17, 42])), 0])
                fam.append(["h", pad])
            elif t < 0.8:
                fam.append(["h", _retyped(rnd, base)])
            elif t < 0.9:
                fam.append(["alias", rnd.randrange(len(fam))])
            else:
                fam.append(["lt", rnd.randrange(len(fam))])
        if rnd.random() < 0.4:
            fam.append(["h", gen.rand_h(rnd, 3, "int")])
        if rnd.random() < 0.2:
            # the same die spelled with the H(n) shorthand in several numeric types (and as an explicit mapping)
            k = rnd.choice([2, 3, 4, -3])
            for enc in rnd.sample(["i:%d" % k, "f:%d.0" % k, "q:%d/1" % k], rnd.randint(2, 3)):
                fam.append(["n", enc])
            fam.append(["h", [["i:%d" % o, 1] for o in (range(1, k + 1) if k > 0 else range(k, 0))]])
        pair = None
        if rnd.random() < 0.35:
            # an unreduced histogram and the object its lowest_terms() returns, queried alike
            fam.append(["h", gen.scale_h(base, rnd.choice([2, 3]))])
            fam.append(["lt", len(fam) - 1])
            pair = (len(fam) - 2, len(fam) - 1)
        nh = len(fam)
        pools = []
        for _ in range(rnd.randint(1, 3)):
            k = rnd.randint(1, 4)
            if rnd.random() < 0.7:
                pools.append([rnd.randrange(nh)] * k)  # homogeneous: goes through the partial-selection memo
            else:
                pools.append([rnd.randrange(nh) for _ in range(k)])
        queries = []
        for _ in range(rnd.randint(2, 7)):
            t = rnd.random()
            if t < 0.35:
                pi = rnd.randrange(len(pools))
                npool = len(pools[pi])
                queries.append(["ph", pi, gen.rand_which(rnd, npool, max_ids=2)])
            elif t < 0.5:
                pi = rnd.randrange(len(pools))
                queries.append(["rwc", pi, gen.rand_which(rnd, len(pools[pi]), max_ids=2)])
            elif t < 0.72:
                nn = rnd.choice([1, 2, 2, 3])
                queries.append(["ostat", rnd.randrange(nh), nn, rnd.randint(-nn, nn - 1)])
            elif t < 0.8:
                pi = rnd.randrange(len(pools))
                queries.append(["appear", pi, rnd.choice([o for o, _ in base])])
            elif t < 0.9:
                queries.append(["eq", rnd.randrange(nh), rnd.randrange(nh)])
            else:
                queries.append(["lt", rnd.randrange(nh)])
        if rnd.random() < 0.4:
            # the same partial selection on two same-sized pools of equal-but-differently-typed dice
            twin_idx = [i for i, f in enumerate(fam) if f[0] == "h"]
            if len(twin_idx) >= 2:
                a_i, b_i = rnd.sample(twin_idx, 2)
                k = rnd.randint(2, 4)
                pools.append([a_i] * k)
                pools.append([b_i] * k)
                sel = rnd.choice([[["i", -1]], [["i", 0]], [["s", None, 1, None]], [["s", -2, None, None]], [["i", 0], ["i", 0]]])
                qk = rnd.choice(["ph", "rwc"])
                qs = [[qk, len(pools) - 2, sel], [qk, len(pools) - 1, sel]]
                rnd.shuffle(qs)
                at = rnd.randint(0, len(queries))
                queries = queries[:at] + qs + queries[at:]
        if rnd.random() < 0.2:
            # two histograms that differ only in outcomes whose hashes collide in CPython (hash(-1) == hash(-2),
            # hash(0) == hash(2**61 - 1)): equal hashes, different distributions; hashed first, compared afterwards
            x, y = rnd.choice([(-1, -2), (0, 2**61 - 1)])
            others = [[o, c] for o, c in base if C.dec_out(o) not in (x, y)][:2]
            cnt = rnd.choice([1, 2])
            fam.append(["h", sorted(others + [[C.enc_out(x), cnt]], key=lambda oc: C.dec_out(oc[0]))])
            fam.append(["h", sorted(others + [[C.enc_out(y), cnt]], key=lambda oc: C.dec_out(oc[0]))])
            i, j = len(fam) - 2, len(fam) - 1
            nh = len(fam)
            qs = [["hash", i], ["hash", j], ["eq", i, j]]
            if rnd.random() < 0.5:
                qs = [["eq", i, j]] + qs
            at = rnd.randint(0, len(queries))
            queries = queries[:at] + qs + queries[at:]
        if rnd.random() < 0.15:
            # many distinct n asked of ONE object, then the first again (per-instance caches of order statistics)
            hi = rnd.randrange(nh)
            ns = rnd.sample([1, 2, 3, 4, 5, 6], rnd.randint(4, 6))
            qs = [["ostat", hi, nn, rnd.randint(-nn, nn - 1)] for nn in ns] + [["ostat", hi, ns[0], 0]]
            at = rnd.randint(0, len(queries))
            queries = queries[:at] + qs + queries[at:]
        if rnd.random() < 0.25:
            # compare two members of a twin family, then ask each for its lowest terms (types must stay its own)
            i, j = rnd.randrange(nh), rnd.randrange(nh)
            qs = [["eq", i, j], ["lt", j], ["lt", i], ["ostat", j, 2, 0]]
            at = rnd.randint(0, len(queries))
            queries = queries[:at] + qs + queries[at:]
        if pair:
            nn = rnd.choice([1, 2, 3])
            pos = rnd.randint(-nn, nn - 1)
            qs = [["ostat", pair[0], nn, pos], ["ostat", pair[1], nn, pos]]
            rnd.shuffle(qs)
            at = rnd.randint(0, len(queries))
            queries = queries[:at] + qs + queries[at:]
        yield dict(hists=fam, pools=pools, queries=queries)
