"""Shared machinery of the roller checks (C10, C11, C12): roller trees as JSON, the real `R` tree,
exhaustive enumeration of every random choice path through a scripted `dyce.rng.RNG`, canonical
serialisation of roll records (the same format the Lean driver prints)."""
from __future__ import annotations

import operator
import random
from collections import Counter

import common as C
import gen

BIN = {
    0: ("add", lambda a, b: a + b),
    1: ("sub", lambda a, b: a - b),
    2: ("mul", lambda a, b: a * b),
    3: ("lt", lambda a, b: a.lt(b)),
    4: ("eq", lambda a, b: a.eq(b)),
    5: ("ge", lambda a, b: a.ge(b)),
    6: ("ne", lambda a, b: a.ne(b)),
    7: ("floordiv", lambda a, b: a // b),
    8: ("mod", lambda a, b: a % b),
    9: ("le", lambda a, b: a.le(b)),
    10: ("gt", lambda a, b: a.gt(b)),
    11: ("and", lambda a, b: a & b),
    12: ("or", lambda a, b: a | b),
    13: ("xor", lambda a, b: a ^ b),
    14: ("pow", lambda a, b: a ** b),
}
BIN_INT = {0: operator.add, 1: operator.sub, 2: operator.mul, 3: lambda a, b: int(a < b), 4: lambda a, b: int(a == b), 5: lambda a, b: int(a >= b), 6: lambda a, b: int(a != b),
           7: operator.floordiv, 8: operator.mod, 9: lambda a, b: int(a <= b), 10: lambda a, b: int(a > b), 11: operator.and_, 12: operator.or_, 13: operator.xor, 14: lambda a, b: _safe_pow(a, b)}


def _safe_pow(a, b):
    if b < 0 or b > 6:
        raise ZeroDivisionError("exponent outside the modelled domain")  # rejected by the generators like a zero divisor
    return a ** b


BIN_PY = {"add": operator.add, "sub": operator.sub, "mul": operator.mul, "floordiv": operator.floordiv, "mod": operator.mod, "and": operator.and_, "or": operator.or_, "xor": operator.xor, "pow": operator.pow}
# unary: the same callable works on an R (builds a roller) and on a RollOutcome (inside umap)
UN = {0: operator.neg, 1: operator.abs, 2: operator.pos, 3: operator.invert, 4: lambda x: x.is_even(), 5: lambda x: x.is_odd()}
UN_INT = {0: operator.neg, 1: operator.abs, 2: operator.pos, 3: operator.invert, 4: lambda v: int(v % 2 == 0), 5: lambda v: int(v % 2 != 0)}


def map_fn(code, arg):
    if code == 0:
        return lambda v: v
    if code == 1:
        return lambda v: min(v, arg)
    if code == 2:
        return lambda v: -v
    return lambda v: v + arg


def pred_fn(code, arg):
    if code == 0:
        return lambda v: v > arg
    if code == 1:
        return lambda v: v % 2 == 0
    if code == 2:
        return lambda v: v == arg
    return lambda v: v < arg


class Scripted(random.Random):
    """dyce.rng.RNG stand-in: every `choices` request is answered from the script; unexplored
    requests take their first positive-weight option and are recorded for the enumeration"""

    def __init__(self):
        super().__init__(0)
        self.path, self.pos, self.log = [], 0, []

    def choices(self, population, weights=None, *, cum_weights=None, k=1):
        population = list(population)
        if weights is None:
            weights = [1] * len(population)
        weights = list(weights)
        opts = [i for i, w in enumerate(weights) if w > 0]
        if k != 1 or not opts:
            raise AssertionError("unexpected request to the generator: k=%r weights=%r" % (k, weights))
        if self.pos < len(self.path):
            j = self.path[self.pos]
        else:
            j = 0
            self.path.append(0)
        self.log.append((tuple(population), tuple(weights), opts, j))
        self.pos += 1
        return [population[opts[j]]]

    # any other way of drawing randomness is a violation of "one weighted choice per die"
    def random(self):
        raise AssertionError("generator used outside choices()")

    def getrandbits(self, k):
        raise AssertionError("generator used outside choices()")


def explore(run, max_paths=20000):
    """Call `run()` once per choice path. Yields (result, weight, log)."""
    import dyce.rng

    saved = dyce.rng.RNG
    rng = Scripted()
    dyce.rng.RNG = rng
    try:
        path = []
        n = 0
        while True:
            rng.path, rng.pos, rng.log = list(path), 0, []
            res = run()
            w = 1
            for _, weights, opts, j in rng.log:
                w *= weights[opts[j]]
            yield res, w, list(rng.log)
            n += 1
            if n > max_paths:
                raise AssertionError("too many choice paths")
            # odometer: advance the last choice that still has an unexplored option
            path = [j for _, _, _, j in rng.log]
            k = len(path) - 1
            while k >= 0 and path[k] + 1 >= len(rng.log[k][2]):
                k -= 1
            if k < 0:
                return
            path = path[:k] + [path[k] + 1]
    finally:
        dyce.rng.RNG = saved


# ---- trees -----------------------------------------------------------------------------------


def _all_leaves(subs):
    return bool(subs) and all(s[0] in ("val", "valh", "valp") for s in subs)


def _leaf_value(tree):
    from dyce import H, P

    if tree[0] == "val":
        return tree[1]
    if tree[0] == "valh":
        return H([(o, c) for o, c in tree[1]])
    return P(*[H([(o, c) for o, c in h]) for h in tree[1]])


def build(tree):
    from dyce import H, P
    from dyce.r import CoalesceMode, R, SubstitutionRoller

    t = tree[0]
    if t == "val":
        return R.from_value(tree[1])
    if t == "valh":
        return R.from_value(H([(o, c) for o, c in tree[1]]))
    if t == "valp":
        return R.from_value(P(*[H([(o, c) for o, c in h]) for h in tree[1]]))
    if t == "pool":
        if _all_leaves(tree[1]) and len(repr(tree)) % 2:
            return R.from_values(*[_leaf_value(s) for s in tree[1]])
        return R.from_sources(*[build(s) for s in tree[1]])
    if t == "rep":
        return tree[1] @ build(tree[2])
    if t == "bin":
        # exercise the operator / method spellings R exposes (direct, reflected with a scalar, .map)
        variant = (len(repr(tree)) + tree[1]) % 3
        l, r = tree[2], tree[3]
        name = BIN[tree[1]][0]
        if l == r and l[0] != "val" and len(repr(tree)) % 2:
            # ONE roller object used as both operands: it is still rolled once per operand, independently
            shared = build(l)
            return BIN_PY[name](shared, shared) if name in BIN_PY else getattr(shared, name)(shared)
        if variant == 0 or name in ("lt", "eq", "ge", "ne", "le", "gt") and variant == 1:
            if name in BIN_PY:
                if l[0] == "val":
                    return BIN_PY[name](l[1], build(r))  # reflected: scalar on the left
                if r[0] == "val":
                    return BIN_PY[name](build(l), r[1])
                return BIN_PY[name](build(l), build(r))
            return getattr(build(l), name)(r[1] if r[0] == "val" else build(r))
        return build(l).map(BIN[tree[1]][1], build(r))
    if t == "un":
        variant = len(repr(tree)) % 2
        if variant == 0:
            return UN[tree[1]](build(tree[2]))  # -r, abs(r), +r
        return build(tree[2]).umap(UN[tree[1]])
    if t == "unb":
        # a scalar combined with each RollOutcome inside umap: RollOutcome's own (reflected) operators / shorthands
        name, k, side = BIN[tree[1]][0], tree[2], tree[3]
        if name in BIN_PY:
            f = (lambda o: BIN_PY[name](o, k)) if side == 0 else (lambda o: BIN_PY[name](k, o))
        else:
            f = lambda o: getattr(o, name)(k)  # noqa: E731
        return build(tree[4]).umap(f)
    if t == "unc":
        # a custom operator combining RollOutcome operations in several steps: lambda o: step_n(... step_1(o))
        steps = tree[1]

        def custom(o):
            for code, k, side in steps:
                if side == 2:
                    o = UN[code](o)
                else:
                    name = BIN[code][0]
                    if name in BIN_PY:
                        o = BIN_PY[name](o, k) if side == 0 else BIN_PY[name](k, o)
                    else:
                        o = getattr(o, name)(k)
            return o

        return build(tree[2]).umap(custom)
    if t == "filtsrc":
        # a predicate that looks at where an outcome came from, not at its value: keep what source j produced
        srcs = [build(s) for s in tree[2]]
        keep = srcs[tree[1]]
        return R.filter_from_sources(lambda o: o.r is keep, *srcs)
    if t == "filt":
        p = pred_fn(tree[1], tree[2])
        if len(tree[3]) == 1 and len(repr(tree)) % 2:
            return build(tree[3][0]).filter(lambda o: p(o.value))
        if _all_leaves(tree[3]) and len(repr(tree)) % 3 == 0:
            return R.filter_from_values(lambda o: p(o.value), *[_leaf_value(s) for s in tree[3]])
        return R.filter_from_sources(lambda o: p(o.value), *[build(s) for s in tree[3]])
    if t == "sel":
        if len(tree[2]) == 1 and len(repr(tree)) % 2:
            return build(tree[2][0]).select(*gen.which_to_py(tree[1]))
        if _all_leaves(tree[2]) and len(repr(tree)) % 3 == 0:
            return R.select_from_values(gen.which_to_py(tree[1]), *[_leaf_value(s) for s in tree[2]])
        return R.select_from_sources(gen.which_to_py(tree[1]), *[build(s) for s in tree[2]])
    if t == "subst":
        p = pred_fn(tree[1], tree[2])
        e = build(tree[3])
        return SubstitutionRoller(
            lambda o: e.roll() if p(o.value) else o,
            build(tree[6]),
            CoalesceMode.REPLACE if tree[4] else CoalesceMode.APPEND,
            max_depth=tree[5],
        )
    if t == "substmap":
        from dyce.r import RollOutcome

        p = pred_fn(tree[1], tree[2])
        f = map_fn(tree[3], tree[4])
        return SubstitutionRoller(lambda o: RollOutcome(f(o.value)) if p(o.value) else o, build(tree[6]), max_depth=tree[5])
    raise KeyError(t)


def hist_tokens(items):
    agg = {}
    for o, c in items:
        agg[int(o)] = agg.get(int(o), 0) + c
    toks = [str(len(agg))]
    for o, c in sorted(agg.items()):
        toks += [str(o), str(c)]
    return toks


def tokens(tree):
    t = tree[0]
    if t == "val":
        return ["0", str(tree[1])]
    if t == "valh":
        return ["1"] + hist_tokens(tree[1])
    if t == "valp":
        from dyce import H, P

        p = P(*[H([(o, c) for o, c in h]) for h in tree[1]])  # canonical dice order, as the pool rolls them
        out = ["2", str(len(p))]
        for h in p:
            out += hist_tokens(list(h.items()))
        return out
    if t == "pool":
        out = ["3", str(len(tree[1]))]
        for s in tree[1]:
            out += tokens(s)
        return out
    if t == "rep":
        return ["4", str(tree[1])] + tokens(tree[2])
    if t == "bin":
        return ["5", str(tree[1])] + tokens(tree[2]) + tokens(tree[3])
    if t == "un":
        return ["6", str(tree[1])] + tokens(tree[2])
    if t == "filt":
        out = ["7", str(tree[1]), str(tree[2]), str(len(tree[3]))]
        for s in tree[3]:
            out += tokens(s)
        return out
    if t == "sel":
        out = ["8"] + gen.which_tokens(tree[1]) + [str(len(tree[2]))]
        for s in tree[2]:
            out += tokens(s)
        return out
    if t == "subst":
        return ["9", str(tree[1]), str(tree[2])] + tokens(tree[3]) + ["1" if tree[4] else "0", str(tree[5])] + tokens(tree[6])
    if t == "unb":
        return ["11", str(tree[1]), str(tree[2]), str(tree[3])] + tokens(tree[4])
    if t == "filtsrc":
        raise KeyError("filtsrc has no model form")
    if t == "unc":
        out = ["12", str(len(tree[1]))]
        for code, k, side in tree[1]:
            out += [str(code), str(k), str(side)]
        return out + tokens(tree[2])
    if t == "substmap":
        return ["10", str(tree[1]), str(tree[2]), str(tree[3]), str(tree[4]), str(tree[5])] + tokens(tree[6])
    raise KeyError(t)


# ---- serialisation (same format as the Lean driver) --------------------------------------------


def show_ro(o):
    try:
        o.source_roll  # noqa: B018  raises AssertionError when the outcome belongs to no roll
        owned = "+"
    except AssertionError:
        owned = "-"
    v = "N" if o.value is None else str(int(o.value))
    return "O(%s%s[%s])" % (v, owned, ",".join(show_ro(s) for s in o.sources))


def show_outcomes(outs):
    live = [show_ro(o) for o in outs if o.value is not None]
    dead = sorted(show_ro(o) for o in outs if o.value is None)
    return ",".join(live + dead)


def show_rec(roll):
    return "R{%s;%s}" % (show_outcomes(list(roll)), ",".join(show_rec(s) for s in roll.source_rolls))


def fmt_agg(counter):
    items = sorted((k, v) for k, v in counter.items() if v)
    return ("ok " + " ".join("%s*%d" % kv for kv in items)).strip()


def show_vals(vs):
    return "(" + ",".join(str(int(v)) for v in vs) + ")"


# ---- the compositional denotation with plain Python (first principles) --------------------------


DENOTE_LIMIT = 20000


class TooBig(Exception):
    """the exact distribution of this tree is too large to enumerate in a check"""


def denote(tree, budget=None):
    """exact distribution of the outcome tuple: {tuple: weight} by enumeration with plain dicts"""
    t = tree[0]

    def roll_h(items):
        agg = {}
        for o, c in items:
            agg[int(o)] = agg.get(int(o), 0) + c
        pos = {o: c for o, c in agg.items() if c}
        return pos if pos else {0: 1}

    def prod(ds):
        acc = {(): 1}
        for d in ds:
            if len(acc) * len(d) > DENOTE_LIMIT:
                raise TooBig()
            nxt = {}
            for a, wa in acc.items():
                for b, wb in d.items():
                    nxt[a + b] = nxt.get(a + b, 0) + wa * wb
            acc = nxt
        return acc

    def push(d, f):
        out = {}
        for k, w in d.items():
            k2 = f(k)
            out[k2] = out.get(k2, 0) + w
        return out

    if t == "val":
        return {(int(tree[1]),): 1}
    if t == "valh":
        return {(o,): c for o, c in roll_h(tree[1]).items()}
    if t == "valp":
        ds = [{(o,): c for o, c in roll_h(h).items()} for h in tree[1] if sum(c for _, c in h)]
        return push(prod(ds), lambda k: tuple(sorted(k)))
    if t == "pool":
        return prod([denote(s) for s in tree[1]])
    if t == "rep":
        return prod([denote(tree[2])] * tree[1])
    if t == "bin":
        f = BIN_INT[tree[1]]
        return push(prod([push(denote(tree[2]), lambda k: (sum(k),)), push(denote(tree[3]), lambda k: (sum(k),))]), lambda k: (f(k[0], k[1]),))
    if t == "un":
        f = UN_INT[tree[1]]
        return push(denote(tree[2]), lambda k: (f(sum(k)),))
    if t == "filtsrc":
        w = 1
        for i, s in enumerate(tree[2]):
            if i != tree[1]:
                w *= sum(denote(s).values())
        return {k: c * w for k, c in denote(tree[2][tree[1]]).items()}
    if t == "unc":
        def run(v):
            for code, k, side in tree[1]:
                v = UN_INT[code](v) if side == 2 else (BIN_INT[code](v, k) if side == 0 else BIN_INT[code](k, v))
            return v

        return push(denote(tree[2]), lambda v: (run(sum(v)),))
    if t == "unb":
        f, k, side = BIN_INT[tree[1]], tree[2], tree[3]
        return push(denote(tree[4]), lambda v: (f(sum(v), k) if side == 0 else f(k, sum(v)),))
    if t == "filt":
        p = pred_fn(tree[1], tree[2])
        return push(prod([denote(s) for s in tree[3]]), lambda k: tuple(v for v in k if p(v)))
    if t == "sel":
        def pick(k):
            s = sorted(k)
            idxs = gen.resolve_which(len(s), tree[1])
            return tuple(s[j] for j in idxs)

        return push(prod([denote(s) for s in tree[2]]), pick)
    if t == "subst":
        p = pred_fn(tree[1], tree[2])
        de = denote(tree[3])
        replace, md = tree[4], tree[5]

        def expand(vals, depth):
            """{tuple: weight} of what the outcomes `vals` become with `md - depth` levels left"""
            if depth >= md:
                return {tuple(vals): 1}
            acc = {(): 1}
            for v in vals:
                if p(v):
                    sub = {}
                    for ev, we in de.items():
                        for k, w in expand(list(ev), depth + 1).items():
                            k2 = (() if replace else (v,)) + k
                            sub[k2] = sub.get(k2, 0) + we * w
                else:
                    sub = {(v,): 1}
                acc = prod([acc, sub])
            return acc

        out = {}
        for vals, w in denote(tree[6]).items():
            for k, w2 in expand(list(vals), 0).items():
                out[k] = out.get(k, 0) + w * w2
        return out
    if t == "substmap":
        p, f = pred_fn(tree[1], tree[2]), map_fn(tree[3], tree[4])
        if tree[5] == 0:
            return denote(tree[6])
        return push(denote(tree[6]), lambda k: tuple(f(v) if p(v) else v for v in k))
    raise KeyError(t)


# ---- generation --------------------------------------------------------------------------------


def rand_leaf(rnd):
    r = rnd.random()
    if r < 0.2:
        return ["val", rnd.randint(-1, 4)]
    if r < 0.8:
        k = rnd.randint(1, 3)
        items = [[o, rnd.choice([0, 1, 1, 2])] for o in sorted(rnd.sample(range(-1, 6), k))]
        if not any(c for _, c in items) and rnd.random() < 0.7:
            items[0][1] = 1
        if rnd.random() < 0.2:
            items = [[o, c * 2] for o, c in items]
        return ["valh", items]
    k = rnd.randint(1, 2)
    items = [[o, rnd.choice([1, 1, 2])] for o in sorted(rnd.sample(range(0, 5), k))]
    return ["valp", [items] * rnd.randint(1, 2)]


def rand_tree(rnd, size):
    if size <= 1:
        return rand_leaf(rnd)
    r = rnd.random()
    if r < 0.18:
        n = rnd.randint(1, 2)
        return ["pool", [rand_tree(rnd, (size - 1) // n) for _ in range(n)]]
    if r < 0.32:
        return ["rep", rnd.choice([0, 1, 2, 2, 3]), rand_tree(rnd, size - 2)]
    if r < 0.5:
        op = rnd.choice(list(BIN))
        right = rand_tree(rnd, (size - 1) // 2)
        if rnd.random() < 0.12 and BIN[op][0] not in ("pow", "floordiv", "mod"):
            return ["bin", op, right, right]  # both operands the same expression (sometimes the same object)
        if BIN[op][0] == "pow":
            right = ["val", rnd.randint(0, 3)]  # negative exponents leave the integers
        elif BIN[op][0] in ("floordiv", "mod") and rnd.random() < 0.5:
            right = ["val", rnd.choice([-3, -2, -1, 1, 2, 3])]  # otherwise: kept only if the divisor is never 0 (denote raises)
        return ["bin", op, rand_tree(rnd, (size - 1) // 2), right]
    if r < 0.58:
        if rnd.random() < 0.3:
            steps = []
            for _ in range(rnd.randint(2, 4)):
                if rnd.random() < 0.3:
                    steps.append([rnd.choice([0, 1, 2, 3]), 0, 2])
                else:
                    op = rnd.choice([0, 1, 2, 3, 5, 9, 10, 11, 12, 13])  # + - * lt ge le gt & | ^ : total on the integers
                    steps.append([op, rnd.randint(-2, 4), rnd.randint(0, 1) if BIN[op][0] in BIN_PY else 0])
            return ["unc", steps, rand_tree(rnd, size - 1)]
        if rnd.random() < 0.4:
            op = rnd.choice(list(BIN))
            name = BIN[op][0]
            side = rnd.randint(0, 1) if name in BIN_PY else 0  # the comparison shorthands have no reflected form
            k = rnd.randint(0, 3) if name == "pow" else rnd.choice([-3, -2, -1, 1, 2, 3]) if name in ("floordiv", "mod") and side == 0 else rnd.randint(-2, 4)
            return ["unb", op, k, side, rand_tree(rnd, size - 1)]
        return ["un", rnd.choice(list(UN)), rand_tree(rnd, size - 1)]
    if r < 0.7:
        if rnd.random() < 0.12:
            n = rnd.randint(2, 3)
            return ["filtsrc", rnd.randrange(n), [rand_leaf(rnd) for _ in range(n)]]  # leaves own their outcomes
        n = rnd.randint(1, 2)
        return ["filt", rnd.choice([0, 1, 2, 3]), rnd.randint(0, 3), [rand_tree(rnd, (size - 1) // n) for _ in range(n)]]
    if r < 0.86:
        n = rnd.randint(1, 2)
        srcs = [rand_tree(rnd, (size - 1) // n) for _ in range(n)]
        return ["sel", None, srcs]  # the selection is filled in once the number of outcomes is known
    if rnd.random() < 0.3:
        return ["substmap", rnd.choice([0, 1, 2, 3]), rnd.randint(0, 3), rnd.choice([0, 1, 1, 2, 3]), rnd.randint(0, 4), rnd.choice([0, 1, 1, 2]), rand_tree(rnd, size - 1)]
    # several outcomes substituted side by side, deep enough for the per-chain depth budget to matter
    if rnd.random() < 0.5:
        leaf = rand_leaf(rnd)
        src = rnd.choice([["rep", 2, leaf], ["pool", [leaf, rand_leaf(rnd)]], ["valp", [[[1, 1], [2, 1]]] * 2]])
    else:
        src = rand_tree(rnd, size - 2)
    # the expansion roller is usually a leaf, sometimes a roller with sources of its own (its rolls carry source rolls)
    e = rand_tree(rnd, 1) if rnd.random() < 0.65 else rnd.choice([["bin", 0, rand_leaf(rnd), ["val", rnd.randint(0, 2)]], ["un", 0, rand_leaf(rnd)], ["pool", [rand_leaf(rnd), rand_leaf(rnd)]], ["rep", 2, rand_leaf(rnd)]])
    return ["subst", rnd.choice([0, 1, 2, 3]), rnd.randint(0, 3), e, rnd.random() < 0.5, rnd.choice([0, 1, 2, 2, 3]), src]


def fix_selections(rnd, tree):
    """selection rollers index the pooled outcomes; pick selections that are valid on every path
    (the number of live outcomes can vary between paths, e.g. below filters)"""
    t = tree[0]
    if t in ("val", "valh", "valp"):
        return tree
    if t == "pool":
        return ["pool", [fix_selections(rnd, s) for s in tree[1]]]
    if t == "rep":
        return ["rep", tree[1], fix_selections(rnd, tree[2])]
    if t == "bin":
        return ["bin", tree[1], fix_selections(rnd, tree[2]), fix_selections(rnd, tree[3])]
    if t == "un":
        return ["un", tree[1], fix_selections(rnd, tree[2])]
    if t == "unb":
        return tree[:4] + [fix_selections(rnd, tree[4])]
    if t == "unc":
        return ["unc", tree[1], fix_selections(rnd, tree[2])]
    if t == "filtsrc":
        return tree
    if t == "filt":
        return ["filt", tree[1], tree[2], [fix_selections(rnd, s) for s in tree[3]]]
    if t == "subst":
        return ["subst", tree[1], tree[2], fix_selections(rnd, tree[3]), tree[4], tree[5], fix_selections(rnd, tree[6])]
    if t == "substmap":
        return tree[:6] + [fix_selections(rnd, tree[6])]
    srcs = [fix_selections(rnd, s) for s in tree[2]]
    lens = set()
    for s in srcs:
        pass
    d = denote(["pool", srcs])
    lens = {len(k) for k in d}
    n = min(lens)
    which = gen.rand_which(rnd, n, max_ids=2, allow_bad=False)
    # slices are valid for every length; plain indexes must be valid for the shortest roll
    return ["sel", which, srcs]


def unit_counts(tree):
    """the same tree with every positive count replaced by 1 (total weight = number of choice paths)"""
    t = tree[0]
    if t == "valh":
        return ["valh", [[o, 1 if c else 0] for o, c in tree[1]]]
    if t == "valp":
        return ["valp", [[[o, 1 if c else 0] for o, c in h] for h in tree[1]]]
    return [unit_counts(x) if isinstance(x, list) and x and isinstance(x[0], str) and x[0] in KINDS else
            ([unit_counts(y) if isinstance(y, list) and y and isinstance(y[0], str) and y[0] in KINDS else y for y in x] if isinstance(x, list) else x)
            for x in tree]


KINDS = ("val", "valh", "valp", "pool", "rep", "bin", "un", "unb", "unc", "filt", "filtsrc", "sel", "subst", "substmap")


def has_kind(tree, kind):
    if isinstance(tree, list):
        if tree and tree[0] == kind:
            return True
        return any(has_kind(x, kind) for x in tree)
    return False


def count_paths(tree):
    """number of random choice paths of r.roll()"""
    return sum(denote(unit_counts(tree)).values())
