"""C06 — dependent-term evaluation computes the exact weighted mixture."""
from __future__ import annotations

from fractions import Fraction
from math import gcd

import common as C
import gen
from props import evalcommon as E

RULE = (
    "cases = corpus + seeded programs: 1..3 independent sources of every kind (H incl. zero-count / unreduced / zero-total, P, "
    "P with a selection) x callbacks enumerated as lookup tables returning an outcome, a histogram of any scale (zero-count "
    "entries, different non-unit totals in varied orders) or the empty histogram x every positional/keyword split, through "
    "@expandable, foreach, the deprecated H.foreach / P.foreach, and aggregate_weighted directly; distinct = distinct program; "
    "non-trivial = >= 2 branches with positive weight and a non-empty result"
)
TRUSTED = [
    "pool sources are presented to the model with the (roll, count) entries the implementation's own rolls_with_counts yields (C02 decides those)",
    "callbacks are lookup tables keyed by result ids; parameter binding is checked by object identity of the source inside the callback",
]
ASSUMPTIONS = ["integer outcomes in evaluator programs"]
EXPLANATION = "theorems C06_aggregate_count / C06_aggregate_mixture (+ evaluator refinement C07/C14); reference = exact mixture over the Cartesian product of source results"


def impl(case):
    if case["k"] == "agg":
        from dyce import H
        from dyce.evaluation import aggregate_weighted

        ws = [((H([(o, c) for o, c in b[1]]) if b[0] == "hist" else b[1]), b[2]) for b in case["brs"]]
        r = aggregate_weighted(ws)
        return _reduced(r.items())
    return E.run_impl(case)


def _reduced(items):
    items = [(int(o), c) for o, c in items if c]
    agg = {}
    for o, c in items:
        agg[o] = agg.get(o, 0) + c
    g = 0
    for c in agg.values():
        g = gcd(g, c)
    items = sorted((o, c // g) for o, c in agg.items())
    return ("ok " + " ".join("%d:%d" % oc for oc in items)).strip() + " total=%d" % sum(c for _, c in items)


def model(case):
    if case["k"] == "agg":
        toks = [str(len(case["brs"]))]
        for b in case["brs"]:
            if b[0] == "hist":
                toks += ["1"] + E.hist_tokens(b[1]) + [str(b[2])]
            else:
                toks += ["0", str(b[1]), str(b[2])]
        return " ".join(["AGG"] + toks)
    return E.model_line(case)


def model_post(case, out):
    if case["k"] == "agg":
        items = [tuple(int(x) for x in t.split(":")) for t in out.split()[1:] if not t.startswith("total=")]
        return _reduced(items)
    return E.model_post(case, out)


def oracle(case):
    if case["k"] == "agg":
        mix, weight = {}, 0
        for b in case["brs"]:
            d = E.dist_of_items(b[1]) if b[0] == "hist" else {int(b[1]): Fraction(1)}
            if d is None or not b[2]:
                continue
            weight += b[2]
            for o, p in d.items():
                mix[o] = mix.get(o, 0) + p * b[2]
        return E.fmt_dist({o: p / weight for o, p in mix.items()} if weight else None)
    return E.run_reference(case)


def classify(case, got):
    if case["k"] == "agg":
        return "agg"
    kinds = "+".join(sorted(s["t"] + ("w" if s.get("which") is not None else "") for s in case["sources"]))
    return "%s/%s/kw%d" % (case.get("via", "expandable"), kinds, case["srclists"][0].get("nkw", 0))


def nontrivial(case, got):
    return got.startswith("ok") and got.count(":") >= 2


def describe(case):
    return case


def shrink(case):
    if case["k"] == "agg":
        b = case["brs"]
        for j in range(len(b)):
            if len(b) > 1:
                yield dict(case, brs=b[:j] + b[j + 1 :])
        return
    acts = case["fns"][0]["acts"]
    for j in range(len(acts)):
        if acts[j][0] == "hist" and len(acts[j][1]) > 1:
            for k in range(len(acts[j][1])):
                a2 = list(acts)
                a2[j] = ["hist", acts[j][1][:k] + acts[j][1][k + 1 :]]
                yield dict(case, fns=[dict(case["fns"][0], acts=a2)] + case["fns"][1:])
        if acts[j][0] == "hist":
            a2 = list(acts)
            a2[j] = ["out", 0]
            yield dict(case, fns=[dict(case["fns"][0], acts=a2)] + case["fns"][1:])


def rand_ret(rnd):
    r = rnd.random()
    if r < 0.45:
        return ["out", rnd.randint(-2, 6)]
    if r < 0.55:
        return ["hist", []] if rnd.random() < 0.5 else ["hist", [[rnd.randint(0, 3), 0]]]
    k = rnd.randint(1, 3)
    items = [[o, rnd.choice([0, 1, 1, 2, 3, 5])] for o in rnd.sample(range(-2, 7), k)]
    if rnd.random() < 0.3:
        items = [[o, c * rnd.choice([2, 3])] for o, c in items]
    return ["hist", items]


def generate(rnd, tier, scale):
    n = int((700 if tier == "quick" else 7000) * scale)
    for _ in range(n):
        if rnd.random() < 0.2:
            brs = []
            for _ in range(rnd.randint(0, 5)):
                a = rand_ret(rnd)
                brs.append([a[0], a[1], rnd.choice([0, 1, 1, 2, 3, 7])])
            yield dict(k="agg", brs=brs)
            continue
        via = rnd.choice(["expandable", "foreach", "foreach", "hforeach", "pforeach"])
        ns = rnd.randint(1, 3)
        sources = []
        for _ in range(ns):
            s = E.rand_source(rnd)
            if via == "hforeach":
                s = {"t": "h", "items": gen.rand_h(rnd, 3, "int", allow_zero_total=rnd.random() < 0.06)}
            if via == "pforeach" and s["t"] == "p":
                s["which"] = None
            if via in ("expandable", "foreach") and s["t"] == "p" and s.get("which") is not None:
                s["which_form"] = rnd.choice(["tuple", "tuple", "list", "iter", "gen"])
            if via in ("expandable", "foreach") and s["t"] == "h" and rnd.random() < 0.2:
                s["raw"] = rnd.choice(["map", "hable"])  # sources that are not H / P: _source_to_h_or_p_or_p_with_selection
            sources.append(s)
        nacts = rnd.choice([2, 3, 4, 5, 7])
        acts = [rand_ret(rnd) for _ in range(nacts)]
        if via in ("hforeach", "pforeach") and rnd.random() < 0.35:
            # a dependent term that itself evaluates H.foreach / P.foreach (a plain nested call: the inner result is
            # the inner mixture, whatever the nesting depth); in the model: the same program under the limit -1
            inner = [rand_ret(rnd) for _ in range(rnd.choice([2, 3]))]
            sub = rnd.sample(range(ns), rnd.randint(1, ns))
            for j in rnd.sample(range(nacts), rnd.randint(1, nacts)):
                acts[j] = ["rec1", 1, 1, None, rnd.randint(0, 2)]
            yield dict(
                k="prog",
                via=via,
                sources=sources,
                srclists=[{"srcs": list(range(ns)), "nkw": ns}, {"srcs": sub, "nkw": len(sub)}],
                fns=[{"sentinel": [["i:0", 1]], "shape": 0, "acts": acts}, {"sentinel": [["i:0", 1]], "shape": 1, "acts": inner}],
                calls=[[0, 0, ["i", -1]]],
            )
            continue
        srcs = list(range(ns))
        if E.branch_estimate(dict(sources=sources, srclists=[{"srcs": srcs}])) > 4000:
            continue  # a legitimately slow evaluation (hundreds of thousands of callback calls) is not a finding
        prime = {"prime": True} if rnd.random() < 0.15 and not any(s.get("raw") or s.get("which_form") in ("iter", "gen") for s in sources) else {}
        if rnd.random() < 0.2 and not any(s.get("which_form") in ("iter", "gen") for s in sources):
            j = rnd.randrange(ns)
            if E.branch_estimate(dict(sources=sources, srclists=[{"srcs": srcs + [j]}])) <= 4000:
                srcs.append(j)  # the same object passed for two parameters: two independent sources
        yield dict(
            k="prog",
            via=via,
            sources=sources,
            srclists=[{"srcs": srcs, "nkw": rnd.randint(0, len(srcs))}],
            **prime,
            fns=[{"sentinel": [["i:0", 1]], "shape": 0, "acts": acts}],
            calls=[[0, 0, None]],
        )
