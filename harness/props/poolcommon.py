"""Shared pieces of the pool checks (C02, C03, C09, C13): encoding a pool for the driver,
brute-force oracle, shrinking."""
from __future__ import annotations

import itertools
from collections import Counter

import common as C
import gen


def build_pool(case):
    from dyce import H, P

    if case.get("mixed"):
        # the initializer form dyce "technically supports": bare outcomes mixed with (outcome, count) pairs.
        # list.sort() raises TypeError on it and H falls back to natural_key, so the histogram's internal
        # order need not be ascending
        return P(*[H([C.dec_out(o) if c == 1 else (C.dec_out(o), c) for o, c in h]) for h in case["dice"]])
    return P(*[C.dec_h(h) for h in case["dice"]])


def ascending(p):
    """every die lists its outcomes in ascending order (the hypothesis DiceOK of the pool theorems)"""
    return all(list(h.outcomes()) == sorted(h.outcomes()) for h in p)


def pool_rank_table(p):
    return C.ranks([o for h in p for o in h.outcomes()])


def pool_tokens(p, enc):
    toks = [str(len(p))]
    for h in p:
        toks.append(str(len(h)))
        for o, c in h.items():
            toks += [str(enc(o)), str(c)]
    return toks


def fmt_rolls(counter):
    """Counter{tuple(int): count} -> the driver's canonical text"""
    items = sorted((r, c) for r, c in counter.items() if c)
    return ("ok " + " ".join("(" + ",".join(str(x) for x in r) + "):" + str(c) for r, c in items)).strip() if items else "ok"


def brute_rolls(p, which, enc, limit=60000):
    """The sentence of C02: Cartesian product of the dice, sort ascending, pick positions."""
    n = len(p)
    size = 1
    for h in p:
        size *= max(1, len(h))
    if size > limit:
        return None
    if which:
        try:
            idxs = gen.resolve_which(n, which)
        except IndexError:
            return "err IndexError"
        if not idxs:
            return "ok"
    else:
        idxs = list(range(n))
    if n == 0:
        return "ok"
    c = Counter()
    for combo in itertools.product(*[list(h.items()) for h in p]):
        cnt = 1
        for _, k in combo:
            cnt *= k
        if not cnt:
            continue
        s = sorted(o for o, _ in combo)
        c[tuple(enc(s[j]) for j in idxs)] += cnt
    return fmt_rolls(c)


def shrink_pool_case(case):
    dice, which = case["dice"], case["which"]
    for i in range(len(dice)):
        yield dict(case, dice=dice[:i] + dice[i + 1 :])
    for i in range(len(which)):
        yield dict(case, which=which[:i] + which[i + 1 :])
    for i, h in enumerate(dice):
        for j in range(len(h)):
            if len(h) > 1:
                yield dict(case, dice=dice[:i] + [h[:j] + h[j + 1 :]] + dice[i + 1 :])
        for j, (o, c) in enumerate(h):
            if c > 1:
                yield dict(case, dice=dice[:i] + [h[:j] + [[o, 1]] + h[j + 1 :]] + dice[i + 1 :])
    for i, w in enumerate(which):
        if w[0] == "s":
            for k in (1, 2, 3):
                if w[k] is not None:
                    w2 = list(w)
                    w2[k] = None
                    yield dict(case, which=which[:i] + [w2] + which[i + 1 :])


def describe(case):
    return ("mixed-initializer " if case.get("mixed") else "") + "P(%s)%s" % (
        ", ".join("H({%s})" % ", ".join("%s: %d" % (o.split(":", 1)[1], c) for o, c in h) for h in case["dice"]),
        "[" + ", ".join(str(w[1]) if w[0] == "i" else "slice(%s,%s,%s)" % tuple(w[1:4]) for w in case["which"]) + "]",
    )


def strategy(p, which):
    """which enumeration strategy the library will pick (for the evidence histogram)"""
    n = len(p)
    if n == 0:
        return "empty-pool"
    try:
        idxs = gen.resolve_which(n, which) if which else list(range(n))
    except IndexError:
        return "index-error"
    if which and not idxs:
        return "empty-selection"
    groups = len([1 for _ in itertools.groupby(p, key=lambda h: tuple(h.items()))])
    kind = "homog" if groups == 1 else "hetero%d" % min(groups, 3)
    lo, hi = min(idxs), max(idxs) + 1
    if hi - lo == n:
        cnt = Counter(idxs)
        sel = "all-x%d" % cnt[0] if len(set(cnt.values())) == 1 and len(cnt) == n else "span-uneven"
    elif lo > n - hi:
        sel = "high-%d" % (n - lo)
    else:
        sel = "low-%d" % hi
    return kind + "/" + sel
