"""C09 — closed-form counting shortcuts agree with enumeration."""
from __future__ import annotations

import itertools
from collections import Counter
from math import comb

import common as C
import gen
from props import poolcommon as PC

RULE = (
    "cases = corpus + seeded: order_stat_for_n_at_pos(n, pos) for pos in [-n, n) incl. interleaved (n, pos) histories on one "
    "object and the sum over positions; exactly_k_times_in_n for present / absent / zero-count faces; appearances_in_rolls over "
    "pools mixing identical, proportional and disjoint dice; distinct = distinct case; non-trivial = positive total and n >= 2"
)
TRUSTED = [
    "outcomes reach the model rank-encoded (order statistics depend on the order only)",
    "math.comb and integer powers are modelled (comb by Pascal recursion, proved equal to Nat.choose)",
]
ASSUMPTIONS = ["outcomes are totally ordered numbers"]
EXPLANATION = "theorems C09_order_stat_count/_hist/_eq_pool_h, C09_exactly_k/_eq_matmul, C09_sum_positions; appearances_in_rolls by model + correspondence + brute-force oracle"


def _h(case):
    h = C.dec_h(case["h"])
    table = C.ranks(list(h.outcomes()) + [C.dec_out(o) for o in case.get("extra", [])])
    return h, table


def _fmt(items, total, table):
    agg = Counter()
    for o, c in items:
        if c:
            agg[C.rank_of(table, o)] += c
    return ("ok " + " ".join("%d:%d" % kv for kv in sorted(agg.items()))).strip() + " total=%d" % total


def _htoks(h, table):
    toks = [str(len(h))]
    for o, c in h.items():
        toks += [str(C.rank_of(table, o)), str(c)]
    return toks


def impl(case):
    k = case["k"]
    if k == "ostat":
        h, table = _h(case)
        outs = []
        for n, pos in case["queries"]:  # a history of calls on ONE object
            r = h.order_stat_for_n_at_pos(n, pos)
            outs.append(_fmt(r.items(), r.total, table))
        return " || ".join(outs)
    if k == "ostat_sum":
        h, table = _h(case)
        n = case["n"]
        acc = Counter()
        for pos in range(n):
            for o, c in h.order_stat_for_n_at_pos(n, pos).items():
                acc[o] += c
        return _fmt(acc.items(), sum(acc.values()), table)
    if k == "exk":
        h, table = _h(case)
        return "ok %d" % h.exactly_k_times_in_n(C.dec_out(case["o"]), case["n"], case["kk"])
    if k == "appear":
        p = PC.build_pool(case)
        r = p.appearances_in_rolls(C.dec_out(case["o"]))
        return ("ok " + " ".join("%d:%d" % (o, c) for o, c in sorted(r.items()) if c)).strip() + " total=%d" % r.total
    raise KeyError(k)


def model(case):
    k = case["k"]
    if k == "ostat":
        h, table = _h(case)
        return [" ".join(["OSTAT"] + _htoks(h, table) + [str(n), str(pos)]) for n, pos in case["queries"]]
    if k == "ostat_sum":
        h, table = _h(case)
        return [" ".join(["OSTAT"] + _htoks(h, table) + [str(case["n"]), str(pos)]) for pos in range(case["n"])]
    if k == "exk" and case.get("big"):
        return None
    if k == "exk":
        h, _ = _h(case)
        o = C.dec_out(case["o"])
        table = C.ranks(list(h.outcomes()) + [o])
        return " ".join(["EXK"] + _htoks(h, table) + [str(C.rank_of(table, o)), str(case["n"]), str(case["kk"])])
    if k == "appear":
        p = PC.build_pool(case)
        o = C.dec_out(case["o"])
        table = C.ranks([x for h in p for x in h.outcomes()] + [o])
        return " ".join(["APPEAR"] + PC.pool_tokens(p, lambda x: C.rank_of(table, x)) + [str(C.rank_of(table, o))])


def model_post(case, out):
    if case["k"] == "ostat_sum":
        acc = Counter()
        for part in out.split(" || "):
            for t in part.split()[1:]:
                if t.startswith("total="):
                    continue
                o, c = t.split(":")
                acc[int(o)] += int(c)
        return ("ok " + " ".join("%d:%d" % kv for kv in sorted(acc.items()))).strip() + " total=%d" % sum(acc.values())
    return " || ".join(" ".join(p.split()) for p in out.split(" || "))


def _brute_ostat(h, table, n, pos):
    items = list(h.items())
    if len(items) ** n > 40000:
        return None
    acc = Counter()
    for combo in itertools.product(items, repeat=n):
        c = 1
        for _, k in combo:
            c *= k
        s = sorted(o for o, _ in combo)
        acc[s[pos]] += c
    return _fmt(acc.items(), h.total**n, table)


def oracle(case):
    k = case["k"]
    if k == "ostat":
        h, table = _h(case)
        outs = []
        for n, pos in case["queries"]:
            b = _brute_ostat(h, table, n, pos)
            if b is None:
                return None
            outs.append(b)
        return " || ".join(outs)
    if k == "ostat_sum":
        h, table = _h(case)
        n = case["n"]
        T = h.total
        return _fmt([(o, n * c * T ** (n - 1)) for o, c in h.items()], n * T**n, table)
    if k == "exk":
        h, _ = _h(case)
        o, n, kk = C.dec_out(case["o"]), case["n"], case["kk"]
        items = list(h.items())
        if len(items) ** n > 40000:
            c = sum(cc for x, cc in items if x == o)
            return "ok %d" % (comb(n, kk) * c**kk * (h.total - c) ** (n - kk))
        tot = 0
        for combo in itertools.product(items, repeat=n):
            if sum(1 for x, _ in combo if x == o) == kk:
                c = 1
                for _, w in combo:
                    c *= w
                tot += c
        return "ok %d" % tot
    if k == "appear":
        p = PC.build_pool(case)
        o = C.dec_out(case["o"])
        size = 1
        for h in p:
            size *= len(h)
        if size > 40000:
            return None
        if len(p) == 0:
            return "ok total=0"
        acc = Counter()
        for combo in itertools.product(*[list(h.items()) for h in p]):
            c = 1
            for _, w in combo:
                c *= w
            acc[sum(1 for x, _ in combo if x == o)] += c
        return ("ok " + " ".join("%d:%d" % kv for kv in sorted(acc.items()) if kv[1])).strip() + " total=%d" % p.total


def classify(case, got):
    return case["k"]


def nontrivial(case, got):
    return got.startswith("ok") and "total=0" not in got


def describe(case):
    return case


def shrink(case):
    if "h" in case:
        h = case["h"]
        for j in range(len(h)):
            if len(h) > 1:
                yield dict(case, h=h[:j] + h[j + 1 :])
        for j, (o, c) in enumerate(h):
            if c > 1:
                yield dict(case, h=h[:j] + [[o, 1]] + h[j + 1 :])
    if case["k"] == "ostat" and len(case["queries"]) > 1:
        q = case["queries"]
        for j in range(len(q)):
            yield dict(case, queries=q[:j] + q[j + 1 :])
    if case["k"] == "appear":
        d = case["dice"]
        for j in range(len(d)):
            yield dict(case, dice=d[:j] + d[j + 1 :])


def generate(rnd, tier, scale):
    for _ in range(int((20 if tier == "quick" else 200) * scale)):
        # pools whose totals are far beyond 2**53 (the proved model is the judge): every count is still exact
        r = rnd.random()
        if r < 0.6:
            faces = rnd.choice([6, 6, 20, 10])
            h = [["i:%d" % (i + 1), 1] for i in range(faces)]
            dice = [h] * {6: rnd.randint(21, 23), 10: rnd.randint(16, 17), 20: 13}[faces]  # totals just beyond 2**53
        else:
            h = [["i:%d" % (i + 1), rnd.choice([10**6 + 1, 999983, 10**6 + 3, 7])] for i in range(rnd.randint(2, 4))]
            dice = [h] * rnd.randint(3, 5)
        yield dict(k="appear", dice=dice, which=[], o=rnd.choice([o for o, _ in h]))
    for _ in range(int((20 if tier == "quick" else 200) * scale)):
        # binomial coefficients beyond 2**53 (judged by the closed form the theorem C09_exactly_k proves; the model is not run)
        h = [["i:1", rnd.choice([1, 1, 2])], ["i:2", rnd.choice([1, 1, 3])]]
        n = rnd.randint(56, 80)
        o = rnd.choice(["i:1", "i:2"])
        yield dict(k="exk", h=h, o=o, n=n, kk=rnd.randint(n // 2 - 6, n // 2 + 6), extra=[o], big=True)
    n_cases = int((900 if tier == "quick" else 8000) * scale)
    for _ in range(n_cases):
        r = rnd.random()
        kind = rnd.choice(["int", "int", "neg", "frac", "float", "bool"])
        h = rnd.choice(gen.catalogue()) if rnd.random() < 0.25 else gen.rand_h(rnd, 5, kind, counts=(0, 1, 1, 2, 3, 4))
        if r < 0.4:
            qs = []
            for _ in range(rnd.choice([1, 1, 2, 3, 5])):
                n = rnd.choice([1, 2, 3, 4, 5, 8, 12, 20]) if rnd.random() < 0.3 else rnd.randint(1, 4)
                qs.append([n, rnd.randint(-n, n - 1)])
            yield dict(k="ostat", h=h, queries=qs)
        elif r < 0.5:
            yield dict(k="ostat_sum", h=h, n=rnd.randint(1, 6))
        elif r < 0.7:
            n = rnd.randint(0, 7)
            outs = [o for o, _ in h] or ["i:1"]
            o = rnd.choice(outs) if rnd.random() < 0.75 else rnd.choice(["i:99", "i:-7", "q:1/7"])
            yield dict(k="exk", h=h, o=o, n=n, kk=rnd.randint(0, n), extra=[o])
        else:
            dice = gen.rand_pool(rnd, max_dice=5, max_faces=4, kind=kind)
            outs = [o for d in dice for o, _ in d] or ["i:1"]
            o = rnd.choice(outs) if rnd.random() < 0.75 else rnd.choice(["i:99", "i:-7"])
            yield dict(k="appear", dice=dice, which=[], o=o)
