"""C01 — histogram arithmetic is the exact convolution of independent outcomes."""
from __future__ import annotations

import itertools
import json
import operator
from collections import Counter
from fractions import Fraction
from math import lcm

import common as C
import gen

RULE = (
    "cases = corpus + seeded (operator form x operands): every operator H/P expose (+ - * / // % ** & | ^, unary - + abs ~, "
    "lt le eq ne gt ge, is_even/is_odd, within, vs) in direct and reflected form over histograms from the catalogue and random "
    "ones (zero counts, unreduced, negative, Fraction, bool, float, empty), scalars and pools; the operator table is computed by "
    "Python's own operator on every operand pair; distinct = distinct case; non-trivial = both operands non-empty and no exception"
)
TRUSTED = [
    "Python's operator semantics enter as a table computed by CPython on every operand pair (not re-modelled); results are rank-encoded",
    "a pool operand is flattened by the model's sumH on integer-scaled outcomes; the flattened outcome list is cross-checked",
]
ASSUMPTIONS = ["outcomes are real numbers (no sympy symbols, no NaN, no complex results)"]
EXPLANATION = "theorems C01_convolution/_total/_relabel/_scalar_*/_pool_operand/_zero_pad_*/_scale_* hold for every op; the harness ships Python's op as a table"
ORACLE_MAY_RAISE = True

BIN = {
    "add": operator.add,
    "sub": operator.sub,
    "mul": operator.mul,
    "truediv": operator.truediv,
    "floordiv": operator.floordiv,
    "mod": operator.mod,
    "pow": operator.pow,
    "and": operator.and_,
    "or": operator.or_,
    "xor": operator.xor,
}
CMP = {"lt": operator.lt, "le": operator.le, "eq": operator.eq, "ne": operator.ne, "gt": operator.gt, "ge": operator.ge}
UN = {"neg": operator.neg, "pos": operator.pos, "abs": operator.abs, "invert": operator.invert}


def _is_even(x):
    i = int(x)
    if i != x:
        raise TypeError("not integral")
    return i % 2 == 0


def elem_fn(case):
    op = case["op"]
    if op in BIN:
        return BIN[op]
    if op in CMP:
        f = CMP[op]
        return lambda x, y: bool(f(x, y))
    if op in ("within", "vs"):
        lo = C.dec_out(case["lo"]) if op == "within" else 0
        hi = C.dec_out(case["hi"]) if op == "within" else 0
        if lo > hi:
            raise ValueError("inverted bounds")
        return lambda x, y: int(bool(x - y > hi)) - int(bool(x - y < lo))
    raise KeyError(op)


def un_fn(case):
    op = case["op"]
    if op in UN:
        return UN[op]
    if op == "is_even":
        return _is_even
    if op == "is_odd":
        return lambda x: not _is_even(x)
    raise KeyError(op)


# ---- operands ------------------------------------------------------------------------------


def build(opd):
    from dyce import P

    if opd is None:
        return None
    if opd["t"] == "h":
        if opd.get("subclass"):
            return _sub_h()(C.dec_h(opd["items"]))  # an instance of a user subclass of H: a histogram like any other
        return C.dec_h(opd["items"])
    if opd["t"] == "p":
        return P(*[C.dec_h(h) for h in opd["dice"]])
    return C.dec_out(opd["v"])


def _sub_h():
    from dyce import H

    global _SUBH
    try:
        return _SUBH
    except NameError:
        class MyH(H):
            """a user subclass"""

        _SUBH = MyH
        return _SUBH


def flatten_spec(opd):
    """operand -> list of (outcome, count) in ascending outcome order, from first principles"""
    if opd["t"] == "h":
        agg = {}
        for o, c in C.dec_items(opd["items"]):
            agg[o] = agg.get(o, 0) + c
        return sorted(agg.items())
    if opd["t"] == "p":
        dice = [C.dec_items(h) for h in opd["dice"]]
        dice = [d for d in dice if sum(c for _, c in d)]
        if not dice:
            return []
        agg = {}
        for combo in itertools.product(*dice):
            s = sum(o for o, _ in combo)
            c = 1
            for _, k in combo:
                c *= k
            agg[s] = agg.get(s, 0) + c
        return sorted(agg.items())
    return [(C.dec_out(opd["v"]), 1)]


def is_scalar(opd):
    return opd is not None and opd["t"] == "s"


def _call(case, shared_left=None):
    L, R = (shared_left if shared_left is not None else build(case["l"])), build(case.get("r"))
    if case.get("same_object") and case.get("r") == case["l"]:
        R = L  # ONE object as both operands: two independent copies of the same distribution all the same
    op = case["op"]
    if op in BIN:
        return BIN[op](L, R)
    if op in CMP:
        return getattr(L, op)(R)
    if op == "within":
        lo, hi = C.dec_out(case["lo"]), C.dec_out(case["hi"])
        return L.within(lo, hi) if R is None else L.within(lo, hi, R)
    if op == "vs":
        # P does not expose vs(); its documented equivalent is within(0, 0, other)
        return L.vs(R) if hasattr(L, "vs") else L.within(0, 0, R)
    if op in UN:
        return UN[op](L)
    return getattr(L, op)()


def _fmt(items, total, table):
    agg = Counter()
    for o, c in items:
        if c:
            agg[C.rank_of(table, o)] += c
    return ("ok " + " ".join("%d:%d" % kv for kv in sorted(agg.items()))).strip() + " total=%d" % total


def _tables(case):
    """flattened operands, result table (Python's op on every pair), rank table"""
    a = flatten_spec(case["l"])
    if case["op"] in UN or case["op"] in ("is_even", "is_odd"):
        f = un_fn(case)
        res = [f(x) for x, _ in a]
        b = None
    else:
        r = case.get("r") or {"t": "s", "v": "i:0"}
        b = flatten_spec(r)
        f = elem_fn(case)
        res = [f(x, y) for x, _ in a for y, _ in b]
    for v in res:
        if isinstance(v, complex):
            raise TypeError("complex")
    return a, b, res, C.ranks(res)


def _subcases(case):
    return [dict(op=case["op"], l=case["l"], r=r, lo=case.get("lo"), hi=case.get("hi")) for r in case["rs"]]


def impl(case):
    from dyce import H

    if "rs" in case:
        # ONE left object, several right operands in a row (results must not depend on earlier calls)
        L = build(case["l"])
        outs = []
        for sub in _subcases(case):
            try:
                outs.append(_impl_one(sub, L))
            except Exception as e:  # noqa: BLE001
                outs.append("exc " + C.exc_name(e))
        return " || ".join(outs)
    return _impl_one(case, None)


def _impl_one(case, shared_left):
    from dyce import H

    h = _call(case, shared_left)
    if not isinstance(h, H):
        return "not-H " + type(h).__name__
    _, _, _, table = _tables(case)
    for o in h.outcomes():
        if not any(o == t for t in table):
            return "unexpected-outcome " + repr(o)
    outs = list(h.outcomes())
    if any(not (outs[i] < outs[i + 1]) for i in range(len(outs) - 1)):
        return "outcomes-not-ascending"
    return _fmt(h.items(), h.total, table)


def oracle(case):
    if "rs" in case:
        outs = []
        for sub in _subcases(case):
            try:
                outs.append(_oracle_one(sub))
            except Exception as e:  # noqa: BLE001
                outs.append("exc " + C.exc_name(e))
        return " || ".join(outs)
    return _oracle_one(case)


def _oracle_one(case):
    """the sentence of the property, by brute force"""
    a, b, res, table = _tables(case)
    agg = Counter()
    if b is None:
        for (x, cx), z in zip(a, res):
            agg[z] += cx
        tot = sum(c for _, c in a)
    else:
        k = 0
        for x, cx in a:
            for y, cy in b:
                agg[res[k]] += cx * cy
                k += 1
        tot = sum(c for _, c in a) * sum(c for _, c in b)
    return _fmt(agg.items(), tot, table)


def _opd_tokens(opd, flat):
    if opd["t"] == "p":
        dice = [C.dec_items(h) for h in opd["dice"]]
        # what P.__init__ keeps: non-zero-total dice (order is irrelevant for the sum)
        from dyce import P

        p = P(*[C.dec_h(h) for h in opd["dice"]])
        den = 1
        for h in p:
            for o in h.outcomes():
                den = lcm(den, Fraction(o).denominator)
        toks = ["1", str(len(p))]
        for h in p:
            toks.append(str(len(h)))
            for o, c in h.items():
                toks += [str(int(Fraction(o) * den)), str(c)]
        toks.append(str(len(flat)))
        toks += [str(int(Fraction(o) * den)) for o, _ in flat]
        return toks
    return ["0", str(len(flat))] + [str(c) for _, c in flat]


def model(case):
    if "rs" in case:
        return [_model_one(sub) for sub in _subcases(case)]
    return _model_one(case)


def _model_one(case):
    try:
        a, b, res, table = _tables(case)
    except Exception:
        return None  # the operator itself raises on some pair: judged by the oracle only
    # the model takes histogram operands as H.__init__ leaves them (ascending, merged)
    rk = [str(C.rank_of(table, v)) for v in res]
    l = case["l"]
    if l["t"] == "s":
        # scalar on the left: rmap = relabelling of the right operand
        r = case["r"]
        return " ".join(["UMAP"] + _opd_tokens(r, b) + rk)
    if b is None:
        return " ".join(["UMAP"] + _opd_tokens(l, a) + rk)
    r = case.get("r") or {"t": "s", "v": "i:0"}
    if r["t"] == "s":
        return " ".join(["UMAP"] + _opd_tokens(l, a) + rk)
    return " ".join(["MAP"] + _opd_tokens(l, a) + _opd_tokens(r, b) + rk)


def model_post(case, out):
    return " || ".join(" ".join(p.split()) for p in out.split(" || "))


def classify(case, got):
    if "rs" in case:
        return "%s/sequence-on-one-object" % case["op"]
    l, r = case["l"], case.get("r")
    return "%s/%s%s" % (case["op"], l["t"], r["t"] if r else "")


def nontrivial(case, got):
    if not got.startswith("ok"):
        return False
    return got != "ok total=0"


def describe(case):
    def d(o):
        if o is None:
            return "-"
        if o["t"] == "h":
            return "H({%s})" % ", ".join("%s: %d" % (x.split(":", 1)[1], c) for x, c in o["items"])
        if o["t"] == "p":
            return "P(%s)" % ", ".join(d({"t": "h", "items": h}) for h in o["dice"])
        return o["v"].split(":", 1)[1]

    extra = " lo=%s hi=%s" % (case["lo"], case["hi"]) if case["op"] == "within" else ""
    return "%s(%s, %s)%s" % (case["op"], d(case["l"]), d(case.get("r")), extra)


def shrink(case):
    for side in ("l", "r"):
        o = case.get(side)
        if not o:
            continue
        if o["t"] == "h":
            it = o["items"]
            for j in range(len(it)):
                if len(it) > 1:
                    yield dict(case, **{side: {"t": "h", "items": it[:j] + it[j + 1 :]}})
            for j, (x, c) in enumerate(it):
                if c > 1:
                    yield dict(case, **{side: {"t": "h", "items": it[:j] + [[x, 1]] + it[j + 1 :]}})
        if o["t"] == "p":
            ds = o["dice"]
            for j in range(len(ds)):
                if len(ds) > 1:
                    yield dict(case, **{side: {"t": "p", "dice": ds[:j] + ds[j + 1 :]}})
            for j, h in enumerate(ds):
                for k in range(len(h)):
                    if len(h) > 1:
                        yield dict(case, **{side: {"t": "p", "dice": ds[:j] + [h[:k] + h[k + 1 :]] + ds[j + 1 :]}})


# ---- generation ----------------------------------------------------------------------------


def _rand_scalar(rnd, kind):
    if kind == "frac":
        return C.enc_out(rnd.choice([Fraction(1, 2), Fraction(-3, 2), Fraction(2), Fraction(0), Fraction(5, 3)]))
    if kind == "float":
        return C.enc_out(float(rnd.choice([-2, 0, 1, 2, 3])))
    if kind == "bool":
        return C.enc_out(rnd.choice([True, False]))
    return C.enc_out(rnd.choice([-3, -1, 0, 1, 2, 3, 5]))


def _rand_opd(rnd, kind, allow_scalar=True, allow_pool=True):
    r = rnd.random()
    if allow_scalar and r < 0.25:
        return {"t": "s", "v": _rand_scalar(rnd, kind)}
    if allow_pool and r < 0.45:
        dice = [gen.rand_h(rnd, 3, kind, allow_zero_total=rnd.random() < 0.1) for _ in range(rnd.randint(0, 3))]
        if rnd.random() < 0.3 and dice:
            dice.append(gen.scale_h(dice[0], 2))
        return {"t": "p", "dice": dice}
    if rnd.random() < 0.3:
        cat = gen.catalogue()
        return {"t": "h", "items": rnd.choice(cat)}
    return {"t": "h", "items": gen.rand_h(rnd, 4, kind, allow_zero_total=rnd.random() < 0.1, counts=(0, 1, 1, 2, 3, 4, 6))}


def generate(rnd, tier, scale):
    n = int((2000 if tier == "quick" else 20000) * scale)
    ops = list(BIN) + list(CMP) + ["within", "vs"] + list(UN) + ["is_even", "is_odd"]
    for _ in range(n // 8):
        # the same left object combined with a family of equal-but-different right operands
        op = rnd.choice(["add", "sub", "mul", "lt", "eq", "ge", "vs", "floordiv"])
        base = gen.rand_h(rnd, 3, "int", counts=(1, 1, 2, 3))
        if op == "floordiv":
            base = [[o, c] for o, c in base if C.dec_out(o) != 0] or [["i:1", 1]]
        fam = [base, gen.scale_h(base, 2), base + [[C.enc_out(rnd.choice([41, 57])), 0]], gen.scale_h(base, 3)]
        rnd.shuffle(fam)
        rs = [{"t": "h", "items": f} if rnd.random() < 0.8 else {"t": "p", "dice": [f]} for f in fam[: rnd.randint(2, 4)]]
        yield dict(op=op, l=_rand_opd(rnd, "int", allow_scalar=False), rs=rs)
    for _ in range(max(10, n // 60)):
        # relabelling by a scalar can MERGE outcomes (a float scalar absorbs neighbouring huge ints): counts add
        base = 2 ** rnd.choice([53, 54, 60])
        hist = {"t": "h", "items": [["i:%d" % (base + d), rnd.choice([1, 2, 3])] for d in sorted(rnd.sample(range(0, 5), rnd.randint(2, 4)))]}
        sc = {"t": "s", "v": rnd.choice(["f:1.0", "f:0.5", "f:-1.0", "f:2.0"])}
        l, r = (sc, hist) if rnd.random() < 0.6 else (hist, sc)
        yield dict(op=rnd.choice(["add", "sub", "mul"]), l=l, r=r)
    for _ in range(n):
        op = rnd.choice(ops)
        kind = rnd.choice(["int", "int", "neg", "frac", "bool", "float"])
        if op in ("and", "or", "xor", "invert"):
            kind = rnd.choice(["int", "neg", "bool"])
        if op == "pow":
            kind = rnd.choice(["int", "int", "neg"])
        if op in UN or op in ("is_even", "is_odd"):
            if op != "invert" and rnd.random() < 0.15:
                kind = "dec"  # decimal.Decimal outcomes (another exact numeric type)
            yield dict(op=op, l=_rand_opd(rnd, kind, allow_scalar=False), r=None)
            continue
        l = _rand_opd(rnd, kind, allow_scalar=op in BIN)
        r = _rand_opd(rnd, kind)
        if rnd.random() < 0.12 and op in BIN and op not in ("and", "or", "xor"):
            # "neutral-looking" scalars of another numeric type (h // 1, h * 1, h ** 1, h - 0, h + 0.0, h * True ...):
            # the result is still the relabelled histogram (non-integral outcomes floor, types follow the operator)
            r = {"t": "s", "v": C.enc_out(rnd.choice([0, 1, 1, -1, True] if op != "pow" else [1, 1, True]))}
            if op in ("floordiv", "mod", "truediv") and C.dec_out(r["v"]) == 0:
                r = {"t": "s", "v": "i:1"}
        if is_scalar(l) and is_scalar(r):
            l = _rand_opd(rnd, kind, allow_scalar=False)
        if op == "pow":
            # keep results real and small: non-negative integer exponents
            if is_scalar(l):
                l = _rand_opd(rnd, kind, allow_scalar=False)
            r = {"t": "s", "v": C.enc_out(rnd.choice([0, 1, 2, 3]))} if rnd.random() < 0.6 else {"t": "h", "items": [["i:%d" % e, rnd.choice([1, 2])] for e in rnd.sample([0, 1, 2, 3], 2)]}
        if rnd.random() < 0.08:
            for side in (l, r):
                if side is not None and side["t"] == "h" and rnd.random() < 0.7:
                    side["subclass"] = True
        case = dict(op=op, l=l, r=r)
        if rnd.random() < 0.08 and not is_scalar(l) and op not in ("pow", "floordiv", "mod", "truediv"):
            case = dict(op=op, l=l, r=json.loads(json.dumps(l)), same_object=True)
        if op == "within":
            lo, hi = sorted([rnd.randint(-3, 3), rnd.randint(-3, 3)])
            if rnd.random() < 0.05:
                lo, hi = hi + 1, lo  # inverted bounds must raise
            case.update(lo=C.enc_out(lo), hi=C.enc_out(hi))
            if rnd.random() < 0.2:
                case["r"] = None
        yield case
    if tier == "thorough":
        cat = gen.catalogue()
        for a in cat:
            for b in cat:
                for op in list(BIN) + list(CMP) + ["vs"]:
                    if op in ("and", "or", "xor", "pow", "truediv"):
                        continue
                    yield dict(op=op, l={"t": "h", "items": a}, r={"t": "h", "items": b})
