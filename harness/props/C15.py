"""C15 — histograms, pools and rollers are immutable values."""
from __future__ import annotations

import operator
import random
import warnings
from fractions import Fraction

import common as C
import gen
from props import rollercommon as RC

RULE = (
    "cases = corpus + seeded histories of 4..14 public operations (arithmetic, comparisons, lowest_terms, ==/hash, accumulate, "
    "zero_fill, remove, draw(x), draw(), explode, substitute, order statistics, roll, statistics, format, H(h), H(p), P(p, h), "
    "n@p, p[i:j], p.h(...), rolls_with_counts, appearances, foreach, r.annotate(...) with truthy and falsy annotations, rollers / histograms / pools built from a caller's list or dict that is mutated afterwards, r.roll(), "
    "roller arithmetic / selection, item assignment / deletion, rejected calls) on ONE shared population of H / P / R objects; "
    "after EVERY step a full snapshot (outcomes with types and order, counts, total, dice and their order, roller repr incl. "
    "sources and annotation) of EVERY pre-existing object is compared with its snapshot at creation; distinct = distinct history; "
    "non-trivial = at least 3 steps built objects from existing objects"
)
TRUSTED = [
    "the model is the WRITE DISCIPLINE (write-once mapping cells, allocation only); the contents of new objects are supplied to it by the run itself",
    "snapshots use public accessors only (items(), total, iteration, repr)",
]
ASSUMPTIONS = ["integer / float / Fraction outcomes; single-threaded use"]
EXPLANATION = "theorems C15_frame_hist/_pool/_roller/_history, C15_alias_content, C15_wf_step about the modelled write discipline; the correspondence checks that /repo follows it"


def snap(o):
    from dyce import H, P

    if isinstance(o, H):
        return ("H", tuple((type(k).__name__, repr(k), c) for k, c in o.items()), o.total, len(o))
    if isinstance(o, P):
        return ("P", tuple(snap(h) for h in o), o.total, len(o))
    return ("R", repr(o), repr(o.annotation), tuple(snap(s) for s in o.sources))


class _Idx:
    """an index-like object (has __index__) that is not an int"""

    def __init__(self, i):
        self.i = i

    def __index__(self):
        return self.i

    def __repr__(self):
        return "_Idx(%d)" % self.i


def _failing_substitution(src, max_depth):
    """a substitution roller whose expansion operator fails now and then, part-way into a nested expansion"""
    from dyce.r import SubstitutionRoller

    n = [0]

    def boom(o):
        n[0] += 1
        if n[0] % 3 == 0:
            raise ValueError("expansion failed")
        return src.roll()

    return SubstitutionRoller(boom, src, max_depth=max_depth)


class World:
    def __init__(self, case):
        from dyce import H, P
        from dyce.r import R

        self.H, self.P, self.R = H, P, R
        self.objs = []  # (kind, object, snapshot at creation)
        self.model_ops = []
        self.log = []
        self.violations = []
        self.containers = []
        for d in case["init"]:
            if d[0] == "h":
                self.add(C.dec_h(d[1]))
            elif d[0] == "p":
                self.add(P(*[self.hists()[i % max(1, len(self.hists()))] for i in d[1]] if self.hists() else ()))
            else:
                self.add(R.from_value(self.hists()[d[1] % len(self.hists())], annotation=d[2]))
                if d[1] % 2 and self.hists():
                    self.add(R.from_value(P(self.hists()[d[1] % len(self.hists())])))  # a roller over a one-die pool
                if d[1] % 3 == 0:
                    self.add(_failing_substitution(self.rollers()[0], 3 + d[1] % 3))
                if d[1] % 3 == 1:
                    # selectors that are index-like but not plain ints
                    self.add(R.select_from_sources((_Idx(0), False), self.rollers()[0]) if d[1] % 2 else self.rollers()[0].select(True, slice(None)))

    def hists(self):
        return [o for k, o, _ in self.objs if k == "H"]

    def pools(self):
        return [o for k, o, _ in self.objs if k == "P"]

    def rollers(self):
        return [o for k, o, _ in self.objs if k == "R"]

    def add(self, o):
        from dyce import H, P

        kind = "H" if isinstance(o, H) else "P" if isinstance(o, P) else "R"
        # identity: the same object returned again is not a new object
        for k, x, _ in self.objs:
            if x is o:
                self.model_ops.append(["pure"])
                return
        self.objs.append((kind, o, snap(o)))
        if kind == "H":
            self.model_ops.append(["newH", [(int(Fraction(k)) if Fraction(k).denominator == 1 else 0, c) for k, c in o.items()]])
        elif kind == "P":
            idx = []
            hs = self.hists()
            for h in o:
                j = next((i for i, x in enumerate(hs) if x is h), None)
                if j is None:
                    # a die that is not one of the population's objects: register it first
                    self.objs.insert(len(self.objs) - 1, ("H", h, snap(h)))
                    self.model_ops.append(["newH", [(int(Fraction(k)) if Fraction(k).denominator == 1 else 0, c) for k, c in h.items()]])
                    hs = self.hists()
                    j = next(i for i, x in enumerate(hs) if x is h)
                idx.append(j)
            self.model_ops.append(["newP", idx])
        else:
            self.model_ops.append(["newR", len(repr(o)) % 1000, len(repr(o.annotation))])

    def check(self, what):
        for k, o, s in self.objs:
            now = snap(o)
            if now != s:
                self.violations.append("%s changed a pre-existing %s: %r -> %r" % (what, k, s, now))


def _pick(rnd_vals, seq, j):
    return seq[rnd_vals[j] % len(seq)] if seq else None


def run_op(w, op):
    """perform one public operation; returns the resulting object (or None)"""
    import dyce.rng
    from dyce.evaluation import explode, foreach
    from dyce.r import R

    k = op[0]
    a = op[1:]
    hs, ps, rs = w.hists(), w.pools(), w.rollers()
    h = hs[a[0] % len(hs)] if hs else w.H({1: 1})
    h2 = hs[a[1] % len(hs)] if hs and len(a) > 1 else h
    p = ps[a[0] % len(ps)] if ps else w.P(h)
    r = rs[a[0] % len(rs)] if rs else R.from_value(h)
    if k == "bin":
        return [operator.add, operator.sub, operator.mul][a[2] % 3](h, h2)
    if k == "scalar":
        return h + a[1] if a[2] % 2 else a[1] - h
    if k == "cmp":
        return [h.lt, h.eq, h.ge][a[2] % 3](h2)
    if k == "neg":
        return -h
    if k == "lt":
        return h.lowest_terms()
    if k == "eqhash":
        _ = (h == h2, hash(h), hash(h2), h != h2)
        return None
    if k == "acc":
        return h.accumulate(h2)
    if k == "zfill":
        return h.zero_fill([a[1], a[1] + 1])
    if k == "remove":
        outs = list(h.outcomes())
        return h.remove(outs[a[1] % len(outs)] if outs and a[2] % 4 else 99)
    if k == "draw":
        outs = list(h.outcomes())
        return h.draw(outs[a[1] % len(outs)] if outs and a[2] % 4 else 99)
    if k == "drawmap":
        outs = list(h.outcomes())
        o = outs[a[1] % len(outs)] if outs else 1
        return h.draw({o: [-1, 0, -2, 1][a[2] % 4]})
    if k == "draw_noarg":
        saved = dyce.rng.RNG
        dyce.rng.RNG = random.Random(a[1])
        try:
            return h.draw()
        finally:
            dyce.rng.RNG = saved
    if k == "explode":
        return explode(h, limit=a[1] % 3)
    if k == "hexplode":
        return h.explode(max_depth=a[1] % 3)
    if k == "subst":
        return h.substitute(lambda hh, o: hh if o == max(hh) else o, operator.__add__, max_depth=1)
    if k == "ostat":
        n = 1 + a[1] % 3
        _ = h.exactly_k_times_in_n(a[2], n, 0)
        return h.order_stat_for_n_at_pos(n, a[2] % n)
    if k == "stats":
        _ = (h.mean(), h.variance(), list(h.distribution()), h.distribution_xy(), h.format(), repr(h), len(h), h.total, list(h.items()))
        return None
    if k == "roll":
        saved = dyce.rng.RNG
        dyce.rng.RNG = random.Random(a[1])
        try:
            _ = (h.roll(), p.roll(), r.roll())
        finally:
            dyce.rng.RNG = saved
        return None
    if k == "alias":
        return w.H(h)
    if k == "hofp":
        return w.H(p)
    if k == "pnew":
        return w.P(p, h)
    if k == "pmatmul":
        return (a[1] % 3) @ p
    if k == "pslice":
        return p[a[1] % 2 : 1 + a[2] % 3]
    if k == "pindex":
        return p[a[1] % len(p)] if len(p) else None
    if k == "ph":
        n = len(p)
        return p.h(*gen.which_to_py(gen.rand_which(random.Random(a[1]), n, max_ids=2, allow_bad=False)))
    if k == "prwc":
        _ = list(p.rolls_with_counts(*([-1] if len(p) else [])))
        _ = p.appearances_in_rolls(a[1])
        _ = (p == p, repr(p), p.total, len(p), p.is_homogeneous())
        return None
    if k == "pop":
        return p + h if a[1] % 2 else p.lt(h2)
    if k == "foreach":
        return foreach(lambda x, y: x.outcome + sum(y.roll), h, p)
    if k == "annotate":
        ann = ["", None, 0, (), "x", "note", {"k": 1}][a[1] % 7]
        return r.annotate(ann) if a[2] % 5 else r.annotate()
    if k == "rroll":
        saved = dyce.rng.RNG
        dyce.rng.RNG = random.Random(a[1])
        try:
            roll = r.roll()
            _ = (tuple(roll.outcomes()), roll.total(), repr(roll))
        finally:
            dyce.rng.RNG = saved
        return None
    if k == "rop":
        return [lambda: r + 1, lambda: 2 @ r, lambda: r.select(0), lambda: r.filter(lambda o: o.value > 1), lambda: -r, lambda: R.from_sources(r, r)][a[1] % 6]()
    if k == "fromcontainer":
        # objects built from a caller's mutable container; "mutinput" later mutates the container
        from dyce.r import PoolRoller

        which = a[1] % 7
        if which == 0:
            c = [r, rs[a[2] % len(rs)] if rs else r]
            w.containers.append(c)
            return R.from_sources_iterable(c)
        if which == 1:
            c = [r]
            w.containers.append(c)
            return PoolRoller(sources=c)
        if which == 2:
            c, wl = [r], [0]
            w.containers += [c, wl]
            return R.select_from_sources_iterable(wl, c)
        if which == 3:
            c = [r, r]
            w.containers.append(c)
            return R.filter_from_sources_iterable(lambda o: bool(o.value), c)
        if which == 4:
            c = dict(list(h.items())[: 1 + a[2] % 3]) or {1: 1}  # (also dicts with a single entry)
            w.containers.append(c)
            return w.H(c)
        if which == 5:
            c = [(o, cnt) for o, cnt in h.items()] or [(1, 1)]
            w.containers.append(c)
            return w.H(c)
        if which == 6 and a[2] % 8 == 2:
            return R.from_value(w.P(h))  # a roller over a one-die pool
        if which == 6 and a[2] % 8 == 4:
            # a substitution roller whose expansion operator fails part-way into a nested expansion
            return _failing_substitution(r, 3 + a[1] % 3)
        if which == 6 and a[2] % 2:
            # selectors that are index-like but not plain ints
            return r.select(True, slice(None)) if a[2] % 4 == 1 else R.select_from_sources((_Idx(0), False), r)
        c = [h, h2]
        w.containers.append(c)
        return w.P(*c)
    if k == "mutinput":
        for c in w.containers:
            if isinstance(c, dict):
                for key in list(c)[:1]:
                    c[key] += 1
                c[987] = 1
            elif c and isinstance(c[0], tuple):
                c[0] = (c[0][0], c[0][1] + 1)
                c.append((987, 1))
            elif c and isinstance(c[0], int):
                c[0] = -1
                c.append(0)
            else:
                c.reverse()
                if c:
                    c.append(c[0])
                    del c[0]
                    c.append(c[0])
        return None
    if k == "setitem":
        target = [h, p, r][a[1] % 3]
        try:
            target[1] = 5
        except (TypeError, AttributeError, KeyError, IndexError):
            pass
        else:
            w.violations.append("item assignment on %s did not raise" % type(target).__name__)
        try:
            del target[1]
        except (TypeError, AttributeError, KeyError, IndexError):
            pass
        else:
            w.violations.append("item deletion on %s did not raise" % type(target).__name__)
        return None
    if k == "reject":
        bad = [lambda: h @ -1, lambda: h.draw(12345), lambda: p.h(99), lambda: h.within(2, 1), lambda: w.H({1: -1}), lambda: explode(h, limit=-7), lambda: h.substitute(lambda a_, b_: b_, max_depth=1, precision_limit=0.5)][a[1] % 7]
        try:
            bad()
        except (ValueError, TypeError, IndexError):
            return None
        w.violations.append("rejected call %d did not raise" % (a[1] % 7))
        return None
    raise KeyError(k)


OPS = ["drawmap", "drawmap", "bin", "scalar", "cmp", "neg", "lt", "eqhash", "acc", "zfill", "remove", "remove", "draw", "draw_noarg", "explode", "hexplode", "subst", "ostat", "stats", "roll", "alias", "alias", "hofp", "pnew", "pmatmul", "pslice", "pindex", "ph", "prwc", "pop", "foreach", "annotate", "annotate", "annotate", "rroll", "rop", "setitem", "reject", "reject", "fromcontainer", "fromcontainer", "mutinput"]


def _run(case):
    with warnings.catch_warnings():
        warnings.simplefilter("ignore")
        w = World(case)
        for op in case["ops"]:
            n_before = len(w.model_ops)
            try:
                res = run_op(w, op)
            except (ValueError, TypeError, IndexError, ZeroDivisionError, KeyError, OverflowError):
                res = None  # a rejected call: must leave everything as it was (checked below)
            except C.CaseTimeout:
                raise
            except Exception as ex:  # noqa: BLE001
                res = None
                w.violations.append("%s raised an undocumented %s: %s" % (op[0], type(ex).__name__, str(ex)[:80]))
            if res is not None and not isinstance(res, (int, float, bool)):
                w.add(res)
            if len(w.model_ops) == n_before:
                w.model_ops.append(["pure"])
            w.check(op[0])
        C.clear_caches()
        return w


def impl(case):
    w = _run(case)
    hs = w.hists()
    parts = []
    for h in hs:
        parts.append("{" + ",".join("%d:%d" % (int(Fraction(k)) if Fraction(k).denominator == 1 else 0, c) for k, c in h.items()) + "}")
    pp = []
    for p in w.pools():
        pp.append("(" + ",".join(str(next(i for i, x in enumerate(hs) if x is h)) for h in p) + ")")
    rr = ["%d/%d" % (len(repr(r)) % 1000, len(repr(r.annotation))) for r in w.rollers()]
    out = "ok H[%s] P[%s] R[%s] changed=%d" % (" ".join(parts), " ".join(pp), " ".join(rr), len(w.violations))
    if w.violations:
        out += " :: " + w.violations[0][:300]
    return out


def model(case):
    w = _run(case)
    toks = [str(len(w.model_ops))]
    for op in w.model_ops:
        if op[0] == "newH":
            agg = op[1]
            toks += ["0", str(len(agg))]
            for o, c in agg:
                toks += [str(o), str(c)]
        elif op[0] == "alias":
            toks += ["1", str(op[1])]
        elif op[0] == "newP":
            toks += ["2", str(len(op[1]))] + [str(i) for i in op[1]]
        elif op[0] == "newR":
            toks += ["3", str(op[1]), str(op[2])]
        else:
            toks += ["4"]
    return " ".join(["HEAP"] + toks)


def model_post(case, out):
    return " ".join(out.split()).replace("H[ ", "H[").replace("[ ]", "[]")


def classify(case, got):
    return "ops:" + "+".join(sorted({op[0] for op in case["ops"]}))[:60]


def nontrivial(case, got):
    return got.startswith("ok") and got.count("{") >= 4


def describe(case):
    return case


def shrink(case):
    ops = case["ops"]
    for j in range(len(ops)):
        if len(ops) > 1:
            yield dict(case, ops=ops[:j] + ops[j + 1 :])


def generate(rnd, tier, scale):
    n = int((300 if tier == "quick" else 3000) * scale)
    for _ in range(n):
        init = []
        for _ in range(rnd.randint(1, 3)):
            init.append(["h", gen.rand_h(rnd, 4, rnd.choice(["int", "int", "neg", "float", "frac"]), counts=(0, 1, 1, 2, 3))])
        for _ in range(rnd.randint(0, 2)):
            init.append(["p", [rnd.randint(0, 5) for _ in range(rnd.randint(1, 3))]])
        for _ in range(rnd.randint(1, 2)):
            init.append(["r", rnd.randint(0, 5), rnd.choice(["", "d6", "note", "x"])])
        ops = [[rnd.choice(OPS), rnd.randint(0, 50), rnd.randint(0, 50), rnd.randint(0, 50)] for _ in range(rnd.randint(4, 14))]
        yield dict(init=init, ops=ops)
