"""C19 — invalid arguments are rejected, never turned into a wrong histogram."""
from __future__ import annotations

import json
import os
import subprocess
import sys
import warnings
from fractions import Fraction

if __name__ == "__main__":
    sys.path.insert(0, os.path.dirname(os.path.dirname(os.path.abspath(__file__))))

import common as C

RULE = (
    "cases = corpus + seeded grid: every public entry point that documents a rejection (histogram counts; repetition counts of "
    "H @ n, n @ H, P @ n, R @ n, order-statistic n; parity tests; selection positions of P.h / rolls_with_counts / p[...]; within "
    "bounds; max_depth + precision_limit on H/P explode/substitute; recursion limits of explode / foreach / expandable; "
    "RollOutcome(None) with empty sources of several iterable kinds) x arguments from an invalid-input grammar and their "
    "valid-but-unusual twins (2.0, Fraction(2), numpy ints, True, -1, 2.5, Fraction(5,2), nan, +-inf, 'a', None), each with runtime "
    "type-checking off (in process) and on (worker process with NUMERARY_BEARTYPE=yes); accepted calls are compared with the "
    "same call on the plain int; operands are snapshotted around every call; distinct = distinct case; non-trivial = all"
)
TRUSTED = [
    "with NUMERARY_BEARTYPE=yes any of ValueError / TypeError / IndexError / beartype's violation counts as the documented rejection",
    "argument classes are mapped to the model's PyArg by the harness (finite floats through their exact ratio)",
]
ASSUMPTIONS = ["numerary / beartype as installed decide what the type-checker rejects"]
EXPLANATION = "theorems C19_asInt_iff, C19_count, C19_repeat, C19_parity, C19_position(+_float), C19_within, C19_both_limits, C19_roll_outcome, C19_limit_int/_fractional/_nonfinite"

ARGS = ["f:1.0", "q:1/1", "q:3/2", "f:1.5", "q:999/1000", "i:2", "i:0", "i:1", "i:-1", "i:-3", "i:7", "b:1", "b:0", "n:2", "n:-1", "f:2.0", "f:0.0", "f:2.5", "f:-1.0", "f:0.5", "f:0.25", "f:nan", "f:inf", "f:-inf", "q:2/1", "q:5/2", "q:1/3", "q:-1/1", "q:0/1", "s:a", "x:None"]
ENTRIES = ["repeat_p0", "repeat_rp0", "repeat_h0", "count", "count_dup", "count_acc", "repeat_h", "repeat_rh", "repeat_p", "repeat_r", "ostat_n", "parity", "parity_fn", "pos_h", "pos_rwc", "pos_getitem", "pos_h0", "pos_rwc0", "limit_explode", "limit_foreach", "within", "both", "rolloutcome"]


def dec_arg(s):
    t, v = s.split(":", 1)
    if t == "s":
        return v
    if t == "x":
        return None
    return C.dec_out(s)


def arg_tokens(s):
    t, v = s.split(":", 1)
    if t == "i":
        return ["0", v]
    if t == "b":
        return ["1", v]
    if t == "n":
        return ["2", v]
    if t == "f":
        if v == "nan":
            return ["4"]
        if v == "inf":
            return ["5"]
        if v == "-inf":
            return ["6"]
        fr = Fraction(float(v))
        return ["3", str(fr.numerator), str(fr.denominator)]
    if t == "q":
        a, b = v.split("/")
        fr = Fraction(int(a), int(b))
        return ["7", str(fr.numerator), str(fr.denominator)]
    if t == "s":
        return ["8"]
    return ["9"]


def _snap(objs):
    from props.C15 import snap

    return [snap(o) for o in objs]


def _evaluate(case):
    """run the call; -> canonical string"""
    import numpy as np  # noqa: F401
    from dyce import H, P
    from dyce.evaluation import explode, foreach
    from dyce.r import R, RollOutcome
    from dyce.types import is_even

    e = case["entry"]
    h6, h4 = H(6), H(4)
    p3 = P(H(3), H(3), H({1: 1, 5: 2}))
    r = R.from_value(h6)
    operands = [h6, h4, p3, r]
    before = _snap(operands)

    def as_int_result(f, arg):
        """accepted calls must behave as on the integer the argument equals"""
        got = f(arg)
        try:
            n = int(arg)
        except Exception:
            return "accept-but-not-integral"
        same = f(n)
        return ("accept %d" % n) if _canon(got) == _canon(same) else "accept-but-differs-from-int(%r)" % (_canon(got),)

    def _canon(x):
        if isinstance(x, (H, P)):
            return repr(x)
        if hasattr(x, "n") and hasattr(x, "sources"):
            return "R n=%r" % (x.n,)
        return repr(x)

    arg = dec_arg(case["arg"]) if "arg" in case else None
    with warnings.catch_warnings():
        warnings.simplefilter("ignore")
        try:
            if e == "count":
                out = as_int_result(lambda a: H({1: a, 2: 1}), arg)
            elif e == "count_dup":
                # the count of ONE entry is judged, not the accumulated count of its outcome
                out = as_int_result(lambda a: H([(1, 5), (1, a), (2, 1)]), arg)
            elif e == "count_acc":
                out = as_int_result(lambda a: H({1: 5, 2: 1}).accumulate([(1, a)]), arg)
            elif e == "repeat_h":
                out = as_int_result(lambda a: h6 @ a, arg)
            elif e == "repeat_rh":
                out = as_int_result(lambda a: a @ h6, arg)
            elif e == "repeat_p":
                out = as_int_result(lambda a: p3 @ a, arg)
            elif e == "repeat_p0":
                out = as_int_result(lambda a: P() @ a, arg)
            elif e == "repeat_rp0":
                out = as_int_result(lambda a: a @ (0 @ p3), arg)
            elif e == "repeat_h0":
                out = as_int_result(lambda a: a @ H({}), arg)
            elif e == "repeat_r":
                out = as_int_result(lambda a: r @ a, arg)
            elif e == "ostat_n":
                out = as_int_result(lambda a: h4.order_stat_for_n_at_pos(a, 0), arg)
            elif e == "parity":
                res = H({arg: 1, 4: 1}).is_even()
                out = "accept %d" % int(res.get(True, 0) == 2)
            elif e == "parity_fn":
                out = "accept %d" % int(is_even(arg))
            elif e == "pos_h":
                got = p3.h(arg)
                out = "accept %d" % (int(arg) % 3) if repr(got) == repr(p3.h(int(arg))) else "accept-but-differs"
            elif e == "pos_rwc":
                got = sorted(p3.rolls_with_counts(arg))
                out = "accept %d" % (int(arg) % 3) if got == sorted(p3.rolls_with_counts(int(arg))) else "accept-but-differs"
            elif e == "pos_h0":
                P().h(arg)  # no position exists in the pool without dice
                out = "accept-on-empty-pool"
            elif e == "pos_rwc0":
                list((0 @ p3).rolls_with_counts(arg))
                out = "accept-on-empty-pool"
            elif e == "pos_getitem":
                got = p3[arg]
                out = "accept %d" % (int(arg) % 3) if got is p3[int(arg)] else "accept-but-differs"
            elif e in ("limit_explode", "limit_foreach"):
                f = (lambda a: explode(H(2), limit=a)) if e == "limit_explode" else (lambda a: foreach(lambda x: x.outcome, H(2), limit=a))
                got = f(arg)
                if isinstance(arg, (bool, int)) or type(arg).__name__.startswith("int"):
                    n = int(arg)
                    # -1 = no limit: the evaluation runs until the interpreter's stack gives out, so two runs need not
                    # agree (how deep that is depends on what has been called before); only acceptance is judged
                    out = "accept int %d" % (sys.maxsize if n == -1 else n) if n == -1 or repr(got) == repr(f(n)) else "accept-but-differs"
                else:
                    fr = Fraction(arg)
                    out = "accept frac %d %d" % (fr.numerator, fr.denominator)
            elif e == "within":
                h6.within(case["lo"], case["hi"])
                out = "accept"
            elif e == "both":
                api = case["api"]
                kw = {}
                if case["md"] is not None:
                    kw["max_depth"] = case["md"]
                if case["pl"] is not None:
                    kw["precision_limit"] = Fraction(1, 8)
                obj = h4 if api[0] == "H" else P(h4)
                if api.endswith("explode"):
                    obj.explode(**kw)
                else:
                    obj.substitute(lambda hh, o: o, **kw)
                out = "accept"
            elif e == "rolloutcome":
                kind = case["sources"]
                one = RollOutcome(1)
                srcs = {"default": None, "tuple0": (), "list0": [], "gen0": (o for o in ()), "iter0": iter(()), "map0": map(lambda x: x, ()), "tuple1": (one,), "gen1": (o for o in (one,))}[kind]
                val = None if case["none"] else 3
                RollOutcome(val) if srcs is None else RollOutcome(val, sources=srcs)
                out = "accept"
            else:
                raise KeyError(e)
        except ValueError:
            out = "reject ValueError"
        except TypeError:
            out = "reject TypeError"
        except IndexError:
            out = "reject IndexError"
        except Exception as ex:  # noqa: BLE001
            name = type(ex).__name__
            out = "reject Beartype" if "Beartype" in name else "reject-undocumented " + name
    if _snap(operands) != before:
        out += " OPERANDS-CHANGED"
    # the operands must remain usable
    try:
        _ = (h6 + 1).total, p3.h().total, repr(r)
    except Exception as ex:  # noqa: BLE001
        out += " OPERANDS-UNUSABLE(%s)" % type(ex).__name__
    return out


# ---- the beartype-on worker ---------------------------------------------------------------------

_worker = None


def _bt_eval(case):
    global _worker
    if _worker is None or _worker.poll() is not None:
        env = dict(os.environ)
        env["NUMERARY_BEARTYPE"] = "yes"
        env["PYTHONPATH"] = C.REPO + os.pathsep + os.path.dirname(os.path.dirname(os.path.abspath(__file__)))
        _worker = subprocess.Popen([sys.executable, "-B", os.path.abspath(__file__), "--worker"], stdin=subprocess.PIPE, stdout=subprocess.PIPE, text=True, env=env)
    _worker.stdin.write(json.dumps(case) + "\n")
    _worker.stdin.flush()
    line = _worker.stdout.readline()
    if not line:
        return "worker-died"
    return json.loads(line)


def impl(case):
    if case.get("bt"):
        out = _bt_eval(dict(case, bt=False))
        parts = out.split(" ", 2)
        if out.startswith("reject ") and parts[1] in ("ValueError", "TypeError", "IndexError", "Beartype"):
            return " ".join(["reject"] + parts[2:])
        return out
    return _evaluate(case)


def model(case):
    e = case["entry"]
    if e in ("count", "count_dup", "count_acc"):
        return " ".join(["GUARD", "0"] + arg_tokens(case["arg"]))
    if e in ("repeat_h", "repeat_rh", "repeat_p", "repeat_r", "ostat_n", "repeat_p0", "repeat_rp0", "repeat_h0"):
        return " ".join(["GUARD", "1"] + arg_tokens(case["arg"]))
    if e in ("parity", "parity_fn"):
        return " ".join(["GUARD", "2"] + arg_tokens(case["arg"]))
    if e in ("pos_h", "pos_rwc", "pos_getitem"):
        return " ".join(["GUARD", "3", "3"] + arg_tokens(case["arg"]))
    if e in ("pos_h0", "pos_rwc0"):
        return " ".join(["GUARD", "3", "0"] + arg_tokens(case["arg"]))
    if e in ("limit_explode", "limit_foreach"):
        return " ".join(["GUARD", "4"] + arg_tokens(case["arg"]))
    if e == "within":
        return " ".join(["GUARD", "5", str(case["lo"]), str(case["hi"])])
    if e == "both":
        return " ".join(["GUARD", "6", "1" if case["md"] is not None else "0", "1" if case["pl"] is not None else "0"])
    if e == "rolloutcome":
        return " ".join(["GUARD", "7", "1" if case["none"] else "0", "1" if case["sources"].endswith("1") else "0"])


def model_post(case, out):
    out = " ".join(out.split())
    e = case["entry"]
    if e in ("ostat_n",) and out == "accept 0":
        pass
    if case.get("bt") and out.startswith("reject"):
        return "reject"
    return out


def classify(case, got):
    return "%s/%s/%s" % ("bt" if case.get("bt") else "plain", case["entry"], got.split()[0])


def nontrivial(case, got):
    return True


def describe(case):
    return case


def generate(rnd, tier, scale):
    n = int((500 if tier == "quick" else 3000) * scale)
    for _ in range(n):
        e = rnd.choice(ENTRIES)
        bt = rnd.random() < 0.3
        if e == "within":
            lo, hi = rnd.randint(-3, 3), rnd.randint(-3, 3)
            yield dict(entry=e, lo=lo, hi=hi, bt=bt)
        elif e == "both":
            yield dict(entry=e, api=rnd.choice(["H.explode", "H.substitute", "P.explode", "P.substitute"]), md=rnd.choice([None, 0, 1, 2, False]), pl=rnd.choice([None, 1]), bt=bt)
        elif e == "rolloutcome":
            yield dict(entry=e, none=rnd.random() < 0.7, sources=rnd.choice(["default", "tuple0", "list0", "gen0", "iter0", "map0", "tuple1", "gen1"]), bt=bt)
        else:
            arg = rnd.choice(ARGS)
            if e in ("parity", "parity_fn") and arg.split(":")[0] in ("s", "x"):
                arg = "f:2.5"
            if e == "parity" and (arg in ("f:nan",)):
                arg = "q:5/2"
            if e in ("repeat_h", "repeat_rh", "repeat_p", "repeat_r", "ostat_n", "count", "count_dup", "count_acc", "repeat_p0", "repeat_rp0", "repeat_h0") and arg == "i:7":
                arg = "i:3"
            if e == "ostat_n" and arg in ("i:0", "b:0", "f:0.0", "q:0/1"):
                arg = "i:2"
            yield dict(entry=e, arg=arg, bt=bt)


if __name__ == "__main__" and "--worker" in sys.argv:
    C.load_dyce()
    for line in sys.stdin:
        case = json.loads(line)
        try:
            res = _evaluate(case)
        except BaseException as ex:  # noqa: BLE001
            res = "worker-exception " + type(ex).__name__
        sys.stdout.write(json.dumps(res) + "\n")
        sys.stdout.flush()
