"""C12 — rolls are complete, consistent records of how results were produced."""
from __future__ import annotations

from collections import Counter

import common as C
from props import C11
from props import rollercommon as RC

RULE = C11.RULE.replace("non-trivial = >= 2 choice paths and an inner node", "the whole record (outcome values, tombstones, sources, ownership, source rolls) is compared on every explored path; non-trivial = >= 2 choice paths and an inner node")
TRUSTED = C11.TRUSTED + [
    "records are compared through a canonical serialisation (live outcomes in order, tombstones as a sorted multiset, 'owned' = source_roll does not raise)",
    "roll.r / source-roll order / derived values / accounting of live source outcomes are additionally checked structurally on the real record",
    "dyce.r.walk is checked against a reachability closure recomputed from source_rolls / r / sources (visited exactly once, parents = referring objects); it is not part of the Lean model, which has no object identity",
]
ASSUMPTIONS = C11.ASSUMPTIONS
EXPLANATION = "theorems C12_all_reachable_owned (every tree, every path), C12_values_are_live_outcomes, C12_pinned_counterexample; the record model rollW is tied to /repo path by path"


def _structure_flags(r, roll, tree):
    """clauses of C12 that are about object identity in the real record"""
    flags = []

    def walk(r, roll, tree):
        if roll.r is not r:
            flags.append("roll.r-is-not-the-producing-roller")
            return
        t = tree[0]
        srs = list(roll.source_rolls)
        if t in ("val", "valh", "valp"):
            if srs:
                flags.append("leaf-has-source-rolls")
            return
        if t == "rep":
            exp = [(r.sources[0], tree[2])] * tree[1]
        elif t == "subst":
            exp = [(r.sources[0], tree[6])] + [(None, tree[3])] * (len(srs) - 1)
        elif t == "substmap":
            exp = [(r.sources[0], tree[6])]
        elif t == "bin":
            exp = [(r.sources[0], tree[2]), (r.sources[1], tree[3])]
        elif t == "un":
            exp = [(r.sources[0], tree[2])]
        elif t == "unb":
            exp = [(r.sources[0], tree[4])]
        elif t == "unc":
            exp = [(r.sources[0], tree[2])]
        else:
            subs = tree[1] if t == "pool" else tree[3] if t == "filt" else tree[2]
            exp = list(zip(r.sources, subs))
        if len(srs) != len(exp):
            flags.append("source-rolls-count %d != %d" % (len(srs), len(exp)))
            return
        for sr, (sub_r, sub_t) in zip(srs, exp):
            if sub_r is not None:
                walk(sub_r, sr, sub_t)
        # every live outcome of every source roll is accounted for in the parent roll
        mine = list(roll)

        def reach(o, acc):
            for s in o.sources:
                if id(s) not in acc:
                    acc.add(id(s))
                    reach(s, acc)
            return acc

        reachable = set()
        for o in mine:
            reachable.add(id(o))
            reach(o, reachable)
        if t != "subst" or True:
            for sr in srs[:1] if t == "subst" else srs:
                for o in sr:
                    if o.value is not None and id(o) not in reachable:
                        flags.append("live-source-outcome-unaccounted")
        if tuple(roll.outcomes()) != tuple(o.value for o in mine if o.value is not None):
            flags.append("outcomes()-mismatch")

    walk(r, roll, tree)
    return sorted(set(flags))


def _walk_flags(roll):
    """dyce.r.walk (the traversal clients use to inspect records) visits every roll, roller and outcome
    reachable from the record exactly once and reports exactly the referring objects as parents;
    reachability is recomputed here from source_rolls / r / sources alone"""
    from collections import defaultdict

    from dyce.r import RollerWalkerVisitor, RollOutcomeWalkerVisitor, RollWalkerVisitor, walk

    flags = []

    def closure(roots, succ):
        seen, parents, stack = {}, defaultdict(set), list(roots)
        while stack:
            x = stack.pop()
            if id(x) in seen:
                continue
            seen[id(x)] = x
            for y in succ(x):
                parents[id(y)].add(id(x))
                stack.append(y)
        return seen, parents

    rolls, roll_par = closure([roll], lambda x: x.source_rolls)
    rollers, roller_par = closure([x.r for x in rolls.values()], lambda x: x.sources)
    outs, out_par = closure([o for x in rolls.values() for o in x], lambda o: o.sources)

    class V(RollWalkerVisitor, RollerWalkerVisitor, RollOutcomeWalkerVisitor):
        def __init__(self):
            self.seen = {"roll": [], "roller": [], "outcome": []}

        def on_roll(self, roll, parents):
            self.seen["roll"].append((id(roll), frozenset(id(p) for p in parents)))

        def on_roller(self, r, parents):
            self.seen["roller"].append((id(r), frozenset(id(p) for p in parents)))

        def on_roll_outcome(self, roll_outcome, parents):
            self.seen["outcome"].append((id(roll_outcome), frozenset(id(p) for p in parents)))

    v = V()
    walk(roll, v)
    for kind, (exp, par) in (("roll", (rolls, roll_par)), ("roller", (rollers, roller_par)), ("outcome", (outs, out_par))):
        got = v.seen[kind]
        if sorted(i for i, _ in got) != sorted(exp):
            flags.append("walk-%ss-visited %d != reachable %d" % (kind, len(got), len(exp)))
        elif any(ps != frozenset(par[i]) for i, ps in got):
            flags.append("walk-%s-parents-differ" % kind)
    return flags


def _annotate_flags(r):
    """after the tree has been rolled: an annotated copy of any of its rollers is a roller of its own — its rolls name
    IT as their producer and carry ITS annotation (nothing remembered by the original may answer for the copy)"""
    import random

    import dyce.rng

    flags = []
    seen, stack, rollers = set(), [r], []
    while stack:
        x = stack.pop()
        if id(x) in seen:
            continue
        seen.add(id(x))
        rollers.append(x)
        stack.extend(x.sources)
    saved = dyce.rng.RNG
    dyce.rng.RNG = random.Random(0)
    try:
        for i, x in enumerate(rollers[:6]):
            x2 = x.annotate("note-%d" % i)
            roll = x2.roll()
            if roll.r is not x2:
                flags.append("roll-of-annotated-copy-names-another-roller")
            elif roll.annotation != "note-%d" % i:
                flags.append("roll-of-annotated-copy-has-annotation-%r" % (roll.annotation,))
            if x.annotation == "note-%d" % i:
                flags.append("annotate-changed-the-original")
    except IndexError:
        pass  # a selection that is not valid on this path of the copy's re-roll
    finally:
        dyce.rng.RNG = saved
    return flags


def impl(case):
    r = RC.build(case["tree"])
    agg = Counter()
    flags = set()
    for roll, w, log in RC.explore(lambda: r.roll()):
        agg[RC.show_rec(roll)] += w
        flags.update(_structure_flags(r, roll, case["tree"]))
        flags.update(_walk_flags(roll))
    flags.update(_annotate_flags(r))
    out = RC.fmt_agg(agg)
    if flags:
        out += " FLAGS:" + ",".join(sorted(flags))
    return out


def model(case):
    return " ".join(["ROLLRECS"] + RC.tokens(case["tree"]))


def model_post(case, out):
    return " ".join(out.split())


classify = C11.classify
nontrivial = C11.nontrivial
describe = C11.describe
shrink = C11.shrink


def generate(rnd, tier, scale):
    # whole records are far bulkier than outcome tuples: fewer, smaller trees in the thorough tier
    if tier == "quick":
        for case in C11.generate(rnd, tier, scale):
            if not RC.has_kind(case["tree"], "filtsrc"):
                yield case
        return
    n = 0
    for case in C11.generate(rnd, tier, scale):
        if RC.count_paths(case["tree"]) > 600 or RC.has_kind(case["tree"], "filtsrc"):
            continue
        n += 1
        yield case
        if n >= int(6000 * scale):
            return
