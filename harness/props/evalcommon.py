"""Shared machinery of the evaluator checks (C06, C07, C08, C14).

A case is a finite *program*: shared source objects, source lists (positional/keyword split),
decorated functions whose callbacks are lookup tables of actions, and a history of top-level
calls.  The same program is (a) run on the real `dyce.evaluation.expandable`, (b) shipped to the
Lean model (`EVAL` op), (c) evaluated by a stateless reference evaluator written from the sentence
of the properties (exact probabilities, explicit depth / precision)."""
from __future__ import annotations

import sys
from fractions import Fraction
from math import gcd, lcm

import common as C
import gen


class UserExc(Exception):
    def __init__(self, tag):
        super().__init__("injected %d" % tag)
        self.tag = tag


class UserBaseExc(BaseException):
    """an exception that is not an `Exception` (like KeyboardInterrupt)"""

    def __init__(self, tag):
        super().__init__("injected %d" % tag)
        self.tag = tag


class UserRuntimeError(RuntimeError):
    def __init__(self, tag):
        super().__init__("injected %d" % tag)
        self.tag = tag


BUILTIN_EXC = {2: TypeError, 3: KeyError, 4: LookupError, 5: ZeroDivisionError, 6: AttributeError, 7: StopIteration, 8: AssertionError, 9: IndexError,
               40: OverflowError, 41: ArithmeticError, 42: FloatingPointError, 43: NotImplementedError, 44: OSError, 45: RuntimeError, 46: MemoryError,
               47: BufferError, 48: EOFError, 49: ImportError, 50: NameError, 51: ReferenceError, 52: SystemError, 53: UnicodeError, 54: TimeoutError, 55: GeneratorExit}


def make_exc(tag):
    if tag == 0:
        return RecursionError("injected")
    if tag == 1:
        return ValueError("injected")
    if tag in BUILTIN_EXC:
        e = BUILTIN_EXC[tag]("injected %d" % tag)  # a built-in exception type, marked so that it is recognised again
        e.tag = tag
        return e
    if 20 <= tag < 30:
        return UserBaseExc(tag)
    if 30 <= tag < 40:
        return UserRuntimeError(tag)
    return UserExc(tag)


def exc_str(e):
    if isinstance(e, RecursionError):
        return "err RecursionError"
    if isinstance(e, (UserExc, UserBaseExc, UserRuntimeError)) or isinstance(getattr(e, "tag", None), int):
        tag = getattr(e, "tag", None)
        # (an exception the code under test re-created may carry anything as its tag)
        return "err User%d" % tag if isinstance(tag, int) and not isinstance(tag, bool) else "err User?(%s)" % type(e).__name__
    return "err " + C.exc_name(e)


# ---------------------------------------------------------------------------------------------
# building the real objects
# ---------------------------------------------------------------------------------------------


def py_limit(lim):
    if lim is None:
        return None
    if lim[0] == "i":
        return lim[1]
    if lim[0] == "q":
        return Fraction(lim[1], lim[2])
    if lim[0] == "f":
        return float(lim[1])
    if lim[0] == "b":
        return bool(lim[1])
    raise ValueError(lim)


def exact_limit(lim):
    """the limit's meaning: ('i', n) | ('q', Fraction)  (floats / Fractions are fractional limits)"""
    if lim is None:
        return None
    if lim[0] in ("i", "b"):
        return ("i", int(lim[1]))
    if lim[0] == "q":
        return ("q", Fraction(lim[1], lim[2]))
    return ("q", Fraction(float(lim[1])))


class _Hable:
    """a source that is neither H nor P but can produce a histogram (dyce.h.HableT)"""

    def __init__(self, h):
        self._h = h

    def h(self):
        return self._h


class Built:
    """the real dyce objects of a program, plus the presented result lists"""

    def __init__(self, case):
        from dyce import H, P
        from dyce.evaluation import PWithSelection, expandable

        self.case = case
        self.via = case.get("via", "expandable")
        self.objs, self.presented, self.totals, self.owner = [], [], [], {}
        self.raw = {}
        for i, s in enumerate(case["sources"]):
            if s["t"] == "h":
                o = C.dec_h(s["items"])
                pres = [(x, c) for x, c in o.items()]
                tot = o.total
                self.owner[id(o)] = i
                if s.get("raw") == "map":
                    # a plain mapping: the evaluator builds H(source) itself; the callback must see that histogram
                    self.raw[i] = o
                    o = dict(o.items())
                elif s.get("raw") == "hable":
                    o = _Hable(o)  # anything with .h(): the evaluator uses source.h()
            else:
                p = P(*[C.dec_h(h) for h in s["dice"]])
                self.owner[id(p)] = i
                if s.get("which") is not None:
                    w = gen.which_to_py(s["which"])
                    wf = s.get("which_form", "tuple")
                    # the selection in another iterable type; one-shot forms are legal for a source that is evaluated once
                    o = PWithSelection(p, list(w) if wf == "list" else iter(w) if wf == "iter" else (x for x in w) if wf == "gen" else w)
                    C.clear_caches()
                    pres = [(r, c) for r, c in p.rolls_with_counts(*w)]
                else:
                    o = p
                    C.clear_caches()
                    pres = [(r, c) for r, c in p.rolls_with_counts()]
                tot = p.total
            self.objs.append(o)
            self.totals.append(tot)
            # result ids: by distinct value, in order of first appearance; a pool presents every
            # distinct (selected) roll ONCE, with the sum of the counts rolls_with_counts gives it
            # (one branch, one probability — fix 182eee3)
            table, agg = {}, {}
            for v, c in pres:
                if v not in table:
                    table[v] = len(table)
                agg[table[v]] = agg.get(table[v], 0) + c
            ids = list(agg.items())
            self.presented.append((ids, table))
        self.stack = []
        self._top_fi = []

        def shared(*args, **kw):
            # ONE callable object for every function evaluated through foreach (what it does depends on the call
            # in progress): nothing foreach keeps between calls may be keyed on the callback alone
            return self._callback(self._top_fi[-1])(*args, **kw)

        self._shared = shared
        self.raised = []
        self.binding_errors = 0
        self.fns = []
        for fi, f in enumerate(case["fns"]):
            self.fns.append(expandable(self._callback(fi), sentinel=C.dec_h(f["sentinel"])))

    # -- helpers ------------------------------------------------------------------------------
    def sizes(self, fi):
        sl = self.case["srclists"][self.case["fns"][fi]["shape"]]
        return [len(self.presented[s][1]) for s in sl["srcs"]]

    def call(self, fi, sli, lim):
        sl = self.case["srclists"][sli]
        n = len(sl["srcs"])
        nkw = min(sl.get("nkw", 0), n)
        args = [self.objs[s] for s in sl["srcs"][: n - nkw]]
        kw = {"k%d" % j: self.objs[s] for j, s in enumerate(sl["srcs"][n - nkw :])}
        self.stack.append(sli)
        try:
            if lim is None:
                return self.fns[fi](*args, **kw)
            return self.fns[fi](*args, limit=py_limit(lim), **kw)
        finally:
            self.stack.pop()

    def call_top(self, fi, sli, lim, via="expandable"):
        """a top-level call through one of the public entry points"""
        import warnings

        from dyce import H, P
        from dyce.evaluation import foreach

        if via == "expandable":
            return self.call(fi, sli, lim)
        sl = self.case["srclists"][sli]
        n = len(sl["srcs"])
        self.stack.append(sli)
        try:
            if via == "foreach":
                nkw = min(sl.get("nkw", 0), n)
                args = [self.objs[s] for s in sl["srcs"][: n - nkw]]
                kw = {"k%d" % j: self.objs[s] for j, s in enumerate(sl["srcs"][n - nkw :])}
                extra = {} if lim is None else {"limit": py_limit(lim)}
                self._top_fi.append(fi)
                try:
                    return foreach(self._shared, *args, sentinel=C.dec_h(self.case["fns"][fi]["sentinel"]), **extra, **kw)
                finally:
                    self._top_fi.pop()
            # deprecated class methods: every source is a keyword; callbacks get bare outcomes / rolls
            kw = {"k%d" % j: self.objs[s] for j, s in enumerate(sl["srcs"])}
            with warnings.catch_warnings():
                warnings.simplefilter("ignore")
                if via == "hforeach":
                    return H.foreach(self._bare_callback(fi, sli, outcome=True), **kw)
                return P.foreach(self._bare_callback(fi, sli, outcome=False), **kw)
        finally:
            self.stack.pop()

    def _bare_callback(self, fi, sli, outcome):
        sl = self.case["srclists"][sli]

        def cb(**kw):
            C.check_timeout()
            ids = []
            for j, s in enumerate(sl["srcs"]):
                v = kw["k%d" % j]
                table = self.presented[s][1]
                if not outcome and self.case["sources"][s]["t"] == "h":
                    v = v[0]  # P.foreach presents histogram sources as one-die rolls
                if v not in table:
                    self.binding_errors += 1
                    raise AssertionError("parameter k%d received a result its source cannot produce" % j)
                ids.append(table[v])
            idx = 0
            for i, sz in zip(ids, self.sizes(fi)):
                idx = idx * sz + i
            acts = self.case["fns"][fi]["acts"]
            return self.run_act(acts[idx % len(acts)])

        return cb

    def _callback(self, fi):
        def cb(*args, **kw):
            C.check_timeout()
            sli = self.stack[-1]
            sl = self.case["srclists"][sli]
            n = len(sl["srcs"])
            nkw = min(sl.get("nkw", 0), n)
            results = list(args) + [kw["k%d" % j] for j in range(nkw)]
            if len(args) != n - nkw or sorted(kw) != sorted("k%d" % j for j in range(nkw)):
                self.binding_errors += 1
                raise AssertionError("callback received the wrong parameters")
            ids = []
            for pos, (res, s) in enumerate(zip(results, sl["srcs"])):
                src_obj = getattr(res, "h", None) if hasattr(res, "h") else getattr(res, "p", None)
                val = res.outcome if hasattr(res, "outcome") else res.roll
                if s in self.raw:
                    own = isinstance(src_obj, type(self.raw[s])) and tuple(src_obj.items()) == tuple(self.raw[s].items())
                else:
                    own = self.owner.get(id(src_obj)) == s
                if not own or val not in self.presented[s][1]:
                    self.binding_errors += 1
                    raise AssertionError("parameter %d did not receive the result of its own source" % pos)
                ids.append(self.presented[s][1][val])
            sizes = self.sizes(fi)
            idx = 0
            for i, sz in zip(ids, sizes):
                idx = idx * sz + i
            acts = self.case["fns"][fi]["acts"]
            act = acts[idx % len(acts)]
            return self.run_act(act)

        return cb

    def run_act(self, act):
        from dyce import H

        k = act[0]
        if k == "out":
            return act[1]
        if k == "hist":
            return H([(o, c) for o, c in act[1]])
        if k == "throw":
            e = make_exc(act[1])
            self.raised.append(e)
            raise e
        if k == "rec1" and self.via in ("hforeach", "pforeach"):
            # the deprecated class methods nest as plain function calls: the dependent term evaluates another one
            return self.call_top(act[1], act[2], None, self.via) + act[4]
        if k == "rec1":
            return self.call(act[1], act[2], act[3]) + act[4]
        if k == "rec2":
            return self.call(act[1], act[2], act[3]) + self.call(act[4], act[5], act[6])
        raise KeyError(k)


def fmt_h(h):
    items = [(int(o), c) for o, c in h.items() if c]
    return ("ok " + " ".join("%d:%d" % oc for oc in sorted(items))).strip() + " total=%d" % sum(c for _, c in items)


def run_impl(case):
    if case.get("prime"):
        # the same calls are first made on sources that are == / hash-equal to the real ones without being them (every
        # count doubled): whatever that leaves behind in the library must not colour the answers below
        twin = dict(case, sources=[dict(s, items=[[o, 2 * c] for o, c in s["items"]]) if s["t"] == "h" else dict(s, dice=[[[o, 2 * c] for o, c in d] for d in s["dice"]]) for s in case["sources"]])
        tb = Built(twin)
        for fi, sli, lim in case["calls"]:
            try:
                tb.call_top(fi, sli, lim, case.get("via", "expandable"))
            except C.CaseTimeout:
                raise
            except BaseException:  # noqa: B902
                pass
    b = Built(case)
    outs = []
    for fi, sli, lim in case["calls"]:
        try:
            r = b.call_top(fi, sli, lim, case.get("via", "expandable"))
            outs.append(fmt_h(r))
        except BaseException as e:  # noqa: B902  (callbacks may raise non-Exception exceptions on purpose)
            if isinstance(e, (KeyboardInterrupt, SystemExit, C.CaseTimeout)):
                raise
            s = exc_str(e)
            if b.raised and isinstance(getattr(e, "tag", None), int) and e is not b.raised[-1]:
                s += " (not the raised object)"
            outs.append(s)
    return " ; ".join(outs)


# ---------------------------------------------------------------------------------------------
# the model line
# ---------------------------------------------------------------------------------------------


def lim_tokens(lim):
    e = exact_limit(lim)
    if e is None:
        return ["0"]
    if e[0] == "i":
        return ["1", str(e[1])]
    return ["2", str(e[1].numerator), str(e[1].denominator)]


def hist_tokens(items):
    agg = {}
    for o, c in items:
        agg[int(o)] = agg.get(int(o), 0) + c
    toks = [str(len(agg))]
    for o, c in sorted(agg.items()):
        toks += [str(o), str(c)]
    return toks


def act_tokens(act):
    k = act[0]
    if k == "out":
        return ["0", str(act[1])]
    if k == "hist":
        return ["1"] + hist_tokens(act[1])
    if k == "throw":
        return ["2", str(act[1])]
    if k == "rec1":
        return ["3", str(act[1]), str(act[2])] + lim_tokens(act[3]) + [str(act[4])]
    return ["4", str(act[1]), str(act[2])] + lim_tokens(act[3]) + [str(act[4]), str(act[5])] + lim_tokens(act[6])


def model_line(case):
    b = Built(case)
    toks = [str(len(case["srclists"]))]
    for sl in case["srclists"]:
        toks.append(str(len(sl["srcs"])))
        for s in sl["srcs"]:
            ids, _ = b.presented[s]
            toks += [str(b.totals[s]), str(len(ids))]
            for i, c in ids:
                toks += [str(i), str(c)]
    toks.append(str(len(case["fns"])))
    for fi, f in enumerate(case["fns"]):
        toks += hist_tokens([(C.dec_out(o), c) for o, c in f["sentinel"]])
        sizes = b.sizes(fi)
        toks += [str(len(sizes))] + [str(s) for s in sizes]
        n = 1
        for s in sizes:
            n *= s
        acts = [f["acts"][i % len(f["acts"])] for i in range(n)]
        toks.append(str(len(acts)))
        for a in acts:
            toks += act_tokens(a)
    toks.append(str(len(case["calls"])))
    for fi, sli, lim in case["calls"]:
        toks += [str(fi), str(sli)] + lim_tokens(lim)
    return " ".join(["EVAL"] + toks)


def model_post(case, out):
    parts = [p.strip() for p in out.split(" ; ")]
    parts = [p for p in parts if not p.startswith("cell=")]
    res = []
    for p in parts:
        if p.startswith("ok"):
            items = [t for t in p.split()[1:] if not t.startswith("total=") and not t.endswith(":0")]
            tot = sum(int(t.split(":")[1]) for t in items)
            res.append(("ok " + " ".join(items)).strip() + " total=%d" % tot)
        else:
            res.append(p)
    return " ; ".join(res)


# ---------------------------------------------------------------------------------------------
# the stateless reference evaluator (the sentence of C06 / C07 / C14)
# ---------------------------------------------------------------------------------------------

MAXSIZE = sys.maxsize


class Abort(Exception):
    def __init__(self, what):
        self.what = what


def normalize(lim):
    e = exact_limit(lim)
    if e is None:
        return None
    if e[0] == "i":
        if e[1] == -1:
            return ("i", MAXSIZE)
        if e[1] < 0:
            raise Abort("err ValueError")
        return e
    if e[1] <= 0 or e[1] >= 1:
        raise Abort("err ValueError")
    return e


def dist_of_items(items):
    agg = {}
    for o, c in items:
        agg[int(o)] = agg.get(int(o), 0) + c
    t = sum(agg.values())
    if not t:
        return None  # the empty histogram: dropped by the mixture
    return {o: Fraction(c, t) for o, c in agg.items() if c}


class Reference:
    def __init__(self, case, built, fuel=40, budget=6000):
        self.case, self.b, self.fuel, self.budget = case, built, fuel, budget

    def ev(self, fi, sli, lim, depth, prec, inherited):
        """-> distribution dict (or None for the empty histogram)"""
        new = normalize(lim)
        if new is None:
            new = inherited if inherited is not None else ("i", 1)
        f = self.case["fns"][fi]
        if (new[0] == "i" and depth >= new[1]) or (new[0] == "q" and prec <= new[1]):
            return dist_of_items([(C.dec_out(o), c) for o, c in f["sentinel"]])
        self.budget -= 1
        if depth > self.fuel or self.budget < 0:
            raise Abort("too-deep")
        sl = self.case["srclists"][sli]
        tot = 1
        for s in sl["srcs"]:
            tot *= self.b.totals[s]
        tot = tot or 1
        sizes = self.b.sizes(fi)
        mix, weight = {}, Fraction(0)

        def rec(pos, ids, cnt):
            nonlocal weight
            if pos == len(sl["srcs"]):
                idx = 0
                for i, sz in zip(ids, sizes):
                    idx = idx * sz + i
                act = f["acts"][idx % len(f["acts"])]
                try:
                    d = self.act(act, depth + 1, prec * Fraction(cnt, tot), new)
                except Abort as a:
                    if a.what == "err RecursionError":
                        d = dist_of_items([(C.dec_out(o), c) for o, c in f["sentinel"]])
                    else:
                        raise
                if d is None or not cnt:
                    return
                weight += cnt
                self.budget -= len(d)
                if self.budget < 0:
                    raise Abort("too-deep")
                for o, p in d.items():
                    mix[o] = mix.get(o, 0) + p * cnt
                return
            for i, c in self.b.presented[sl["srcs"][pos]][0]:
                rec(pos + 1, ids + [i], cnt * c)

        rec(0, [], 1)
        if not weight:
            return None
        return {o: p / weight for o, p in mix.items() if p}

    def act(self, act, depth, prec, inherited):
        k = act[0]
        if k == "out":
            return {int(act[1]): Fraction(1)}
        if k == "hist":
            return dist_of_items(act[1])
        if k == "throw":
            raise Abort(exc_str(make_exc(act[1])))
        if k == "rec1":
            d = self.ev(act[1], act[2], act[3], depth, prec, inherited)
            return None if d is None else {o + act[4]: p for o, p in d.items()}
        d1 = self.ev(act[1], act[2], act[3], depth, prec, inherited)
        d2 = self.ev(act[4], act[5], act[6], depth, prec, inherited)
        if d1 is None or d2 is None:
            return None
        out = {}
        self.budget -= len(d1) * len(d2)
        if self.budget < 0:
            raise Abort("too-deep")
        for o1, p1 in d1.items():
            for o2, p2 in d2.items():
                out[o1 + o2] = out.get(o1 + o2, 0) + p1 * p2
        return out


def fmt_dist(d):
    if not d:
        return "ok total=0"
    L = 1
    for p in d.values():
        L = lcm(L, p.denominator)
    items = sorted((o, int(p * L)) for o, p in d.items())
    g = 0
    for _, c in items:
        g = gcd(g, c)
    items = [(o, c // g) for o, c in items]
    return "ok " + " ".join("%d:%d" % oc for oc in items) + " total=%d" % sum(c for _, c in items)


def spec_presented(src):
    """what a pool source must present, from first principles: every ascending-sorted roll of the
    Cartesian product (after the selection, in the order given) with its exact count"""
    import itertools

    dice = [C.dec_items(h) for h in src["dice"]]
    dice = [d for d in dice if sum(c for _, c in d)]
    # merge repeated outcomes of a die as the constructor does
    merged = []
    for d in dice:
        agg = {}
        for o, c in d:
            agg[o] = agg.get(o, 0) + c
        merged.append(list(agg.items()))
    n = len(merged)
    size = 1
    for d in merged:
        size *= len(d)
    if size > 20000:
        return None
    which = src.get("which")
    # PWithSelection(p, ()) passes no identifiers: rolls_with_counts() without arguments = whole rolls
    idxs = list(range(n)) if not which else gen.resolve_which(n, which)
    out = {}
    if n == 0 or (which and not idxs):
        return out
    for combo in itertools.product(*merged):
        cnt = 1
        for _, k in combo:
            cnt *= k
        if not cnt:
            continue
        srt = sorted(o for o, _ in combo)
        key = tuple(srt[j] for j in idxs)
        out[key] = out.get(key, 0) + cnt
    return out


def run_reference(case):
    b = Built(case)
    # pool sources must present exactly the rolls of the Cartesian product (C06: "present each
    # ascending-sorted roll (after any selection) weighted by its exact count")
    for si, src in enumerate(case["sources"]):
        if src["t"] == "p":
            try:
                want = spec_presented(src)
            except IndexError:
                want = None
            if want is not None:
                ids, table = b.presented[si]
                inv = {i: v for v, i in table.items()}
                got = {}
                for i, c in ids:
                    if c:
                        got[tuple(inv[i])] = got.get(tuple(inv[i]), 0) + c
                if got != want:
                    return "pool-source-%d-presents-%r-instead-of-%r" % (si, sorted(got.items())[:6], sorted(want.items())[:6])
    ref = Reference(case, b)
    outs = []
    for fi, sli, lim in case["calls"]:
        try:
            outs.append(fmt_dist(ref.ev(fi, sli, lim, 0, Fraction(1), None)))
        except Abort as a:
            if a.what == "too-deep":
                return None
            outs.append(a.what)
    return " ; ".join(outs)


# ---------------------------------------------------------------------------------------------
# generation
# ---------------------------------------------------------------------------------------------


def branch_estimate(case):
    """an upper bound on the number of callback invocations of one evaluation level (product over the sources of the
    number of results they can present; a pool presents at most the product of its dice's faces)"""
    worst = 0
    for sl in case["srclists"]:
        n = 1
        for si in sl["srcs"]:
            s = case["sources"][si]
            if s["t"] == "h":
                n *= max(1, len(s["items"]))
            else:
                k = 1
                for d in s["dice"]:
                    k *= max(1, len(d))
                n *= k
        worst = max(worst, n)
    return worst


def rand_source(rnd, small=True):
    r = rnd.random()
    if r < 0.55:
        items = gen.rand_h(rnd, 3, "int", allow_zero_total=rnd.random() < 0.06, counts=(0, 1, 1, 2, 3))
        if rnd.random() < 0.25:
            items = gen.scale_h(items, 2)
        return {"t": "h", "items": items}
    dice = gen.rand_pool(rnd, max_dice=3, max_faces=3, kind="int")[:3]
    if not dice:
        dice = [gen.rand_h(rnd, 2, "int")]
    n = len([d for d in dice if any(c for _, c in d)])
    if rnd.random() < 0.5:
        return {"t": "p", "dice": dice, "which": None}
    return {"t": "p", "dice": dice, "which": gen.rand_which(rnd, n, max_ids=2, allow_bad=False)}


def rand_limit(rnd, kinds=("none", "int", "frac", "float", "bad")):
    k = rnd.choice(kinds)
    if k == "none":
        return None
    if k == "int":
        return ["i", rnd.choice([0, 1, 1, 2, 2, 3, -1])] if rnd.random() < 0.9 else ["b", 1]
    if k == "frac":
        d = rnd.choice([2, 3, 4, 6, 8, 9, 12, 16, 18, 24, 27, 36, 64])
        return ["q", rnd.randint(1, d - 1), d]
    if k == "float":
        return ["f", repr(rnd.choice([0.5, 0.25, 0.3, 0.1, 0.7, 0.09, 0.6, 1 / 3, 0.125, 0.2]))]
    return rnd.choice([["i", -2], ["i", -5], ["q", 0, 1], ["q", 1, 1], ["q", 3, 2], ["q", -1, 2], ["f", "1.0"], ["f", "0.0"], ["f", "2.5"], ["f", "-0.5"]])
