"""C02 — P.rolls_with_counts equals brute-force enumeration for every selection."""
from __future__ import annotations

from collections import Counter

import common as C
import gen
from props import poolcommon as PC

RULE = (
    "cases = corpus + seeded random pools (0..5 dice; identical / proportional / overlapping / disjoint / zero-count "
    "histograms; int, negative, Fraction, bool, float outcomes) x selections from the grammar of gen.rand_which; "
    "distinct = distinct (canonical pool, selection); non-trivial = non-empty pool and the call does not raise"
)
TRUSTED = [
    "modelled, not verified: CPython slice.indices/range/sorted/itertools.product/groupby, math.comb, Fraction arithmetic",
    "outcomes reach the model through an order- and equality-preserving rank encoding (the theorems hold for any total order)",
]
ASSUMPTIONS = [
    "outcomes are totally ordered numbers (no sympy symbols, no NaN)",
    "the memo is cleared before every op (history effects are C13)",
]
EXPLANATION = "theorems rollsWithCounts_sel / rollsWithCounts_nosel: model = Cartesian-product spec for all pools and selections; correspondence ties the model to /repo"


def before_each(case):
    C.clear_caches()


def _setup(case):
    p = PC.build_pool(case)
    table = PC.pool_rank_table(p)
    enc = lambda o: C.rank_of(table, o)  # noqa
    return p, enc


def impl(case):
    p, enc = _setup(case)
    which = gen.which_to_py(case["which"])
    if case.get("prime"):
        # the same question is first put to pools that are == / hash-equal to p, die by die, without being p (every count
        # doubled; one die doubled): whatever they leave behind must not colour p's answer (C13 explores this at large)
        from dyce import H, P

        retyped = P(*[H({(float(o) if isinstance(o, int) and not isinstance(o, bool) else o): k for o, k in h.items()}) for h in p])
        for twin in (retyped, P(*[H({o: 2 * k for o, k in h.items()}) for h in p]), P(*([H({o: 2 * k for o, k in p[0].items()})] + list(p)[1:])) if len(p) else P()):
            try:
                list(twin.rolls_with_counts(*which))
            except IndexError:
                pass
    try:
        c = Counter()
        for roll, cnt in p.rolls_with_counts(*which):
            if not isinstance(cnt, int) or isinstance(cnt, bool):
                return "bad-count-type " + type(cnt).__name__
            if cnt < 0:
                return "negative-count"
            if cnt:
                c[tuple(enc(o) for o in roll)] += cnt
                if case.get("prime") and any(type(o) not in {type(x) for h in p for x in h} for o in roll):
                    return "roll-outcome-of-a-type-no-die-has"
    except IndexError:
        return "err IndexError"
    return PC.fmt_rolls(c)


def model(case):
    p, enc = _setup(case)
    if not PC.ascending(p):
        return None  # outside the theorems' hypothesis (DiceOK): the brute-force oracle decides
    return " ".join(["RWC"] + PC.pool_tokens(p, enc) + gen.which_tokens(case["which"]))


def oracle(case):
    p, enc = _setup(case)
    return PC.brute_rolls(p, case["which"], enc)


def classify(case, got):
    p, _ = _setup(case)
    return PC.strategy(p, case["which"])


def nontrivial(case, got):
    return bool(case["dice"]) and got.startswith("ok")


describe = PC.describe
shrink = PC.shrink_pool_case


def generate(rnd, tier, scale):
    n = int((1500 if tier == "quick" else 12000) * scale)
    for _ in range(max(20, n // 40)):
        dice = gen.rand_pool(rnd, max_dice=3, max_faces=4, kind=rnd.choice(["int", "neg"]))
        ncur = len([h for h in dice if any(c for _, c in h)])
        yield dict(dice=dice, which=gen.rand_which(rnd, ncur), mixed=True)
    for _ in range(n):
        big = tier == "thorough" and rnd.random() < 0.15
        dice = gen.rand_pool(rnd, max_dice=6 if big else 4, max_faces=5 if big else 4)
        if rnd.random() < 0.08:
            # counts whose products exceed 2**53 and do not reduce: every count is still exact
            bigs = [2**30 + 1, 2**30 - 1, 3**19, 2**61 - 1, 10**18 + 9]
            memo = {}
            dice = [[[o, memo.setdefault((o, c), c * rnd.choice(bigs)) if c else 0] for o, c in h] for h in dice]
        # len(P) may differ from len(dice) (zero-total dice are dropped), so size the selection on P
        ncur = len([h for h in dice if any(c for _, c in h)])
        yield dict(dice=dice, which=gen.rand_which(rnd, ncur), **({"prime": True} if rnd.random() < 0.2 else {}))
    if tier == "thorough":
        # exhaustive small scope: all pools of <= 3 dice over a catalogue x all selections of <= 2 identifiers, n <= 3
        cat = [h for h in gen.catalogue() if any(c for _, c in h)][:14]
        import itertools

        for k in (1, 2, 3):
            for combo in itertools.combinations_with_replacement(range(len(cat)), k):
                dice = [cat[i] for i in combo]
                ids = [["i", j] for j in range(-k, k)] + [
                    ["s", a, b, s] for a in (None, 0, 1, -1) for b in (None, 1, 2, -1) for s in (None, -1, 2)
                ]
                sels = [[x] for x in ids]
                sels += [[x, y] for x in ids[: 2 * k] for y in ids[: 2 * k + 6]]
                for w in sels[:: max(1, len(sels) // 40)] if k == 3 else sels:
                    yield dict(dice=dice, which=w)
        for _ in range(int(200 * scale)):  # large: model-only oracle
            h = gen.rand_h(rnd, max_faces=rnd.randint(4, 10), kind="int")
            nd = rnd.randint(6, 10)
            yield dict(dice=[h] * nd, which=gen.rand_which(rnd, nd, allow_bad=False))
