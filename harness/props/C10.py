"""C10 — H.roll and P.roll sample exactly the encoded distribution."""
from __future__ import annotations

import random
from collections import Counter

import common as C
import gen
from props import rollercommon as RC

RULE = (
    "cases = corpus + seeded: H.roll over histograms (weighted, zero-count faces, unreduced, zero-total, empty) and P.roll over "
    "pools (identical, proportional, same-outcomes-different-counts, disjoint dice) with EVERY answer path of a scripted "
    "dyce.rng.RNG explored and weighted by the weights the library passed; the requests themselves (population, weights, k, one "
    "per die in pool order) are checked; CPython's random.choices is compared with the model's bisect rule for every integer part "
    "of random()*total; generators swapped between calls / equally seeded generators; distinct = distinct case; non-trivial = >= 2 paths"
)
TRUSTED = [
    "CPython's random.choices is modelled (cumulative integer weights + bisect) and that model is itself checked against CPython here",
    "fairness of the real bit generator is assumed (the property's own premise)",
]
ASSUMPTIONS = ["integer outcomes in rolls"]
EXPLANATION = "theorems C10_choices_fair, C10_hroll_*, C10_proll_distribution, C10_proll_matches_rolls_with_counts, C10_one_draw_per_die, C10_stream_* (generator-threading view: one answer per die, rest of the stream untouched, equal streams reproduce the roll, same distribution as the weighted-list model)"


def _h(items, mixed=False):
    from dyce import H

    if mixed:
        # bare outcomes mixed with pairs: H falls back to natural_key ordering, so outcomes() need not be ascending
        return H([o if c == 1 else (o, c) for o, c in items])
    return H([(o, c) for o, c in items])


class _Fixed(random.Random):
    def __init__(self, value):
        super().__init__(0)
        self.value = value

    def random(self):
        return self.value


class _Seq(random.Random):
    """a generator whose `random()` lands in the middle of the scripted integer part `u` of `random() * total`"""

    def __init__(self, fracs):
        super().__init__(0)
        self.fracs = list(fracs)
        self.asked = 0

    def random(self):
        self.asked += 1
        return self.fracs.pop(0)


def impl(case):
    import dyce.rng
    from dyce import P

    k = case["k"]
    if k == "stream":
        p = P(*[_h(d) for d in case["dice"]])
        us = list(case["answers"])
        live = [h for h in p if h.total]
        gen = _Seq([(u + 0.5) / h.total for u, h in zip(us, live)] + [0.5] * (len(us) - len(live)))
        saved = dyce.rng.RNG
        try:
            dyce.rng.RNG = gen
            roll = p.roll()
        finally:
            dyce.rng.RNG = saved
        return "ok " + RC.show_vals(roll) + (" | " + " ".join(str(u) for u in us[gen.asked:])).rstrip()
    if k == "hroll":
        h = _h(case["h"], case.get("mixed", False))
        agg, flags = Counter(), set()
        for v, w, log in RC.explore(lambda: h.roll()):
            agg[RC.show_vals([v])] += w
            if h.total and (len(log) != 1 or log[0][0] != tuple(h.outcomes()) or log[0][1] != tuple(h.counts())):
                flags.add("unexpected-request")
            if not h.total and log:
                flags.add("request-on-zero-total")
            if h.total and h[v] == 0:
                flags.add("zero-count-outcome-returned")
        return RC.fmt_agg(agg) + (" FLAGS:" + ",".join(sorted(flags)) if flags else "")
    if k == "proll":
        p = P(*[_h(d) for d in case["dice"]])
        agg, flags = Counter(), set()
        for roll, w, log in RC.explore(lambda: p.roll()):
            agg[RC.show_vals(roll)] += w
            if len(log) != len(p) or any(l[0] != tuple(h.outcomes()) or l[1] != tuple(h.counts()) for l, h in zip(log, p)):
                flags.add("not-one-draw-per-die-in-pool-order")
            if list(roll) != sorted(roll):
                flags.add("roll-not-sorted")
        # the very counts rolls_with_counts enumerates
        C.clear_caches()
        rwc = Counter()
        for roll, cnt in p.rolls_with_counts():
            rwc[RC.show_vals(roll)] += cnt
        if len(p) and {k: v for k, v in rwc.items() if v} != dict(agg):
            flags.add("differs-from-rolls_with_counts")
        return RC.fmt_agg(agg) + (" FLAGS:" + ",".join(sorted(flags)) if flags else "")
    if k == "choices":
        ws = case["weights"]
        tot = sum(ws)
        picks = []
        for u in range(tot):
            r = _Fixed((u + case.get("frac", 0.5)) / tot)
            picks.append(r.choices(range(len(ws)), weights=ws, k=1)[0])
        return ("ok " + " ".join(str(x) for x in picks)).strip()
    if k == "swap":
        h = _h(case["h"])
        p = P(*[_h(d) for d in case["dice"]])
        saved = dyce.rng.RNG
        flags = []
        try:
            a, b = RC.Scripted(), RC.Scripted()
            dyce.rng.RNG = a
            h.roll()
            p.roll()
            na = len(a.log)
            dyce.rng.RNG = b  # installed AFTER the objects were built and already rolled once
            h.roll()
            p.roll()
            if len(a.log) != na or len(b.log) != na or na != (1 if h.total else 0) + len(p):
                flags.append("generator-not-looked-up-at-call-time a=%d b=%d" % (len(a.log), len(b.log)))
            for mk in (lambda: random.Random(case["seed"]), lambda: dyce.rng.PCG64DXSMRandom(case["seed"]) if hasattr(dyce.rng, "PCG64DXSMRandom") else random.Random(case["seed"])):
                dyce.rng.RNG = mk()
                r1 = [(h.roll(), p.roll()) for _ in range(5)]
                dyce.rng.RNG = mk()
                r2 = [(h.roll(), p.roll()) for _ in range(5)]
                if r1 != r2:
                    flags.append("equally-seeded-generators-differ")
        finally:
            dyce.rng.RNG = saved
        return "ok same" + (" FLAGS:" + ",".join(flags) if flags else "")
    raise KeyError(k)


def model(case):
    k = case["k"]
    if k == "hroll":
        return " ".join(["ROLLVALS", "1"] + RC.hist_tokens(case["h"]))
    if k == "proll":
        from dyce import P

        p = P(*[_h(d) for d in case["dice"]])
        toks = [str(len(p))]
        for h in p:
            toks += RC.hist_tokens(list(h.items()))
        return " ".join(["PROLL"] + toks)
    if k == "stream":
        from dyce import P

        p = P(*[_h(d) for d in case["dice"]])
        toks = [str(len(p))]
        for h in p:
            toks += RC.hist_tokens(list(h.items()))
        return " ".join(["PROLLS"] + toks + [str(len(case["answers"]))] + [str(u) for u in case["answers"]])
    if k == "choices":
        return " ".join(["PICKALL", str(len(case["weights"]))] + [str(w) for w in case["weights"]])
    return None


def model_post(case, out):
    return " ".join(out.split())


def oracle(case):
    k = case["k"]
    if k == "hroll":
        agg = Counter()
        for o, c in case["h"]:
            agg[o] += c
        pos = {o: c for o, c in agg.items() if c}
        return RC.fmt_agg(Counter({RC.show_vals([o]): c for o, c in (pos or {0: 1}).items()}))
    if k == "proll":
        return RC.fmt_agg(Counter({RC.show_vals(kk): w for kk, w in RC.denote(["valp", [d for d in case["dice"] if sum(c for _, c in d)]]).items()}))
    if k == "choices":
        picks = []
        for i, w in enumerate(case["weights"]):
            picks += [i] * w
        return ("ok " + " ".join(str(x) for x in picks)).strip()
    if k == "stream":
        from dyce import P

        # first principles: the u-th entry of the die's faces written out count times each, one answer per live die
        kept = list(P(*[_h(d) for d in case["dice"]]))  # P's constructor drops empty dice (C05 / C19 territory)
        live = [hh for hh in kept if hh.total]
        faces = []
        for u, hh in zip(case["answers"], live):
            faces.append([o for o, c in sorted(hh.items()) for _ in range(c)][u])
        n0 = len(kept) - len(live)
        return "ok " + RC.show_vals(sorted(faces + [0] * n0)) + (" | " + " ".join(str(u) for u in case["answers"][len(live):])).rstrip()
    return "ok same"


def classify(case, got):
    return case["k"]


def nontrivial(case, got):
    return got.startswith("ok") and (got.count("*") >= 2 or case["k"] in ("choices", "swap", "stream"))


def describe(case):
    return case


def shrink(case):
    if case["k"] == "stream":
        return  # the scripted answers are tied to the dice (one in-range answer per live die)
    for key in ("h",):
        if key in case:
            h = case[key]
            for j in range(len(h)):
                if len(h) > 1:
                    yield dict(case, **{key: h[:j] + h[j + 1 :]})
    if "dice" in case:
        d = case["dice"]
        for j in range(len(d)):
            if len(d) > 1:
                yield dict(case, dice=d[:j] + d[j + 1 :])
        for j, h in enumerate(d):
            for i in range(len(h)):
                if len(h) > 1:
                    yield dict(case, dice=d[:j] + [h[:i] + h[i + 1 :]] + d[j + 1 :])


def _rand_h(rnd):
    k = rnd.randint(1, 4)
    items = [[o, rnd.choice([0, 0, 1, 1, 2, 3])] for o in sorted(rnd.sample(range(-2, 7), k))]
    if rnd.random() < 0.25:
        # total equal to the number of faces although counts are not all 1
        items = [[o, 0] for o, _ in items]
        items[-1][1] = len(items)
    if rnd.random() < 0.2:
        items = [[o, c * 2] for o, c in items]
    if rnd.random() < 0.12:
        # totals far beyond 2**53: the weights handed to the generator must still be the exact counts
        big = 2 ** rnd.choice([53, 54, 60, 70, 100])
        j = rnd.randrange(len(items))
        items = [[o, c * big if (i == j or rnd.random() < 0.3) else c] for i, (o, c) in enumerate(items)]
        if not items[j][1]:
            items[j][1] = big
    return items


def generate(rnd, tier, scale):
    n = int((700 if tier == "quick" else 7000) * scale)
    for _ in range(n):
        r = rnd.random()
        if r < 0.35:
            yield dict(k="hroll", h=_rand_h(rnd) if rnd.random() < 0.95 else [], **({"mixed": True} if rnd.random() < 0.15 else {}))
        elif r < 0.8:
            nd = rnd.randint(0, 3)
            base = _rand_h(rnd)
            dice = []
            for _ in range(nd):
                t = rnd.random()
                if t < 0.3:
                    dice.append(base)
                elif t < 0.55:
                    dice.append([[o, rnd.choice([1, 2, 3])] for o, _ in base])  # same outcomes, other counts
                elif t < 0.7:
                    dice.append([[o, c * 2] for o, c in base])
                else:
                    dice.append(_rand_h(rnd))
            yield dict(k="proll", dice=dice)
        elif r < 0.86:
            # one scripted answer per die (pool order as P sorts its dice) plus answers that must be left untouched
            from dyce import P

            dice = [[[o, c] for o, c in _rand_h(rnd)] for _ in range(rnd.randint(1, 4))]
            dice = [[[o, c if c < 2**40 else c % 7 + 1] for o, c in d] for d in dice]
            live = [h for h in P(*[_h(d) for d in dice]) if h.total]
            yield dict(k="stream", dice=dice, answers=[rnd.randrange(h.total) for h in live] + [rnd.randrange(9) for _ in range(rnd.randint(0, 2))])
        elif r < 0.92:
            yield dict(k="choices", weights=[rnd.choice([0, 0, 1, 1, 2, 3, 5]) for _ in range(rnd.randint(1, 6))] + [1], frac=rnd.choice([0.001, 0.5, 0.999]))  # never exactly on a boundary: u/tot*tot is not u in floats
        else:
            yield dict(k="swap", h=_rand_h(rnd), dice=[_rand_h(rnd) for _ in range(rnd.randint(1, 3))], seed=rnd.choice([0, 0, rnd.randint(0, 10**6)]))
