"""C16 — distribution and summary statistics are consistent with the counts."""
from __future__ import annotations

import math
from collections import Counter
from fractions import Fraction

import common as C
import gen

RULE = (
    "cases = corpus + seeded: histograms with int / Fraction / bool outcomes and any counts (scaled, zero-padded, zero-total, empty): "
    "distribution() (order, exact probabilities, sum 1), distribution(rational_t) (receives exactly (count, total)), distribution_xy, "
    "mean, variance (with and without mu), stdev; pairs for the additivity of mean and variance of a+b; distinct = distinct case; "
    "non-trivial = positive total and >= 2 outcomes"
)
TRUSTED = [
    "float results are compared with the model's exact rational within 1e-9 relative error (float rounding and sqrt are outside the proof)",
    "Fraction outcomes are compared exactly",
]
ASSUMPTIONS = ["outcomes are int, bool or Fraction (no float outcomes in this check)"]
EXPLANATION = "theorems C16_* over ℚ (distribution sums to 1, scale / zero-pad invariance, E[X²]−E[X]², additivity); correspondence against the compiled Rat model"

TOL = 1e-9


def _exact(items):
    agg = Counter()
    for o, c in items:
        agg[Fraction(o)] += c
    T = sum(agg.values())
    t = T or 1
    mean = sum(o * c for o, c in agg.items()) / Fraction(t)
    e2 = sum(o * o * c for o, c in agg.items()) / Fraction(t)
    return agg, T, mean, e2


def _snap(x, exact, must_be_exact=False):
    """floats within tolerance of the exact value print as the exact value; with rational (Fraction) outcomes the
    result must BE the exact rational"""
    if must_be_exact and not isinstance(x, (Fraction, int)):
        return "inexact:" + repr(x)
    if isinstance(x, Fraction) or (isinstance(x, int) and not isinstance(x, bool)):
        return C.frac_str(x)
    if isinstance(x, float):
        ex = float(exact)
        if math.isfinite(x) and abs(x - ex) <= TOL * max(1.0, abs(ex)):
            return C.frac_str(exact)
        return "float:" + repr(x)
    return "?" + repr(x)


def _hist(case):
    from dyce import H

    if case["k"] == "add":
        return C.dec_h(case["a"]) + C.dec_h(case["b"])
    if case.get("mixed"):
        # bare outcomes mixed with (outcome, count) pairs: H falls back to natural_key ordering, so the stored order
        # need not be ascending — distribution() must still be
        return H([C.dec_out(o) if c == 1 else (C.dec_out(o), c) for o, c in case["h"]])
    h = C.dec_h(case["h"])
    if case.get("twin_first") and all(c < 2**50 for c in h.counts()):  # (float outcomes times astronomically large counts overflow: float arithmetic, not asked here)
        # an == / hash-equal histogram with float outcomes is asked first: nothing it computed may leak into h's answers
        t = H([(float(o), 2 * c) for o, c in h.items()])
        try:
            _ = (t.mean(), t.variance(), list(t.distribution()), t.distribution_xy(), t.stdev() if t.total else None)
        except (ValueError, OverflowError, ZeroDivisionError):
            pass  # the float twin's own arithmetic (cancellation can make its variance slightly negative) is not judged
    return h


def _spec_items(case):
    if case["k"] == "add":
        a, b = C.dec_items(case["a"]), C.dec_items(case["b"])
        return [(x + y, cx * cy) for x, cx in a for y, cy in b]
    return C.dec_items(case["h"])


def impl(case):
    h = _hist(case)
    agg, T, mean, e2 = _exact(_spec_items(case))
    mu = None if case.get("mu") is None else C.dec_out(case["mu"])
    m_used = mean if not mu else Fraction(mu)
    var = e2 - m_used * m_used
    # E[X] and E[X^2]-E[X]^2 are computed "exactly for rational outcomes": any Fraction outcome (and no float) makes
    # the library's arithmetic exact, so the answer must be the exact rational, not a float near it
    rational = any(isinstance(o, Fraction) for o in h) and not any(isinstance(o, float) for o in h) and not isinstance(mu, float)
    out = ["ok", "mean=" + _snap(h.mean(), mean, rational), "var=" + _snap(h.variance(mu) if mu is not None else h.variance(), var, rational)]
    dist = list(h.distribution())
    out.append("dist=" + ",".join("%s@%s" % (C.frac_str(o), C.frac_str(p)) for o, p in dist))
    out.append("sum=" + C.frac_str(sum(p for _, p in dist)) if dist else "sum=0/1")
    flags = []
    if any(not isinstance(p, Fraction) for _, p in dist):
        flags.append("dist-not-fraction")
    pairs = list(h.distribution(rational_t=lambda n, d: (n, d)))
    if [p for _, p in pairs] != [(c, T or 1) for _, c in sorted(agg.items())] or [o for o, _ in pairs] != [o for o, _ in dist]:
        # the custom rational type must receive exactly (count, total)
        flags.append("rational_t-args=%r" % ([p for _, p in pairs],))
    xy = h.distribution_xy()
    if dist:
        xs, ys = xy
        # "the same values as floats": the correctly rounded float of the exact probability, bit for bit
        if list(xs) != [o for o, _ in dist] or any(not isinstance(y, float) or y != float(Fraction(c, T or 1)) for y, (_, c) in zip(ys, sorted(agg.items()))):
            flags.append("xy-mismatch")
    elif xy != ():
        flags.append("xy-nonempty")
    sd = (h.stdev(mu) if mu is not None else h.stdev()) if var >= 0 else 0.0
    if var >= 0 and abs(sd - math.sqrt(float(var))) > 1e-7 * max(1.0, math.sqrt(float(var))):
        flags.append("stdev=%r" % sd)
    return " ".join(out + flags)


def model(case):
    items = _spec_items(case)
    # the model takes the histogram as H.__init__ leaves it (ascending, merged)
    agg = Counter()
    for o, c in items:
        agg[Fraction(o)] += c
    toks = [str(len(agg))]
    for o, c in sorted(agg.items()):
        toks += [str(o.numerator), str(o.denominator), str(c)]
    mu = case.get("mu")
    if mu is None:
        toks += ["0", "0", "1"]
    else:
        m = Fraction(C.dec_out(mu))
        toks += ["1", str(m.numerator), str(m.denominator)]
    return " ".join(["STATS"] + toks)


def model_post(case, out):
    if "dist= " in out or out.endswith("dist="):
        out = out.replace("sum=0/1", "sum=0/1")
    return " ".join(out.split())


def oracle(case):
    agg, T, mean, e2 = _exact(_spec_items(case))
    mu = None if case.get("mu") is None else C.dec_out(case["mu"])
    m_used = mean if not mu else Fraction(mu)
    var = e2 - m_used * m_used
    t = T or 1
    dist = [(o, Fraction(c, t)) for o, c in sorted(agg.items())]
    return " ".join(
        [
            "ok",
            "mean=" + C.frac_str(mean),
            "var=" + C.frac_str(var),
            "dist=" + ",".join("%s@%s" % (C.frac_str(o), C.frac_str(p)) for o, p in dist),
            "sum=" + C.frac_str(sum(p for _, p in dist)),
        ]
    )


def classify(case, got):
    if case["k"] == "add":
        return "add"
    kinds = {o.split(":")[0] for o, _ in case["h"]}
    return "stats/" + "+".join(sorted(kinds)) + ("/mu" if case.get("mu") is not None else "")


def nontrivial(case, got):
    return got.startswith("ok") and got.count("@") >= 2


def describe(case):
    return case


def shrink(case):
    for key in ("h", "a", "b"):
        if key in case:
            h = case[key]
            for j in range(len(h)):
                if len(h) > 1:
                    yield dict(case, **{key: h[:j] + h[j + 1 :]})
            for j, (o, c) in enumerate(h):
                if c > 1:
                    yield dict(case, **{key: h[:j] + [[o, 1]] + h[j + 1 :]})


def generate(rnd, tier, scale):
    n = int((1200 if tier == "quick" else 12000) * scale)
    for _ in range(n):
        kind = rnd.choice(["int", "neg", "frac", "bool"])
        h = gen.rand_h(rnd, 5, kind, allow_zero_total=rnd.random() < 0.12, counts=(0, 1, 1, 2, 3, 4, 6))
        if rnd.random() < 0.08:
            h = []
        if rnd.random() < 0.25:
            h = gen.scale_h(h, rnd.choice([2, 3, 10, 3**40, 7 * 10**30, 10**400]))
        if h and rnd.random() < 0.12:
            # totals beyond 10**12 that do not reduce: probabilities are still exactly count/total
            j = rnd.randrange(len(h))
            h = [[o, rnd.choice([10**13 + 1, 2**61 - 1, 3**40 + 2, 6**16]) if i == j else c] for i, (o, c) in enumerate(h)]
        if h and rnd.random() < 0.25 and kind == "frac":  # (exact arithmetic only: in floats the formula itself cancels)
            # a large mean with a small spread: E[X^2] and E[X]^2 agree to many digits, the variance is still their difference
            off = rnd.choice([10**6, 10**9, -(10**7), 10**12])
            from fractions import Fraction as _F

            h = [[C.enc_out(C.dec_out(o) + (off if kind != "frac" else _F(off))), c] for o, c in h]
        extra = {}
        if rnd.random() < 0.15:
            extra = {"mixed": True} if rnd.random() < 0.5 and kind in ("int", "neg") else {"twin_first": True}
        r = rnd.random()
        if r < 0.75:
            mu = None
            if rnd.random() < 0.3:
                mu = rnd.choice(["i:0", "i:2", "q:1/2", "i:-1"]) if kind != "frac" else rnd.choice(["q:0/1", "q:3/2", "q:-1/3"])
            yield dict(k="stats", h=h, mu=mu, **extra)
        else:
            b = gen.rand_h(rnd, 4, kind if kind != "bool" else "int", counts=(0, 1, 2, 3))
            yield dict(k="add", a=h, b=b, mu=None)
