"""C11 — roller trees produce exactly the distribution their expression denotes."""
from __future__ import annotations

from collections import Counter

import common as C
from props import rollercommon as RC

RULE = (
    "cases = corpus + seeded roller trees (size <= 6 quick / <= 8 thorough) over leaves (scalars, weighted / zero-count / unreduced "
    "histograms, homogeneous pools) and value, pool, repeat, binary (+ - * // % ** & | ^ lt le eq ne ge gt; divisors never 0, exponents 0..3), unary (neg abs pos invert is_even is_odd), each through the operator / reflected-scalar / method / map spelling, scalar-with-RollOutcome operators inside umap (both sides), selection (index / "
    "slice grammar), filter (4 predicates) and substitution (re-roll a roller, REPLACE/APPEND, max_depth 0..2) nodes; EVERY random "
    "choice path of r.roll() is explored through a scripted dyce.rng.RNG, weighted by the weights the library passed; distinct = "
    "distinct tree; non-trivial = >= 2 choice paths and an inner node"
)
TRUSTED = [
    "random choices are enumerated by replacing dyce.rng.RNG with a scripted random.Random whose choices() is driven by an odometer",
    "operators / predicates come from a fixed vocabulary implemented on both sides (Int arithmetic)",
]
ASSUMPTIONS = ["integer outcomes; selections are valid on every choice path"]
EXPLANATION = "theorem C11_values_fusion (mapW values (rollW r) = den r for every tree, path by path) + C10 for leaves; ROLLVALS and DENVALS of the model must agree with each other, with /repo and with a plain-Python denotation"


def _h_of(tree):
    """the same expression with H / P, for the enumerable fragment (else None)"""
    from dyce import H, P

    t = tree[0]
    if t == "val":
        return H({tree[1]: 1})
    if t == "valh":
        h = H([(o, c) for o, c in tree[1]])
        return h if h.total else H({0: 1})
    if t == "valp":
        return P(*[H([(o, c) for o, c in h]) for h in tree[1]]).h()
    if t == "pool":
        hs = [_h_of(s) for s in tree[1]]
        if any(h is None for h in hs):
            return None
        acc = H({0: 1})
        for h in hs:
            acc = acc + h
        return acc
    if t == "rep":
        h = _h_of(tree[2])
        if h is None:
            return None
        return (tree[1] @ h) if tree[1] else H({0: 1})
    if t == "bin":
        l, r = _h_of(tree[2]), _h_of(tree[3])
        if l is None or r is None:
            return None
        try:
            return l.map(lambda a, b: RC.BIN_INT[tree[1]](a, b), r)
        except ZeroDivisionError:
            return None  # H.map also applies the operator to zero-count outcomes; the roller never draws them
    if t == "un":
        h = _h_of(tree[2])
        return None if h is None else h.umap(RC.UN_INT[tree[1]])
    if t == "unb":
        h = _h_of(tree[4])
        if h is None:
            return None
        f, k = RC.BIN_INT[tree[1]], tree[2]
        try:
            return h.umap((lambda a: f(a, k)) if tree[3] == 0 else (lambda a: f(k, a)))
        except ZeroDivisionError:
            return None
    if t == "sel":
        dice = []
        for s in tree[2]:
            if s[0] == "valh" and sum(c for _, c in s[1]):
                dice.append(H([(o, c) for o, c in s[1]]))
            elif s[0] == "val":
                dice.append(H({s[1]: 1}))
            else:
                return None
        import gen

        if not dice:
            return None
        if not tree[1]:
            return H({0: 1})  # nothing selected: the total is 0 (P.h() without arguments would mean "everything")
        h = P(*dice).h(*gen.which_to_py(tree[1]))
        return h if h.total else H({0: 1})
    return None


def impl(case):
    r = RC.build(case["tree"])
    agg, tot = Counter(), Counter()
    for roll, w, log in RC.explore(lambda: r.roll()):
        vals = tuple(roll.outcomes())
        agg[RC.show_vals(vals)] += w
        tot[sum(vals)] += w
        if roll.total() != sum(vals):
            return "total-mismatch"
    out = RC.fmt_agg(agg)
    h = _h_of(case["tree"])
    if h is not None:
        # exact proportionality of the total's distribution and the H/P expression
        W, T = sum(tot.values()), h.total
        if T == 0 or any(tot[o] * T != h.get(o, 0) * W for o in set(tot) | set(h)):
            out += " hOf-mismatch(%s)" % dict(h)
    return out


def model(case):
    if RC.has_kind(case["tree"], "filtsrc"):
        return None  # a predicate on the outcome's origin is outside the model's vocabulary: the plain denotation decides
    toks = RC.tokens(case["tree"])
    return [" ".join(["ROLLVALS"] + toks), " ".join(["DENVALS"] + toks)]


def model_post(case, out):
    parts = [" ".join(p.split()) for p in out.split(" || ")]
    if parts[0] != parts[1]:
        return "model-inconsistent " + " || ".join(parts)
    return parts[0]


def oracle(case):
    d = RC.denote(case["tree"])
    return RC.fmt_agg(Counter({RC.show_vals(k): w for k, w in d.items()}))


def classify(case, got):
    def kinds(t, acc):
        acc.add(t[0])
        for x in t[1:]:
            if isinstance(x, list) and x and isinstance(x[0], str) and x[0] in RC.KINDS:
                kinds(x, acc)
            elif isinstance(x, list):
                for y in x:
                    if isinstance(y, list) and y and isinstance(y[0], str) and y[0] in RC.KINDS:
                        kinds(y, acc)
        return acc

    return case["tree"][0] + "/" + "+".join(sorted(kinds(case["tree"], set()) - {case["tree"][0]}))


def nontrivial(case, got):
    return got.startswith("ok") and got.count("*") >= 2 and case["tree"][0] not in ("val", "valh", "valp")


def describe(case):
    return case


def shrink(case):
    t = case["tree"]

    def subtrees(t):
        if t[0] in ("pool",):
            yield from t[1]
        elif t[0] == "rep":
            yield t[2]
        elif t[0] == "bin":
            yield t[2]
            yield t[3]
        elif t[0] == "un":
            yield t[2]
        elif t[0] == "filt":
            yield from t[3]
        elif t[0] == "sel":
            yield from t[2]
        elif t[0] == "subst":
            yield t[6]
            yield t[3]
        elif t[0] == "substmap":
            yield t[6]
        elif t[0] == "filtsrc":
            yield from t[2]
        elif t[0] == "unb":
            yield t[4]
        elif t[0] == "unc":
            yield t[2]
            if len(t[1]) > 1:
                for j in range(len(t[1])):
                    yield ["unc", t[1][:j] + t[1][j + 1 :], t[2]]

    for s in subtrees(t):
        yield dict(case, tree=s)
    if t[0] == "valh" and len(t[1]) > 1:
        for j in range(len(t[1])):
            yield dict(case, tree=["valh", t[1][:j] + t[1][j + 1 :]])


def generate(rnd, tier, scale):
    n = int((1200 if tier == "quick" else 12000) * scale)
    made = tries = 0
    while made < n and tries < 40 * n:
        tries += 1
        size = rnd.choice([2, 3, 3, 4, 5, 6] if tier == "quick" else [2, 3, 4, 5, 6, 7, 8])
        try:
            tree = RC.fix_selections(rnd, RC.rand_tree(rnd, size))
            d = RC.denote(tree)
        except (IndexError, RecursionError, RC.TooBig, ZeroDivisionError):
            continue
        try:
            if sum(1 for _ in d) > 400 or RC.count_paths(tree) > (1500 if tier == "quick" else 2500):
                continue
        except RC.TooBig:
            continue
        made += 1
        yield dict(tree=tree)
