"""C07 — recursion limits cut expansion exactly where documented."""
from __future__ import annotations

import common as C
import gen
from props import evalcommon as E

RULE = (
    "cases = corpus + seeded recursive programs: 1..2 decorated functions whose finite-state callbacks return an outcome, a "
    "histogram, or the recursive evaluation of some sources combined with a constant or with another recursive evaluation, over "
    "1..2 sources of any kind, x integral limits (0..3, -1, True), fractional limits (Fraction and float, incl. values equal to a "
    "path probability), inherited and overridden limits, illegal limits, several sentinels; programs that do not terminate under "
    "their limits are discarded by the reference evaluator; distinct = distinct program; non-trivial = some branch recurses and "
    "the result has >= 2 outcomes"
)
TRUSTED = [
    "pool sources are presented to the model with the (roll, count) entries of the implementation's own rolls_with_counts (C02)",
    "float limits are converted to their exact binary value (Fraction(float)), as the library documents",
    "the interpreter stack is a fuel parameter of the model (RecursionError from real stack exhaustion is not reproduced)",
]
ASSUMPTIONS = ["integer outcomes; programs terminate within depth 60 under their limits"]
EXPLANATION = "theorems C07_refines_spec (ContextVar implementation = stateless spec with explicit depth/precision), C07_cut_rule, C07_limit_*, C07_normalize_*"

impl = E.run_impl
model = E.model_line
model_post = E.model_post
oracle = E.run_reference


def classify(case, got):
    lim = case["calls"][0][2]
    lk = "none" if lim is None else lim[0]
    rec = any(a[0].startswith("rec") for f in case["fns"] for a in f["acts"])
    return "%s/%s/%dsrc" % (lk, "rec" if rec else "flat", len(case["srclists"][0]["srcs"]))


def nontrivial(case, got):
    rec = any(a[0].startswith("rec") for f in case["fns"] for a in f["acts"])
    return rec and got.startswith("ok") and got.count(":") >= 2


def describe(case):
    return case


def shrink(case):
    for fi, f in enumerate(case["fns"]):
        acts = f["acts"]
        for j, a in enumerate(acts):
            if a[0] != "out":
                a2 = list(acts)
                a2[j] = ["out", 0]
                fns = list(case["fns"])
                fns[fi] = dict(f, acts=a2)
                yield dict(case, fns=fns)
        if len(acts) > 1:
            fns = list(case["fns"])
            fns[fi] = dict(f, acts=acts[:-1])
            yield dict(case, fns=fns)
    for si, s in enumerate(case["sources"]):
        if s["t"] == "h" and len(s["items"]) > 1:
            for j in range(len(s["items"])):
                srcs = list(case["sources"])
                srcs[si] = dict(s, items=s["items"][:j] + s["items"][j + 1 :])
                yield dict(case, sources=srcs)


def rand_act(rnd, nfn, nsl, recursive_bias=0.45):
    r = rnd.random()
    if r < recursive_bias:
        lim = None if rnd.random() < 0.7 else E.rand_limit(rnd, ("int", "frac", "bad") if rnd.random() < 0.15 else ("int", "frac"))
        if rnd.random() < 0.8:
            return ["rec1", rnd.randrange(nfn), rnd.randrange(nsl), lim, rnd.randint(-1, 3)]
        return ["rec2", rnd.randrange(nfn), rnd.randrange(nsl), lim, rnd.randrange(nfn), rnd.randrange(nsl), None]
    if r < 0.8:
        return ["out", rnd.randint(-2, 5)]
    if r < 0.83:
        return ["throw", 0]  # the stack gives out in THIS branch: it alone becomes the sentinel (documented)
    if r < 0.87:
        return ["hist", []]
    return ["hist", [[o, rnd.choice([0, 1, 2, 3])] for o in rnd.sample(range(-1, 6), rnd.randint(1, 3))]]


def rand_program(rnd, throw=False):
    nsrc = rnd.randint(1, 3)
    sources = [E.rand_source(rnd) for _ in range(nsrc)]
    # all source lists share one shape (so any function can be called on any of them)
    arity = rnd.choice([1, 1, 2]) if nsrc >= 2 else 1
    nsl = rnd.randint(1, 2)
    base = [rnd.randrange(nsrc) for _ in range(arity)]
    srclists = [{"srcs": base, "nkw": rnd.randint(0, arity)}]
    for _ in range(nsl - 1):
        # another list with the same sources in the same positions (ids must stay meaningful) but another kw split
        srclists.append({"srcs": base, "nkw": rnd.randint(0, arity)})
    nfn = rnd.randint(1, 2)
    fns = []
    for _ in range(nfn):
        sent = rnd.choice([[["i:0", 1]], [["i:0", 1]], [["i:-1", 1], ["i:7", 2]], [], [["i:3", 2]]])
        acts = [rand_act(rnd, nfn, nsl) for _ in range(rnd.choice([2, 3, 4, 6]))]
        fns.append({"sentinel": sent, "shape": 0, "acts": acts})
    return sources, srclists, fns


def path_limits(rnd, case):
    """fractional limits equal to (or next to) actual path probabilities"""
    from fractions import Fraction

    b = E.Built(case)
    sl = case["srclists"][0]
    tot = 1
    for s in sl["srcs"]:
        tot *= b.totals[s]
    tot = tot or 1
    probs = set()
    cnts = [1]
    for s in sl["srcs"]:
        cnts = [c * k for c in cnts for _, k in b.presented[s][0]]
    for c in cnts:
        for d in (1, 2):
            p = Fraction(c, tot) ** d
            if 0 < p < 1:
                probs.add(p)
    if not probs:
        return None
    p = rnd.choice(sorted(probs))
    return ["q", p.numerator, p.denominator]


def generate(rnd, tier, scale):
    n = int((500 if tier == "quick" else 5000) * scale)
    made = 0
    tries = 0
    while made < n and tries < 20 * n:
        tries += 1
        sources, srclists, fns = rand_program(rnd)
        lim = E.rand_limit(rnd, ("none", "int", "int", "frac", "frac", "float", "bad"))
        case = dict(k="prog", sources=sources, srclists=srclists, fns=fns, calls=[[0, 0, lim]])
        if lim is not None and lim[0] in ("q", "f") and rnd.random() < 0.65:
            pl = path_limits(rnd, case)
            if pl:
                if lim[0] == "f":
                    # the float nearest to a path probability (usually not equal to it: 0.3 < 3/10)
                    pl = ["f", repr(pl[1] / pl[2])]
                case["calls"] = [[0, 0, pl]]
        if rnd.random() < 0.25:
            # the same program through evaluation.foreach (one callable object for every function), and a second
            # evaluation of the other function cut at depth 0: its own sentinel alone
            case["via"] = "foreach"
            case["calls"] = case["calls"] + [[len(fns) - 1, 0, ["i", 0]], [0, 0, ["i", 0]]]
        if rnd.random() < 0.2:
            case["prime"] = True
        try:
            if E.run_reference(case) is None:
                continue  # does not terminate under its limits
        except RecursionError:
            continue
        made += 1
        yield case
