"""C08 — explode and substitute equal the truncated re-roll process."""
from __future__ import annotations

import math
import warnings
from fractions import Fraction

import common as C
import gen
from props import evalcommon as E

RULE = (
    "cases = corpus + seeded: evaluation.explode / H.explode / P.explode over histograms (weighted, unreduced, zero-count faces, "
    "negative faces, single-faced, empty) x predicates enumerated as face subsets (and the default 'max face') x integral limits "
    "0..4 and fractional limits (Fraction and float, incl. exact path probabilities); H.substitute / P.substitute over expand "
    "tables (face -> outcome | histogram from a finite family, incl. one-faced histograms) x coalesce in {replace, add} x "
    "max_depth / precision_limit; both limits at once (incl. falsy max_depth); distinct = distinct case; non-trivial = some face "
    "explodes / expands and the limit allows at least one re-roll"
)
TRUSTED = [
    "the model runs explode/substitute as programs of the proved evaluator model (callbacks as tables over faces)",
    "the single-face fractional-limit extrapolation to ±inf is judged by the Python oracle only (inf is not an integer outcome)",
]
ASSUMPTIONS = ["integer faces; predicates depend on the face (and its histogram) only"]
EXPLANATION = "theorem C08_explode_eq_spec (+ C07_refines_spec, C06 aggregate) for the model; correspondence of the real explode/substitute entry points with it; direct re-roll oracle"


# ---- the truncated re-roll process, from the sentence of the property ----------------------------


def _dist(items):
    return E.dist_of_items(items)


def _limit(case):
    return E.normalize(case.get("limit"))


def spec_explode(h_items, pred_faces, lim):
    """distribution of the running total: re-roll and add while the predicate holds and the limit allows"""
    h = _dist(h_items)
    if h is None:
        return None
    lim = lim or ("i", 1)
    budget = [20000]

    def cut(depth, prec):
        return (lim[0] == "i" and depth >= lim[1]) or (lim[0] == "q" and prec <= lim[1])

    def roll(depth, prec):
        if cut(depth, prec):
            return dict(h)  # the last roll is kept as is
        budget[0] -= 1
        if budget[0] < 0 or depth > 60:
            raise E.Abort("too-deep")
        out = {}
        for f, p in h.items():
            if f in pred_faces:
                sub = roll(depth + 1, prec * p)
                for o, q in sub.items():
                    out[o + f] = out.get(o + f, 0) + p * q
            else:
                out[f] = out.get(f, 0) + p
        return out

    return roll(0, Fraction(1))


def spec_substitute(family, start, table, coalesce, lim):
    """bounded recursion with the coalesce function applied to each expanded branch"""
    h0 = _dist(family[start])
    if h0 is None:
        return None
    lim = lim or ("i", 1)
    budget = [20000]

    def ev(hi, depth, prec):
        if (lim[0] == "i" and depth >= lim[1]) or (lim[0] == "q" and prec <= lim[1]):
            return dict(h0)  # the sentinel is the histogram substitute was called on
        budget[0] -= 1
        if budget[0] < 0 or depth > 60:
            raise E.Abort("too-deep")
        h = _dist(family[hi])
        if h is None:
            return None
        out, weight = {}, Fraction(0)
        faces = sorted({o for o, _ in family[hi]})
        for f, p in h.items():
            act = table[hi][faces.index(f) % len(table[hi])]
            if act[0] == "out":
                out[act[1]] = out.get(act[1], 0) + p
                weight += p
            else:
                sub = ev(act[1], depth + 1, prec * p)
                if sub is None:
                    continue
                weight += p
                for o, q in sub.items():
                    o2 = o + f if coalesce == "add" else o
                    out[o2] = out.get(o2, 0) + p * q
        if not weight:
            return None
        return {o: q / weight for o, q in out.items() if q}

    return ev(start, 0, Fraction(1))


# ---- the equivalent evaluator programs (what the Lean model runs) ---------------------------------


def explode_program(h_items, pred_faces, limit, guard_single=False):
    h = C.dec_h([[C.enc_out(o), c] for o, c in h_items])
    faces = list(h.outcomes())
    acts = []
    for f in faces:
        if guard_single and len(faces) == 1:
            acts.append(["out", int(f)])
        elif f in pred_faces:
            acts.append(["rec1", 0, 0, None, int(f)])
        else:
            acts.append(["out", int(f)])
    src = {"t": "h", "items": [[C.enc_out(o), c] for o, c in h_items]}
    return dict(
        sources=[src],
        srclists=[{"srcs": [0], "nkw": 0}],
        fns=[{"sentinel": src["items"], "shape": 0, "acts": acts or [["out", 0]]}],
        calls=[[0, 0, limit]],
    )


def substitute_program(family, start, table, coalesce, limit):
    sources = [{"t": "h", "items": [[C.enc_out(o), c] for o, c in fam]} for fam in family]
    fns = []
    for hi, fam in enumerate(family):
        h = C.dec_h(sources[hi]["items"])
        faces = list(h.outcomes())
        acts = []
        for j, f in enumerate(faces):
            act = table[hi][j % len(table[hi])]
            if act[0] == "out":
                acts.append(["out", act[1]])
            else:
                acts.append(["rec1", act[1], act[1], None, int(f) if coalesce == "add" else 0])
        fns.append({"sentinel": sources[start]["items"], "shape": hi, "acts": acts or [["out", 0]]})
    return dict(
        sources=sources,
        srclists=[{"srcs": [i], "nkw": 0} for i in range(len(family))],
        fns=fns,
        calls=[[start, start, limit]],
    )


def _pred_faces(case, h_items):
    if case.get("pred") is None:  # the default predicate: the greatest face
        faces = [o for o, _ in h_items]
        return {max(faces)} if faces else set()
    return set(case["pred"])


def _flat(case):
    """the histogram the call is made on (a pool is flattened)"""
    if "dice" in case:
        from dyce import P

        return [(int(o), c) for o, c in P(*[C.dec_h(d) for d in case["dice"]]).h().items()]
    agg = {}
    for o, c in case["h"] if "h" in case else case["family"][case["start"]]:
        agg[int(o)] = agg.get(int(o), 0) + c
    return sorted(agg.items())


def _program(case):
    api = case["api"]
    h_items = _flat(case)
    if api in ("explode", "H.explode", "P.explode"):
        single = len({o for o, _ in h_items}) == 1
        return explode_program(h_items, _pred_faces(case, h_items), case.get("limit"), guard_single=(api != "explode"))
    return substitute_program(case["family"], case["start"], case["table"], case["coalesce"], case.get("limit"))


# ---- implementation ------------------------------------------------------------------------------


def impl(case):
    from dyce import H, P
    from dyce.evaluation import explode

    api = case["api"]
    lim = E.py_limit(case.get("limit")) if case.get("limit") is not None else None
    with warnings.catch_warnings():
        warnings.simplefilter("ignore")
        try:
            if api == "explode":
                h = H([(o, c) for o, c in case["h"]])
                if case.get("pred") is None:
                    r = explode(h, limit=lim) if lim is not None else explode(h)
                else:
                    faces = set(case["pred"])
                    pred = lambda res: res.outcome in faces  # noqa
                    r = explode(h, pred, limit=lim)
            elif api in ("H.explode", "P.explode"):
                if api == "H.explode" and case.get("mixed"):
                    # bare outcomes mixed with pairs: the stored order need not be ascending (natural_key fallback)
                    obj = H([o if c == 1 else (o, c) for o, c in case["h"]])
                else:
                    obj = H([(o, c) for o, c in case["h"]]) if api == "H.explode" else P(*[C.dec_h(d) for d in case["dice"]])
                kw = {}
                if "max_depth" in case:
                    kw["max_depth"] = case["max_depth"]
                if "precision_limit" in case:
                    kw["precision_limit"] = E.py_limit(case["precision_limit"])
                r = obj.explode(**kw)
            else:
                fam = [H([(o, c) for o, c in f]) for f in case["family"]]
                start = fam[case["start"]]

                def expand(h, outcome):
                    hi = next(i for i, f in enumerate(fam) if f is h or list(f.items()) == list(h.items()))
                    faces = list(fam[hi].outcomes())
                    act = case["table"][hi][faces.index(outcome) % len(case["table"][hi])]
                    return act[1] if act[0] == "out" else fam[act[1]]

                import operator

                co = {"add": operator.__add__}.get(case["coalesce"])
                kw = {}
                if "max_depth" in case:
                    kw["max_depth"] = case["max_depth"]
                if "precision_limit" in case:
                    kw["precision_limit"] = E.py_limit(case["precision_limit"])
                obj = start if api == "H.substitute" else P(start)
                r = obj.substitute(expand, co, **kw) if co else obj.substitute(expand, **kw)
        except ValueError:
            return "err ValueError"
    items = list(r.items())
    if any(isinstance(o, float) and math.isinf(o) for o, _ in items):
        return "ok " + " ".join("%s:%d" % ("inf" if o > 0 else "-inf", c) for o, c in items)
    out = E.fmt_h(r)
    # results must be in lowest terms
    g = 0
    for _, c in items:
        g = math.gcd(g, c)
    if g > 1 or any(c == 0 for _, c in items):
        out += " not-lowest-terms"
    return out


def _both(case):
    return "max_depth" in case and "precision_limit" in case


def _case_limit(case):
    if case["api"] == "explode":
        return case.get("limit")
    if "precision_limit" in case:
        return case["precision_limit"]
    if "max_depth" in case:
        return ["i", case["max_depth"]]
    return None


def _special_single_frac(case):
    """evaluation.explode's documented extrapolation for a single-faced histogram under a fractional limit"""
    if case["api"] != "explode":
        return None
    h_items = _flat(case)
    lim = case.get("limit")
    if len(h_items) == 1 and lim is not None and lim[0] in ("q", "f"):
        return h_items
    return None


def model(case):
    if _both(case) or _special_single_frac(case) is not None:
        return None
    prog = _program(dict(case, limit=_case_limit(case)))
    lines = [E.model_line(prog)]
    lim = _case_limit(case)
    if case["api"] == "explode" and lim is not None and lim[0] == "i" and 0 <= lim[1] <= 6:
        # the very definitions of theorem C08_explode_eq_spec: the evaluator run and the re-roll process
        h_items = _flat(case)
        preds = sorted(_pred_faces(case, h_items))
        toks = E.hist_tokens(h_items) + [str(len(preds))] + [str(f) for f in preds] + [str(lim[1])]
        lines += [" ".join(["EXPLODE"] + toks), " ".join(["EXPLODESPEC"] + toks)]
    if case["api"] in ("H.substitute", "P.substitute") and (lim is None or (lim[0] == "i" and 0 <= lim[1] <= 6)):
        # the very definitions of theorem C08_substitute_eq_spec
        fam = case["family"]
        toks = [str(len(fam))]
        for f in fam:
            toks += E.hist_tokens(f)
        toks.append(str(len(fam)))
        for hi, f in enumerate(fam):
            faces = sorted({int(o) for o, _ in f})
            toks.append(str(len(faces)))
            for j in range(len(faces)):
                act = case["table"][hi][j % len(case["table"][hi])]
                toks += (["0", str(act[1])] if act[0] == "out" else ["1", str(act[1])])
        toks += ["1" if case["coalesce"] == "add" else "0", str(case["start"]), str(1 if lim is None else lim[1])]
        lines += [" ".join(["SUBST"] + toks), " ".join(["SUBSTSPEC"] + toks)]
    return lines


def model_post(case, out):
    parts = [E.model_post(case, p) for p in out.split(" || ")]
    if any(p != parts[0] for p in parts):
        return "model-inconsistent " + " || ".join(parts)
    return parts[0]


def oracle(case):
    if _both(case):
        return "err ValueError"
    lim_raw = _case_limit(case)
    try:
        lim = E.normalize(lim_raw)
    except E.Abort as a:
        return a.what
    try:
        if case["api"] in ("explode", "H.explode", "P.explode"):
            h_items = _flat(case)
            sp = _special_single_frac(case)
            preds = _pred_faces(case, h_items)
            if sp is not None and sp[0][0] in preds and sp[0][1] > 0:
                o = sp[0][0]
                if o == 0:
                    return "ok 0:1 total=1"
                return "ok %s:1" % ("inf" if o > 0 else "-inf")
            d = spec_explode(h_items, preds, lim)
        else:
            d = spec_substitute(case["family"], case["start"], case["table"], case["coalesce"], lim)
    except E.Abort:
        return None
    return E.fmt_dist(d)


def known_finding(case, got, exp, known):
    """F5 is exactly this: a single-faced H.explode / P.explode that SHOULD expand (the expected answer is a
    histogram) gives the histogram back unexpanded; any other difference on such a case is reported"""
    for k in known:
        m = k.get("match", {})
        if not (case["api"] in m.get("api", []) and m.get("single_faced") and len({o for o, _ in _flat(case)}) == 1):
            continue
        if _both(case) or not (exp or "").startswith("ok") or not got.startswith("ok"):
            continue
        face = next(iter({o for o, _ in _flat(case)}))
        if got.split()[1:2] and got.split()[1].startswith("%d:" % face) and len(got.split()) == 3:
            return k  # "ok <face>:<count> total=<count>": the die came back as it was
    return None


def classify(case, got):
    lim = _case_limit(case)
    return "%s/%s%s" % (case["api"], "none" if lim is None else lim[0], "/both" if _both(case) else "")


def nontrivial(case, got):
    return got.startswith("ok") and got.count(":") >= 3


def describe(case):
    return case


def shrink(case):
    if "h" in case:
        h = case["h"]
        for j in range(len(h)):
            if len(h) > 1:
                yield dict(case, h=h[:j] + h[j + 1 :])
        for j, (o, c) in enumerate(h):
            if c > 1:
                yield dict(case, h=h[:j] + [[o, 1]] + h[j + 1 :])
    if case.get("pred"):
        for j in range(len(case["pred"])):
            yield dict(case, pred=case["pred"][:j] + case["pred"][j + 1 :])


def _rand_hist(rnd, single=0.12):
    if rnd.random() < single:
        return [[rnd.choice([-2, 0, 1, 2, 3]), rnd.choice([1, 1, 2])]]
    k = rnd.randint(2, 4)
    faces = rnd.sample(range(-2, 7), k)
    items = [[f, rnd.choice([0, 1, 1, 2, 3])] for f in sorted(faces)]
    if not any(c for _, c in items):
        items[0][1] = 1
    if rnd.random() < 0.25:
        items = [[o, c * 2] for o, c in items]
    return items


def _rand_lim(rnd, h_items):
    r = rnd.random()
    if r < 0.1:
        return None
    if r < 0.5:
        return ["i", rnd.choice([0, 1, 2, 2, 3, 4])]
    tot = sum(c for _, c in h_items) or 1
    probs = sorted({Fraction(c, tot) ** d for _, c in h_items if c for d in (1, 2, 3) if 0 < Fraction(c, tot) ** d < 1})
    if probs and rnd.random() < 0.6:
        p = rnd.choice(probs)
        if rnd.random() < 0.3:
            return ["f", repr(p.numerator / p.denominator)]
        return ["q", p.numerator, p.denominator]
    if r < 0.93:
        d = rnd.choice([3, 4, 8, 10, 16, 27, 64, 100])
        return ["q", rnd.randint(1, d - 1), d]
    return rnd.choice([["i", -2], ["q", 0, 1], ["q", 1, 1], ["q", 5, 4], ["f", "1.5"]])


def generate(rnd, tier, scale):
    n = int((600 if tier == "quick" else 6000) * scale)
    made = tries = 0
    while made < n and tries < 30 * n:
        tries += 1
        r = rnd.random()
        h = _rand_hist(rnd)
        if rnd.random() < 0.04:
            h = []
        faces = [o for o, _ in h]
        if r < 0.45:
            pred = None if rnd.random() < 0.35 else sorted(rnd.sample(faces, rnd.randint(0, len(faces)))) if faces else []
            case = dict(api="explode", h=h, pred=pred, limit=_rand_lim(rnd, h))
        elif r < 0.7:
            api = rnd.choice(["H.explode", "H.explode", "P.explode"])
            case = dict(api=api, h=h)
            if api == "H.explode" and rnd.random() < 0.2:
                case["mixed"] = True
            if api == "P.explode":
                case = dict(api=api, dice=[[[C.enc_out(o), c] for o, c in _rand_hist(rnd, single=0.3)] for _ in range(rnd.randint(1, 2))])
            lim = _rand_lim(rnd, h)
            if lim is not None:
                if lim[0] == "i":
                    case["max_depth"] = lim[1]
                else:
                    case["precision_limit"] = lim
            if rnd.random() < 0.08:
                case["max_depth"] = rnd.choice([0, 1, 2])
                case["precision_limit"] = ["q", 1, 8]
        else:
            nf = rnd.randint(1, 3)
            family = [h if h else [[1, 1]]]
            while len(family) < nf:
                cand = _rand_hist(rnd, single=0.3)
                if all(sorted(cand) != sorted(f) for f in family):
                    family.append(cand)
            table = []
            for hi in range(nf):
                acts = []
                for _ in range(rnd.randint(1, 4)):
                    acts.append(["out", rnd.randint(-1, 9)] if rnd.random() < 0.5 else ["h", rnd.randrange(nf)])
                table.append(acts)
            case = dict(api=rnd.choice(["H.substitute", "H.substitute", "P.substitute"]), family=family, start=0, table=table, coalesce=rnd.choice(["replace", "add"]))
            lim = _rand_lim(rnd, family[0])
            if lim is not None:
                if lim[0] == "i":
                    case["max_depth"] = lim[1]
                else:
                    case["precision_limit"] = lim
            if rnd.random() < 0.08:
                case["max_depth"] = rnd.choice([0, 1, 2])
                case["precision_limit"] = ["q", 1, 8]
        try:
            if oracle(case) is None:
                continue
        except (RecursionError, E.Abort):
            continue
        made += 1
        yield case
