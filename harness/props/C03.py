"""C03 — P.h(*which) is the exact histogram of the sum of the selected sorted positions."""
from __future__ import annotations

import itertools
from collections import Counter
from fractions import Fraction
from math import comb, lcm

import common as C
import gen
from props import poolcommon as PC

RULE = (
    "cases = corpus + seeded random pools x selection grammar (as C02) + large homogeneous/heterogeneous pools "
    "(up to 30 dice, 20 faces, weights up to 3; counts far beyond 2**53) judged by the proved model and an independent "
    "dynamic-programming enumerator; distinct = distinct (pool, selection); non-trivial = non-empty pool, call does not raise"
)
TRUSTED = [
    "outcomes are scaled to integers by the lcm of their denominators (an increasing linear map; sums are preserved)",
    "modelled, not verified: CPython slice.indices/sorted/sum/itertools, Fraction arithmetic",
]
ASSUMPTIONS = ["outcomes are exact rationals or integral floats (no float rounding in sums)", "memo cleared before each op (C13 covers history)"]
EXPLANATION = "theorems C03_noargs / C03_selection (poolH = brute-force count of the selected sum, short-circuits included); C03_permuted_selections, C03_affine_increasing / C03_affine_decreasing (metamorphic clauses, also run against /repo on pools of <= 6 dice)"
ORACLE_EVERY = 1
CASE_TIMEOUT = {"quick": 30, "thorough": 300}  # 12d20 keep-6 legitimately takes ~20 s in the implementation


def before_each(case):
    C.clear_caches()


def _setup(case):
    p = PC.build_pool(case)
    den = 1
    for h in p:
        for o in h.outcomes():
            den = lcm(den, Fraction(o).denominator)
    enc = lambda o: int(Fraction(o) * den)  # noqa
    return p, enc, den


def _fmt(items):
    agg = Counter()
    for o, c in items:
        if c:
            agg[o] += c
    return ("ok " + " ".join("%d:%d" % (o, c) for o, c in sorted(agg.items()))).strip()


def impl(case):
    p, enc, den = _setup(case)
    which = gen.which_to_py(case["which"])
    try:
        h = p.h(*which)
    except IndexError:
        return "err IndexError"
    for o, c in h.items():
        if not isinstance(c, int) or c < 0:
            return "bad-count"
    if h.total != sum(h.counts()):
        return "bad-total"
    out = _fmt((int(Fraction(o) * den), c) for o, c in h.items())
    flag = _affine_flag(case, p, h) or _twin_flag(case, p, h, which)
    return out + (" FLAG:" + flag if flag else "")


def _twin_flag(case, p, h, which):
    """the answer does not depend on what was computed before (C13 explores this systematically): after the same
    query on a pool that is == / hash-equal but not identical (counts doubled), a fresh pool answers as before"""
    from dyce import H, P

    if len(p) == 0 or len(p) > 6:
        return None
    twin = P(*[H({o: 2 * c for o, c in hh.items()}) for hh in p])
    try:
        th = twin.h(*which)
        again = PC.build_pool(case).h(*which)
    except IndexError:
        return None
    if case["which"] and {o: c for o, c in th.items() if c} != {o: c * 2 ** len(p) for o, c in h.items() if c}:
        return "scaled-twin-is-not-the-scaled-answer"  # doubling every count multiplies every roll's count by 2**n
    if list(again.items()) != list(h.items()) or [type(o) for o in again] != [type(o) for o in h]:
        return "answer-changes-after-the-same-query-on-a-scaled-twin"
    return None


def _affine_flag(case, p, h):
    """metamorphic clause (theorems C03_affine_increasing / C03_affine_decreasing): relabelling every face
    x -> a*x + b relabels the selected sum s -> a*s + b*m; a < 0 mirrors the selected positions"""
    from dyce import H, P

    n = len(p)
    if n == 0 or n > 6 or not case["which"]:
        return None
    try:
        idxs = gen.resolve_which(n, case["which"])
    except IndexError:
        return None
    if not idxs:
        return None
    for a, b in ((-1 - n % 2, len(idxs) % 3), (2 + n % 2, -1)):
        p2 = P(*[H({a * o + b: c for o, c in hh.items()}) for hh in p])
        h2 = p2.h(*([n - 1 - j for j in idxs] if a < 0 else idxs))
        exp = {a * o + b * len(idxs): c for o, c in h.items() if c}
        if {o: c for o, c in h2.items() if c} != exp:
            return "affine-relabel(a=%d,b=%d)-differs" % (a, b)
    return None


def model(case):
    p, enc, _ = _setup(case)
    if not PC.ascending(p):
        return None  # outside the theorems' hypothesis (DiceOK): the oracles decide
    return " ".join(["PH"] + PC.pool_tokens(p, enc) + gen.which_tokens(case["which"]))


def model_post(case, out):
    if out.startswith("ok"):
        items = [tuple(int(x) for x in t.split(":")) for t in out[2:].split()]
        return _fmt(items)
    return out


def dp_oracle(p, idxs, enc):
    """independent enumerator: faces ascending; state = (dice placed per group, partial sum)"""
    groups = [(tuple(h.items()), len(list(g))) for h, g in itertools.groupby(p, key=lambda h: tuple(h.items()))]
    merged = {}
    for items, n in groups:
        merged[items] = merged.get(items, 0) + n
    groups = list(merged.items())
    faces = sorted({o for items, _ in groups for o, _ in items})
    mult = Counter(idxs)
    n = len(p)
    pref = [0] * (n + 1)
    for j in range(n):
        pref[j + 1] = pref[j] + mult.get(j, 0)
    state = {(tuple(0 for _ in groups), 0): 1}
    for f in faces:
        cs = [dict(items).get(f, 0) for items, _ in groups]
        new = {}
        for (placed, s), ways in state.items():
            base = sum(placed)
            opts = []
            for g, (items, ng) in enumerate(groups):
                rem = ng - placed[g]
                opts.append([(j, comb(rem, j) * cs[g] ** j) for j in range(rem + 1) if j == 0 or cs[g]])
            for combo in itertools.product(*opts):
                w = ways
                tot = 0
                for j, ww in combo:
                    w *= ww
                    tot += j
                if not w:
                    continue
                np_ = tuple(placed[g] + combo[g][0] for g in range(len(groups)))
                k = (np_, s + enc(f) * (pref[base + tot] - pref[base]))
                new[k] = new.get(k, 0) + w
        state = new
        if len(state) > 400000:
            return None
    res = Counter()
    full = tuple(ng for _, ng in groups)
    for (placed, s), ways in state.items():
        if placed == full:
            res[s] += ways
    return _fmt(res.items())


def oracle(case):
    p, enc, _ = _setup(case)
    n = len(p)
    which = case["which"]
    if which:
        try:
            idxs = gen.resolve_which(n, which)
        except IndexError:
            return "err IndexError"
    else:
        idxs = list(range(n))
    if n == 0 or not idxs:
        return "ok"
    size = 1
    for h in p:
        size *= max(1, len(h))
    if size <= 3000:
        c = Counter()
        for combo in itertools.product(*[list(h.items()) for h in p]):
            cnt = 1
            for _, k in combo:
                cnt *= k
            s = sorted(o for o, _ in combo)
            c[sum(enc(s[j]) for j in idxs)] += cnt
        return _fmt(c.items())
    ngroups = len({tuple(h.items()) for h in p})
    if ngroups <= 3:
        return dp_oracle(p, idxs, enc)
    return None


def classify(case, got):
    p, _, _ = _setup(case)
    return PC.strategy(p, case["which"])


def nontrivial(case, got):
    return bool(case["dice"]) and got.startswith("ok")


describe = PC.describe
shrink = PC.shrink_pool_case


def big_case(rnd, tier):
    faces = rnd.choice([6, 8, 10, 12, 20])
    w = rnd.choice([1, 1, 2, 3])
    h = [["i:%d" % (o + 1), rnd.choice([w, w, 1, 3]) if w > 1 else 1] for o in range(faces)]
    nd = rnd.randint(8, 30 if faces <= 12 else 22)
    k = rnd.choice([1, 1, 2, 2, 3]) if tier == "quick" else rnd.choice([1, 2, 3, 4, 5, 6])
    k = min(k, nd)
    if faces >= 12 and nd > 14:
        k = min(k, 3)
    style = rnd.random()
    if style < 0.35:
        which = [["s", None, k, None]]
    elif style < 0.7:
        which = [["s", -k, None, None]]
    elif style < 0.8:
        which = [["i", rnd.choice([0, -1])]]
    elif style < 0.9:
        which = []
    else:
        which = [["s", None, None, None], ["s", None, None, -1]]
    dice = [h] * nd
    if rnd.random() < 0.3:
        h2 = [["i:%d" % (o + 1), 1] for o in range(rnd.choice([4, 6]))]
        dice = dice[: nd - 2] + [h2] * 2
    return dict(dice=dice, which=which)


def generate(rnd, tier, scale):
    n = int((900 if tier == "quick" else 8000) * scale)
    for _ in range(n):
        dice = gen.rand_pool(rnd, max_dice=4, max_faces=4, kind=rnd.choice(["int", "int", "neg", "frac", "float", "bool"]))
        ncur = len([h for h in dice if any(c for _, c in h)])
        yield dict(dice=dice, which=gen.rand_which(rnd, ncur))
    for _ in range(max(20, n // 40)):
        dice = gen.rand_pool(rnd, max_dice=3, max_faces=4, kind=rnd.choice(["int", "neg"]))
        ncur = len([h for h in dice if any(c for _, c in h)])
        yield dict(dice=dice, which=gen.rand_which(rnd, ncur), mixed=True)
    for _ in range(int((25 if tier == "quick" else 300) * scale)):
        yield big_case(rnd, tier)
    if tier == "thorough":
        yield dict(dice=[[["i:%d" % (o + 1), 1] for o in range(20)]] * 12, which=[["s", None, 6, None]])
        yield dict(dice=[[["i:%d" % (o + 1), 1] for o in range(20)]] * 12, which=[["s", -6, None, None]])
