"""C17 — the NumPy-backed generator is a faithful, reproducible random.Random."""
from __future__ import annotations

import math
import random

import common as C

RULE = (
    "cases = corpus + seeded: (a) raw streams — random / getrandbits(k) / randbytes(n) / gauss with getstate / setstate at "
    "arbitrary points — of PCG64DXSMRandom compared bit for bit with the Lean model started from the instance's own "
    "bit-generator state; (b) relational histories over the whole public sampling API (random, getrandbits, randbytes, "
    "randrange, randint, choice, choices, shuffle, sample, uniform, triangular, gauss, normalvariate, expovariate, betavariate, "
    "...): two instances seeded alike, re-seeding, snapshot at any point + replay, a second instance interleaved; seeds = small "
    "/ huge ints, sequences, None; both the NumPy-backed class and the stdlib control; (c) bounds of getrandbits / randbytes / "
    "random and the default generator (dyce.rng.RNG / DEFAULT_RNG as a fresh interpreter finds them); distinct = distinct case; non-trivial = >= 3 sampling calls"
)
TRUSTED = [
    "NumPy's SeedSequence is not modelled: the model starts from the bit-generator state read through getstate() after seeding",
    "gauss outputs are recomputed from the model's two random() numerators with CPython's own formula (cos / sin / log / sqrt in floats)",
]
ASSUMPTIONS = ["NumPy is importable (otherwise only the stdlib control is exercised)"]
EXPLANATION = "theorems C17_getrandbits_range/_negative, C17_randbytes_length, C17_random_range, C17_replay, C17_same_seed, C17_deterministic, C17_pinned_gauss_counterexample"

TWOPI = 2.0 * math.pi


def _cls():
    import dyce.rng

    return getattr(dyce.rng, "PCG64DXSMRandom", None)


def _seed(s):
    if s is None:
        return None
    if isinstance(s, list):
        return list(s)
    return int(s)


def _gauss_from(r1, r2, cached):
    """random.Random.gauss(0, 1) from the two random() values it consumed"""
    x2pi = (r1 / 9007199254740992.0) * TWOPI
    g2rad = math.sqrt(-2.0 * math.log(1.0 - (r2 / 9007199254740992.0)))
    return (math.sin(x2pi) if cached else math.cos(x2pi)) * g2rad


def impl(case):
    import dyce.rng

    k = case["k"]
    cls = _cls()
    if k == "stream":
        if cls is None:
            return "skip-no-numpy"
        r = cls(_seed(case["seed"]))
        outs, snap = [], None
        for op in case["ops"]:
            t = op[0]
            if t == "random":
                x = r.random()
                outs.append("F%d" % int(x * 9007199254740992.0) if 0.0 <= x < 1.0 and x * 9007199254740992.0 == int(x * 9007199254740992.0) else "F?%r" % x)
            elif t == "bits":
                try:
                    outs.append("I%d" % r.getrandbits(op[1]))
                except ValueError:
                    outs.append("E")
            elif t == "bytes":
                outs.append("B" + r.randbytes(op[1]).hex())
            elif t == "gauss":
                outs.append("N%r" % r.gauss(0.0, 1.0))
            elif t == "snap":
                snap = r.getstate()
                outs.append("S")
            elif t == "restore":
                if snap is not None:
                    r.setstate(snap)
                outs.append("R")
        return "ok " + " ".join(outs)
    if k == "relational":
        flags = []
        for name, mk in (("numpy", cls), ("stdlib", random.Random)):
            if mk is None:
                continue
            seed = _seed(case["seed"])
            if name == "stdlib" and isinstance(seed, list):
                seed = tuple(seed).__hash__()  # the stdlib class does not take lists
            calls = case["calls"]

            def run(r, calls):
                out = []
                for c in calls:
                    out.append(_call(r, c))
                return out

            a, b = mk(seed), mk(seed)
            if seed is not None:
                ra, rb = run(a, calls), run(b, calls)
                if ra != rb:
                    flags.append(name + ":equally-seeded-instances-differ")
                a.seed(seed)
                if run(a, calls) != ra:
                    flags.append(name + ":reseeding-does-not-restart-the-stream")
            if name == "numpy" and isinstance(seed, list):
                # a list seed changed in place and passed again is a NEW seed (nothing may be remembered by reference)
                lst = list(seed)
                g = mk(lst)
                run(g, calls[:3])
                lst[-1] = (lst[-1] + 1) % (1 << 32)
                g.seed(lst)
                if run(g, calls) != run(mk(list(lst)), calls):
                    flags.append(name + ":re-seeding-with-a-mutated-list-is-not-seeding-with-its-contents")
            # snapshot at any point + replay
            c = mk(seed)
            cut = case["cut"] % (len(calls) + 1)
            run(c, calls[:cut])
            s = c.getstate()
            cont = run(c, calls[cut:])
            run(c, calls[: case["cut"] % 3])  # anything in between
            c.setstate(s)
            if run(c, calls[cut:]) != cont:
                flags.append(name + ":setstate(getstate())-does-not-replay")
            # a second instance interleaved must not influence the first
            d, e = mk(seed), mk(12345)
            if seed is not None:
                out = []
                for cc in calls:
                    out.append(_call(d, cc))
                    _call(e, cc)
                    e.seed(99)
                if out != ra:
                    flags.append(name + ":instances-influence-one-another")
        return "ok" + (" FLAGS:" + ",".join(flags) if flags else "")
    if k == "default":
        # what `import dyce` leaves installed, asked of a fresh interpreter (this process replaces dyce.rng.RNG in other checks)
        import os
        import subprocess
        import sys

        code = (
            "import dyce.rng as g, random\n"
            "cls = getattr(g, 'PCG64DXSMRandom', None)\n"
            "import dyce; h = dyce.H(6)\n"
            "print('numpy' if cls else 'nonumpy', type(g.RNG).__name__, type(g.DEFAULT_RNG).__name__, g.RNG is g.DEFAULT_RNG,"
            " isinstance(g.RNG, random.Random), (cls is None) or isinstance(g.RNG, cls), h.roll() in h)"
        )
        p = subprocess.run([sys.executable, "-B", "-c", code], capture_output=True, text=True, env=dict(os.environ), timeout=120)
        toks = p.stdout.split()
        if p.returncode != 0 or len(toks) != 7:
            return "ok FLAGS:fresh-interpreter-failed(%s)" % (p.stderr.strip().splitlines()[-1:] or [""])[0][:120]
        flags = []
        if toks[0] == "numpy" and toks[5] != "True":
            flags.append("dyce.rng.RNG-defaults-to-%s-although-NumPy-is-importable" % toks[1])
        if toks[3] != "True":
            flags.append("RNG-is-not-DEFAULT_RNG")
        if toks[4] != "True" or toks[6] != "True":
            flags.append("RNG-unusable")
        return "ok" + (" FLAGS:" + ",".join(flags) if flags else "")
    if k == "bounds":
        flags = []
        for name, mk in (("numpy", cls), ("stdlib", random.Random)):
            if mk is None:
                continue
            r = mk(case["seed"])
            for kk in case["ks"]:
                if kk < 0:
                    try:
                        r.getrandbits(kk)
                        flags.append("%s:getrandbits(%d)-accepted" % (name, kk))
                    except ValueError:
                        pass
                else:
                    x = r.getrandbits(kk)
                    if not (isinstance(x, int) and 0 <= x < (1 << kk)):
                        flags.append("%s:getrandbits(%d)=%r-out-of-range" % (name, kk, x))
            for n in case["ns"]:
                bs = r.randbytes(n)
                if not isinstance(bs, bytes) or len(bs) != n:
                    flags.append("%s:randbytes(%d)-has-length-%d" % (name, n, len(bs)))
            for _ in range(20):
                x = r.random()
                if not (0.0 <= x < 1.0):
                    flags.append("%s:random()=%r" % (name, x))
        if cls is not None and not isinstance(dyce.rng.DEFAULT_RNG, cls):
            flags.append("default-generator-is-%s" % type(dyce.rng.DEFAULT_RNG).__name__)
        return "ok" + (" FLAGS:" + ",".join(flags) if flags else "")
    raise KeyError(k)


def _call(r, c):
    t = c[0]
    if t == "random":
        return r.random()
    if t == "bits":
        return r.getrandbits(c[1])
    if t == "bytes":
        return r.randbytes(c[1])
    if t == "randrange":
        return r.randrange(c[1], c[1] + c[2] + 1)
    if t == "randint":
        return r.randint(-c[1], c[2])
    if t == "choice":
        return r.choice(list(range(c[1] + 1)))
    if t == "choices":
        return r.choices(list(range(c[1] + 2)), weights=[1 + (i % 3) for i in range(c[1] + 2)], k=c[2] % 4)
    if t == "shuffle":
        l = list(range(c[1] + 2))
        r.shuffle(l)
        return l
    if t == "sample":
        return r.sample(list(range(c[1] + 3)), c[2] % (c[1] + 3))
    if t == "uniform":
        return r.uniform(-c[1], c[2])
    if t == "triangular":
        return r.triangular(0, 1 + c[1], 0.5)
    if t == "gauss":
        return r.gauss(0.0, 1.0 + c[1])
    if t == "normalvariate":
        return r.normalvariate(0.0, 1.0)
    if t == "expovariate":
        return r.expovariate(1.0 + c[1])
    if t == "betavariate":
        return r.betavariate(1.0 + c[1], 2.0)
    if t == "gammavariate":
        return r.gammavariate(1.0 + c[1], 1.0)
    raise KeyError(t)


def model(case):
    if case["k"] != "stream":
        return None
    cls = _cls()
    if cls is None:
        return None
    r = cls(_seed(case["seed"]))
    try:
        st = r._generator.bit_generator.state  # the generator's own state, independent of getstate()
    except AttributeError:
        st = r.getstate()[0]
    toks = [str(st["state"]["state"]), str(st["state"]["inc"]), str(int(st["has_uint32"])), str(int(st["uinteger"])), str(len(case["ops"]))]
    for op in case["ops"]:
        t = op[0]
        toks += {"random": ["0"], "bits": ["1", str(op[1] if len(op) > 1 else 0)], "bytes": ["2", str(op[1] if len(op) > 1 else 0)], "gauss": ["3"], "snap": ["4"], "restore": ["5"]}[t]
    return " ".join(["RNG"] + toks)


def model_post(case, out):
    parts = out.split()
    res = [parts[0]]
    for p in parts[1:]:
        if p[0] in "GC":
            r1, r2 = (int(x) for x in p[1:].split(","))
            res.append("N%r" % _gauss_from(r1, r2, p[0] == "C"))
        else:
            res.append(p)
    return " ".join(res)


def oracle(case):
    if case["k"] == "stream":
        return None
    return "ok"


def classify(case, got):
    if case["k"] == "stream":
        return "stream/" + "+".join(sorted({op[0] for op in case["ops"]}))
    return case["k"] + "/" + type(case["seed"]).__name__


def nontrivial(case, got):
    return got.startswith("ok") and (case["k"] != "stream" or len(case["ops"]) >= 3)


def describe(case):
    return case


def shrink(case):
    for key in ("ops", "calls"):
        if key in case:
            l = case[key]
            for j in range(len(l)):
                if len(l) > 1:
                    yield dict(case, **{key: l[:j] + l[j + 1 :]})


def _rand_seed(rnd):
    r = rnd.random()
    if r < 0.5:
        return rnd.randrange(1 << 32)
    if r < 0.7:
        return rnd.randrange(1 << 200)
    if r < 0.85:
        return [rnd.randrange(1 << 32) for _ in range(rnd.randint(1, 4))]
    if r < 0.95:
        return 0
    return None


def generate(rnd, tier, scale):
    yield dict(k="default", seed=0)
    n = int((400 if tier == "quick" else 4000) * scale)
    methods = ["random", "bits", "bytes", "randrange", "randint", "choice", "choices", "shuffle", "sample", "uniform", "triangular", "gauss", "gauss", "normalvariate", "expovariate", "betavariate", "gammavariate"]
    for _ in range(n):
        r = rnd.random()
        if r < 0.5:
            ops = []
            for _ in range(rnd.randint(1, 14)):
                t = rnd.choice(["random", "bits", "bits", "bytes", "bytes", "gauss", "gauss", "snap", "restore"])
                if t == "bits":
                    ops.append([t, rnd.choice([-1, 0, 1, 7, 8, 9, 31, 32, 33, 53, 63, 64, 65, 100, 128, 200])])
                elif t == "bytes":
                    ops.append([t, rnd.choice([0, 1, 2, 3, 4, 5, 7, 8, 9, 13, 16])])
                else:
                    ops.append([t])
            seed = _rand_seed(rnd)
            yield dict(k="stream", seed=0 if seed is None else seed, ops=ops)
        elif r < 0.9:
            calls = [[rnd.choice(methods), rnd.randint(0, 9), rnd.randint(0, 9)] for _ in range(rnd.randint(3, 12))]
            for c in calls:
                if c[0] == "bits":
                    c[1] = rnd.choice([0, 1, 8, 31, 64, 100])
            yield dict(k="relational", seed=_rand_seed(rnd), calls=calls, cut=rnd.randint(0, 12))
        else:
            yield dict(k="bounds", seed=rnd.randrange(1 << 30), ks=[rnd.choice([-3, -1, 0, 1, 2, 7, 8, 9, 63, 64, 65, 127, 200]) for _ in range(8)], ns=[rnd.choice([0, 1, 3, 4, 5, 8, 17]) for _ in range(5)])
