"""C05 — equality, hashing, reduction and construction agree on 'same distribution'."""
from __future__ import annotations

import itertools
from collections import Counter
from fractions import Fraction
from math import gcd, lcm

import common as C
import gen

RULE = (
    "cases = corpus + seeded: pairs built as scaled / zero-padded / permuted / retyped twins and near-misses (one count off) for "
    "== / != / hash, pool-vs-histogram equality, lowest_terms (idempotence, gcd 1, no zeros), every construction form (mapping, "
    "pairs, bare outcomes, H, P, H(n)) in shuffled orders incl. negative counts; distinct = distinct case; non-trivial = positive total"
)
TRUSTED = [
    "CPython's hash() of a frozenset is a function of its value and 1 == 1.0 == True hash alike (the model compares the hash keys)",
    "outcomes reach the model rank-encoded (equal values of different numeric type share a rank)",
]
ASSUMPTIONS = ["outcomes are totally ordered numbers"]
EXPLANATION = "theorems C05_* (lowest_terms laws, eq = same distribution, eq -> equal hash key, constructor canonical form); correspondence per op"


def _ranks(*hs, extra=()):
    return C.ranks([C.dec_out(o) for h in hs for o, _ in h] + list(extra))


def _toks(items, table):
    """histogram as H.__init__ leaves it"""
    h = C.dec_h(items)
    toks = [str(len(h))]
    for o, c in h.items():
        toks += [str(C.rank_of(table, o)), str(c)]
    return toks


def _fmt_all(h, table):
    return ("ok " + " ".join("%d:%d" % (C.rank_of(table, o), c) for o, c in h.items())).strip() + " total=%d" % h.total


def _dist(items):
    agg = Counter()
    for o, c in items:
        agg[o] += c
    t = sum(agg.values())
    return {o: Fraction(c, t) for o, c in agg.items() if c}


def _ctor_data(case):
    """the multiset of (outcome, count) data a construction form denotes, from first principles"""
    f = case["form"]
    if f in ("mapping", "pairs", "h"):
        return [(C.dec_out(o), c) for o, c in case["items"]]
    if f == "outcomes":
        return [(C.dec_out(o), 1) for o in case["outs"]]
    if f == "int":
        n = case["n"]
        return [(i, 1) for i in (range(1, n + 1) if n > 0 else range(n, 0))]
    if f == "range":
        return [(i, 1) for i in range(*case["range"])]
    if f == "p":
        dice = [C.dec_items(h) for h in case["dice"]]
        dice = [d for d in dice if sum(c for _, c in d)]
        if not dice:
            return []
        agg = {}
        for combo in itertools.product(*dice):
            s = sum(o for o, _ in combo)
            c = 1
            for _, k in combo:
                c *= k
            agg[s] = agg.get(s, 0) + c
        return sorted(agg.items())
    raise KeyError(f)


def _container(case, data):
    """the same data in another iterable type (list, tuple, one-shot iterator, generator, deque)"""
    import collections

    c = case.get("container", "list")
    if c == "tuple":
        return tuple(data)
    if c == "iter":
        return iter(data)
    if c == "gen":
        return (x for x in data)
    if c == "deque":
        return collections.deque(data)
    return data


def _ctor_build(case):
    from dyce import H, P

    f = case["form"]
    if f == "mapping":
        d = {C.dec_out(o): c for o, c in case["items"]}
        mt = case.get("mtype", "dict")
        if mt == "proxy":
            import types

            return H(types.MappingProxyType(d))
        if mt == "chain":
            import collections

            return H(collections.ChainMap(d))
        if mt == "userdict":
            import collections

            return H(collections.UserDict(d))
        if mt == "counter":
            import collections

            return H(collections.Counter(d))
        if mt == "ordered":
            import collections

            return H(collections.OrderedDict(d))
        return H(d)
    if f == "pairs":
        return H(_container(case, [(C.dec_out(o), c) for o, c in case["items"]]))
    if f == "range":
        return H(range(*case["range"]))
    if f == "h":
        return H(H([(C.dec_out(o), c) for o, c in case["items"]]))
    if f == "outcomes":
        return H(_container(case, [C.dec_out(o) for o in case["outs"]]))
    if f == "int":
        return H(case["n"])
    if f == "p":
        return H(P(*[C.dec_h(h) for h in case["dice"]]))


def impl(case):
    from dyce import P

    k = case["k"]
    if k == "eq":
        a, b = C.dec_h(case["a"]), C.dec_h(case["b"])
        eq, ne = (a == b), (a != b)
        out = "ok eq=%s" % str(bool(eq)).lower()
        if eq:
            out += " hasheq=%s" % str(hash(a) == hash(b)).lower()
        if bool(ne) == bool(eq):
            out += " ne-inconsistent"
        if (b == a) != eq:
            out += " asymmetric"
        # equality is a fact about the two distributions: it cannot change once the operands have been hashed
        hash(a), hash(b)
        if (a == b) != eq or (a != b) != ne or (b == a) != eq:
            out += " eq-changes-after-hashing"
        return out
    if k == "peq":
        p, b = P(*[C.dec_h(h) for h in case["dice"]]), C.dec_h(case["b"])
        eq = p == b
        out = "ok eq=%s" % str(bool(eq)).lower()
        if (b == p) != eq:
            out += " asymmetric"
        if (p != b) == eq or (b != p) == eq:
            out += " ne-inconsistent"
        return out
    if k == "lt":
        h = C.dec_h(case["h"])
        table = _ranks(case["h"])
        lt = h.lowest_terms()
        out = _fmt_all(lt, table)
        if list(lt.lowest_terms().items()) != list(lt.items()):
            out += " not-idempotent"
        if not (lt == h):
            out += " not-equal-to-original"
        return out
    if k == "ctor":
        data = _ctor_data(case)
        table = C.ranks([o for o, _ in data])
        try:
            h = _ctor_build(case)
        except ValueError:
            return "err ValueError"
        return _fmt_all(h, table)
    raise KeyError(k)


def model(case):
    k = case["k"]
    if k == "eq":
        table = _ranks(case["a"], case["b"])
        return " ".join(["EQ"] + _toks(case["a"], table) + _toks(case["b"], table))
    if k == "peq":
        from dyce import P

        p = P(*[C.dec_h(h) for h in case["dice"]])
        den = 1
        for o in [x for h in p for x in h.outcomes()] + [C.dec_out(o) for o, _ in case["b"]]:
            den = lcm(den, Fraction(o).denominator)
        enc = lambda o: int(Fraction(o) * den)  # noqa
        toks = [str(len(p))]
        for h in p:
            toks.append(str(len(h)))
            for o, c in h.items():
                toks += [str(enc(o)), str(c)]
        b = C.dec_h(case["b"])
        toks.append(str(len(b)))
        for o, c in b.items():
            toks += [str(enc(o)), str(c)]
        return " ".join(["PEQ"] + toks)
    if k == "lt":
        table = _ranks(case["h"])
        return " ".join(["LT"] + _toks(case["h"], table))
    if k == "ctor":
        data = _ctor_data(case)
        table = C.ranks([o for o, _ in data])
        toks = [str(len(data))]
        for o, c in data:
            toks += [str(C.rank_of(table, o)), str(c)]
        return " ".join(["CTOR"] + toks)


def model_post(case, out):
    out = " ".join(out.split())
    if case["k"] in ("eq", "peq") and "eq=false" in out.split()[1]:
        return "ok eq=false"
    if case["k"] == "peq":
        return out.split(" hasheq")[0]
    return out


def oracle(case):
    k = case["k"]
    if k == "eq":
        return "ok eq=true hasheq=true" if _dist(C.dec_items(case["a"])) == _dist(C.dec_items(case["b"])) else "ok eq=false"
    if k == "peq":
        data = _ctor_data(dict(form="p", dice=case["dice"]))
        return "ok eq=true" if _dist(data) == _dist(C.dec_items(case["b"])) else "ok eq=false"
    if k == "lt":
        table = _ranks(case["h"])
        agg = Counter()
        for o, c in C.dec_items(case["h"]):
            agg[o] += c
        g = gcd(*agg.values()) if agg else 0
        items = sorted((o, c // g) for o, c in agg.items() if c)
        return ("ok " + " ".join("%d:%d" % (C.rank_of(table, o), c) for o, c in items)).strip() + " total=%d" % sum(c for _, c in items)
    if k == "ctor":
        data = _ctor_data(case)
        if any(c < 0 for _, c in data):
            return "err ValueError"
        table = C.ranks([o for o, _ in data])
        agg = {}
        for o, c in data:
            agg[o] = agg.get(o, 0) + c
        items = sorted(agg.items())
        return ("ok " + " ".join("%d:%d" % (C.rank_of(table, o), c) for o, c in items)).strip() + " total=%d" % sum(c for _, c in items)


def classify(case, got):
    return case["k"] + ("/" + case.get("twin", case.get("form", "")) if case["k"] in ("eq", "ctor") else "")


def nontrivial(case, got):
    return got.startswith("ok") and got != "ok total=0"


def describe(case):
    return case


def shrink(case):
    for key in ("a", "b", "h", "items"):
        if key in case:
            h = case[key]
            for j in range(len(h)):
                if len(h) > 1:
                    yield dict(case, **{key: h[:j] + h[j + 1 :]})
            for j, (o, c) in enumerate(h):
                if abs(c) > 1:
                    yield dict(case, **{key: h[:j] + [[o, c // abs(c)]] + h[j + 1 :]})


def _retype(rnd, items):
    out = []
    for o, c in items:
        v = C.dec_out(o)
        if isinstance(v, bool) or Fraction(v).denominator != 1:
            out.append([o, c])
            continue
        t = rnd.choice(["i", "f", "q"])
        out.append([C.enc_out(int(v) if t == "i" else float(v) if t == "f" else Fraction(v)), c])
    return out


def twin(rnd, a):
    kind = rnd.choice(["scaled", "padded", "permuted", "retyped", "near", "scaled+padded", "random", "collide", "bothpadded", "bigscaled"])
    b = [list(x) for x in a]
    if kind == "collide":
        # another distribution whose outcomes hash like a's in CPython (hash(-1) == hash(-2), hash(0) == hash(2**61 - 1))
        x, y = rnd.choice([(-1, -2), (0, 2**61 - 1), (-2, -1)])
        a[:] = [[o, c] for o, c in a if C.dec_out(o) not in (x, y)][:2] + [[C.enc_out(x), 1]]
        b = [list(oc) for oc in a[:-1]] + [[C.enc_out(y), 1]]
    if kind == "bothpadded":
        # the same distribution padded with zero-count outcomes at DIFFERENT places (same length, same total)
        a.insert(rnd.randint(0, len(a)), [C.enc_out(rnd.choice([-9, 17])), 0])
        b.insert(rnd.randint(0, len(b)), [C.enc_out(rnd.choice([42, 99])), 0])
    if kind == "bigscaled":
        k = rnd.choice([2 * (2**60 + 1), 6 * 10**20 + 6, 2**70])
        b = [[o, c * k] for o, c in b]
    if "scaled" in kind:
        k = rnd.choice([2, 3, 5])
        b = [[o, c * k] for o, c in b]
    if "padded" in kind:
        for _ in range(rnd.randint(1, 2)):
            b.insert(rnd.randint(0, len(b)), [C.enc_out(rnd.choice([-9, 17, 42, 99])), 0])
    if kind == "permuted":
        rnd.shuffle(b)
    if kind == "retyped":
        b = _retype(rnd, b)
    if kind == "near" and b:
        j = rnd.randrange(len(b))
        b[j][1] += 1
    if kind == "random":
        b = gen.rand_h(rnd, 4, "int", allow_zero_total=True)
    return kind, b


def generate(rnd, tier, scale):
    n = int((1500 if tier == "quick" else 15000) * scale)
    cat = gen.catalogue()
    for _ in range(n):
        r = rnd.random()
        kind = rnd.choice(["int", "int", "neg", "frac", "float", "bool"])
        a = rnd.choice(cat) if rnd.random() < 0.3 else gen.rand_h(rnd, 4, kind, allow_zero_total=rnd.random() < 0.15, counts=(0, 1, 1, 2, 3, 4, 6))
        if r < 0.4:
            a = [list(x) for x in a]  # twin() may rewrite a in place
            tk, b = twin(rnd, a)
            yield dict(k="eq", a=a, b=b, twin=tk)
        elif r < 0.5:
            dice = [gen.rand_h(rnd, 3, "int") for _ in range(rnd.randint(0, 3))]
            data = _ctor_data(dict(form="p", dice=dice))
            b = [[C.enc_out(o), c] for o, c in data]
            tk, b2 = twin(rnd, b)
            yield dict(k="peq", dice=dice, b=b2 if rnd.random() < 0.7 else b)
        elif r < 0.65:
            if rnd.random() < 0.15 and a:
                # a reduction by a common factor that leaves counts beyond 2**53
                big = rnd.choice([2**60 + 1, 3**40, 10**18 + 9])
                a = [[o, c * 2 * (big if i == 0 else 1)] for i, (o, c) in enumerate(a)]
            yield dict(k="lt", h=a)
        else:
            form = rnd.choice(["mapping", "pairs", "pairs", "outcomes", "h", "p", "int"])
            if form == "mapping":
                items = [list(x) for x in a]
                seen, uniq = set(), []
                for o, c in items:
                    v = C.dec_out(o)
                    if v not in seen:
                        seen.add(v)
                        uniq.append([o, c])
                rnd.shuffle(uniq)
                if rnd.random() < 0.1 and uniq:
                    uniq[rnd.randrange(len(uniq))][1] = -rnd.randint(1, 2)
                yield dict(k="ctor", form=form, items=uniq, mtype=rnd.choice(["dict", "dict", "proxy", "chain", "userdict", "counter", "ordered"]))
            elif form in ("pairs", "h"):
                items = [list(x) for x in a] + [list(x) for x in rnd.sample(a, min(len(a), rnd.randint(0, 2)))]
                rnd.shuffle(items)
                if form == "pairs" and rnd.random() < 0.15 and items:
                    # a negative count that other entries for the same outcome outweigh must still be rejected
                    j = rnd.randrange(len(items))
                    items.append([items[j][0], -1])
                    rnd.shuffle(items)
                yield dict(k="ctor", form=form, items=items, container=rnd.choice(["list", "list", "tuple", "iter", "gen", "deque"]))
            elif form == "outcomes":
                outs = [o for o, c in a for _ in range(min(c, 3))]
                rnd.shuffle(outs)
                yield dict(k="ctor", form=form, outs=outs, container=rnd.choice(["list", "list", "tuple", "iter", "gen", "deque"]))
                if rnd.random() < 0.5:
                    a, b = rnd.randint(-3, 3), rnd.randint(-3, 6)
                    yield dict(k="ctor", form="range", range=rnd.choice([[a, b, 1], [b, a, -1], [a, b, 2], [b, a, -2], [b]]))
            elif form == "int":
                yield dict(k="ctor", form=form, n=rnd.choice([0, 1, 2, 3, 6, -1, -2, -4]))
            else:
                yield dict(k="ctor", form=form, dice=[gen.rand_h(rnd, 3, "int", allow_zero_total=rnd.random() < 0.2) for _ in range(rnd.randint(0, 3))])
