"""C18 — deck-style draws and count bookkeeping are exact."""
from __future__ import annotations

from collections import Counter

import common as C
import gen

RULE = (
    "cases = corpus + seeded: draw(x) with a single outcome / iterable with repeats / mapping with positive, zero and negative "
    "amounts / absent outcomes / over-draws / equal-valued outcomes of another numeric type; deck histories drawn until exhaustion "
    "(rejected draws leave the deck unchanged); draw() under a scripted generator for every card it can pick; accumulate, "
    "zero_fill, remove; distinct = distinct case; non-trivial = positive total and at least one accepted step"
)
TRUSTED = [
    "collections.Counter semantics (Counter(iterable|mapping), subtract, unary +) are modelled",
    "draw() is driven through a scripted dyce.rng.RNG whose choices() answers every positive-weight card in turn",
]
ASSUMPTIONS = ["outcomes are totally ordered numbers"]
EXPLANATION = "theorems C18_draw_* (count, total, originals kept, never negative, sequences), C18_accumulate_*, C18_zero_fill_*, C18_remove_*"


def _req_py(req):
    """the request as the user passes it"""
    f = req["form"]
    if f == "one":
        return C.dec_out(req["o"])
    if f == "iter":
        return _iterable([C.dec_out(o) for o in req["outs"]], req.get("itype", "list"))
    if f == "tuple":
        return tuple(C.dec_out(o) for o in req["outs"])
    d = {C.dec_out(o): a for o, a in req["map"]}
    mt = req.get("mtype", "dict")
    if mt == "counter":
        return Counter(d)
    if mt == "proxy":
        import types

        return types.MappingProxyType(d)
    if mt == "custom":
        return _Map(d)
    if mt == "H" and all(a >= 0 for a in d.values()):
        from dyce import H

        return H(d)  # a histogram is a mapping of outcomes to amounts
    return d


def _iterable(data, itype):
    """the same outcomes as a list, a one-shot iterator, a generator, a deque or dict keys"""
    import collections

    if itype == "iter":
        return iter(data)
    if itype == "gen":
        return (x for x in data)
    if itype == "deque":
        return collections.deque(data)
    return data


class _Map(__import__("collections").abc.Mapping):
    """a Mapping that is not a dict"""

    def __init__(self, d):
        self._d = dict(d)

    def __getitem__(self, k):
        return self._d[k]

    def __iter__(self):
        return iter(self._d)

    def __len__(self):
        return len(self._d)


def _req_counter(req):
    f = req["form"]
    if f == "one":
        return Counter([C.dec_out(req["o"])])
    if f in ("iter", "tuple"):
        return Counter(C.dec_out(o) for o in req["outs"])
    return Counter({C.dec_out(o): a for o, a in req["map"]})


def _all_outs(case):
    outs = [C.dec_out(o) for o, _ in case["h"]]
    for req in case.get("reqs", []):
        outs += list(_req_counter(req))
    if "b" in case:
        outs += [C.dec_out(o) for o, _ in case["b"]]
    outs += [C.dec_out(o) for o in case.get("outs", [])]
    if "o" in case:
        outs.append(C.dec_out(case["o"]))
    return C.ranks(outs + [0])


def _fmt(h, table):
    return ("ok " + " ".join("%d:%d" % (C.rank_of(table, o), c) for o, c in h.items())).strip() + " total=%d" % h.total


def _toks(items, table):
    h = C.dec_h(items)
    toks = [str(len(h))]
    for o, c in h.items():
        toks += [str(C.rank_of(table, o)), str(c)]
    return toks


class _Scripted:
    """stands in for dyce.rng.RNG: choices() returns the card the script names"""

    def __init__(self, pick):
        self.pick, self.calls = pick, []

    def choices(self, population, weights=None, *, cum_weights=None, k=1):
        self.calls.append((tuple(population), tuple(weights) if weights is not None else None, k))
        return [population[self.pick]]


def impl(case):
    import dyce.rng

    table = _all_outs(case)
    k = case["k"]
    h = C.dec_h(case["h"])
    if k == "draw_seq":
        outs = []
        for req in case["reqs"]:
            before = list(h.items())
            try:
                h2 = h.draw(_req_py(req))
            except ValueError:
                outs.append("err ValueError")
                if list(h.items()) != before:
                    outs[-1] += " deck-mutated"
                continue
            if list(h.items()) != before:
                outs.append("deck-mutated")
            outs.append(_fmt(h2, table))
            h = h2
        return " | ".join(outs)
    if k == "draw_noarg":
        outs = []
        saved = dyce.rng.RNG
        try:
            positions = [i for i, c in enumerate(h.counts()) if c > 0] or [None]
            for i in positions:
                rng = _Scripted(i if i is not None else 0)
                dyce.rng.RNG = rng
                try:
                    r = h.draw()
                    outs.append(_fmt(r, table))
                except ValueError:
                    outs.append("err ValueError")
                if i is not None and (len(rng.calls) != 1 or rng.calls[0][1] != tuple(h.counts()) or rng.calls[0][0] != tuple(h.outcomes())):
                    outs.append("unexpected-rng-requests %r" % (rng.calls,))
        finally:
            dyce.rng.RNG = saved
        return " | ".join(outs)
    if k == "acc":
        b = C.dec_h(case["b"])
        form = case.get("bform", "h")
        if form == "dict":
            other = dict(b.items())
        elif form == "pairs":
            other = list(b.items())
        elif form == "iterpairs":
            other = iter(list(b.items()))
        elif form == "counter":
            other = Counter(dict(b.items()))
        elif form == "p" and b.total:
            from dyce import P

            other = P(b)  # a pool is accumulated as its histogram
        else:
            other = b
        before, alias = (list(h.items()), h.total), type(h)(h)
        out = _fmt(h.accumulate(other), table)
        if (list(h.items()), h.total) != before or (list(alias.items()), alias.total) != before:
            out += " operand-changed"
        return out
    if k == "zfill":
        return _fmt(h.zero_fill(_iterable([C.dec_out(o) for o in case["outs"]], case.get("itype", "list"))), table)
    if k == "remove":
        before, alias = (list(h.items()), h.total), type(h)(h)
        out = _fmt(h.remove(C.dec_out(case["o"])), table)
        if (list(h.items()), h.total) != before or (list(alias.items()), alias.total) != before:
            out += " operand-changed"  # "remove deletes exactly the named outcome" of the RESULT; h and H(h) stay as they were
        return out
    raise KeyError(k)


def _req_toks(cnt, table):
    toks = [str(len(cnt))]
    for o, a in cnt.items():
        toks += [str(C.rank_of(table, o)), str(a)]
    return toks


def model(case):
    table = _all_outs(case)
    k = case["k"]
    if k == "draw_seq":
        toks = _toks(case["h"], table) + [str(len(case["reqs"]))]
        for req in case["reqs"]:
            toks += _req_toks(_req_counter(req), table)
        return " ".join(["DRAWSEQ"] + toks)
    if k == "draw_noarg":
        h = C.dec_h(case["h"])
        pos = [o for o, c in h.items() if c > 0]
        if not pos:
            pos = [0]  # H.roll() of a histogram without positive counts is 0
        return [" ".join(["DRAW"] + _toks(case["h"], table) + _req_toks(Counter([o]), table)) for o in pos]
    if k == "acc":
        return " ".join(["ACC"] + _toks(case["h"], table) + _toks(case["b"], table))
    if k == "zfill":
        return " ".join(["ZFILL"] + _toks(case["h"], table) + [str(len(case["outs"]))] + [str(C.rank_of(table, C.dec_out(o))) for o in case["outs"]])
    if k == "remove":
        return " ".join(["REMOVE"] + _toks(case["h"], table) + [str(C.rank_of(table, C.dec_out(case["o"])))])


def model_post(case, out):
    parts = [p.strip() for p in out.replace(" || ", " | ").split(" | ")]
    parts = ["err ValueError" if p.startswith("err ValueError") else " ".join(p.split()) for p in parts]
    return " | ".join(parts)


def _spec_draw(cur, cnt):
    """first principles: reduce the requested outcomes, keep all originals, never negative"""
    for o, a in cnt.items():
        if a > 0 and cur.get(o, 0) < a:
            return None
    new = dict(cur)
    for o, a in cnt.items():
        new[o] = new.get(o, 0) - a
    return new


def oracle(case):
    table = _all_outs(case)
    k = case["k"]
    cur = {}
    for o, c in C.dec_items(case["h"]):
        cur[o] = cur.get(o, 0) + c

    def fmt(d):
        return ("ok " + " ".join("%d:%d" % (C.rank_of(table, o), c) for o, c in sorted(d.items()))).strip() + " total=%d" % sum(d.values())

    if k == "draw_seq":
        outs = []
        for req in case["reqs"]:
            new = _spec_draw(cur, _req_counter(req))
            if new is None:
                outs.append("err ValueError")
            else:
                cur = new
                outs.append(fmt(cur))
        return " | ".join(outs)
    if k == "draw_noarg":
        pos = [o for o, c in sorted(cur.items()) if c > 0]
        if not pos:
            new = _spec_draw(cur, Counter([0]))
            return "err ValueError" if new is None else fmt(new)
        return " | ".join(fmt(_spec_draw(cur, Counter([o]))) for o in pos)
    if k == "acc":
        for o, c in C.dec_items(case["b"]):
            cur[o] = cur.get(o, 0) + c
        return fmt(cur)
    if k == "zfill":
        for o in case["outs"]:
            cur.setdefault(C.dec_out(o), 0)
        return fmt(cur)
    if k == "remove":
        cur.pop(C.dec_out(case["o"]), None)
        return fmt(cur)


def classify(case, got):
    if case["k"] == "draw_seq":
        return "draw_seq/" + "+".join(sorted({r["form"] for r in case["reqs"]}))
    return case["k"]


def nontrivial(case, got):
    return "ok" in got and "total=0" not in got.split(" | ")[0]


def describe(case):
    return case


def shrink(case):
    h = case["h"]
    for j in range(len(h)):
        if len(h) > 1:
            yield dict(case, h=h[:j] + h[j + 1 :])
    if "reqs" in case:
        r = case["reqs"]
        for j in range(len(r)):
            if len(r) > 1:
                yield dict(case, reqs=r[:j] + r[j + 1 :])


def _rand_req(rnd, outs):
    extra = ["i:0", "i:99", "i:-5", "f:1.0", "q:2/1", "b:1"]
    pick = lambda: rnd.choice(outs) if outs and rnd.random() < 0.85 else rnd.choice(extra)  # noqa
    f = rnd.choice(["one", "one", "iter", "iter", "tuple", "map", "map"])
    if f == "one":
        return {"form": "one", "o": pick()}
    if f in ("iter", "tuple"):
        return {"form": f, "outs": [pick() for _ in range(rnd.randint(0, 4))], "itype": rnd.choice(["list", "list", "iter", "gen", "deque"])}
    m, seen = [], set()
    for _ in range(rnd.randint(0, 3)):
        o = pick()
        v = C.dec_out(o)
        if v in seen:
            continue
        seen.add(v)
        m.append([o, rnd.choice([1, 1, 2, 3, 0, -1, -2])])
    return {"form": "map", "map": m, "mtype": rnd.choice(["dict", "dict", "counter", "proxy", "custom", "H"])}


def generate(rnd, tier, scale):
    n = int((1200 if tier == "quick" else 12000) * scale)
    cat = gen.catalogue()
    for _ in range(n):
        r = rnd.random()
        kind = rnd.choice(["int", "int", "neg", "frac", "float", "bool"])
        h = rnd.choice(cat) if rnd.random() < 0.25 else gen.rand_h(rnd, 4, kind, allow_zero_total=rnd.random() < 0.1, counts=(0, 1, 1, 2, 3))
        outs = [o for o, _ in h]
        if r < 0.5:
            total = sum(c for _, c in h)
            steps = rnd.randint(1, 3) if rnd.random() < 0.6 else total + 2  # until exhaustion (and beyond)
            yield dict(k="draw_seq", h=h, reqs=[_rand_req(rnd, outs) for _ in range(min(steps, 10))])
        elif r < 0.62:
            yield dict(k="draw_noarg", h=h)
        elif r < 0.75:
            twin = rnd.random()
            btwin = h if twin < 0.1 else gen.scale_h(h, rnd.choice([2, 3])) if twin < 0.2 else (h + [[rnd.choice(["i:41", "i:-17"]), 0]]) if twin < 0.3 else None
            yield dict(k="acc", h=h, b=btwin if btwin is not None else rnd.choice(cat) if rnd.random() < 0.3 else gen.rand_h(rnd, 4, kind, allow_zero_total=True), bform=rnd.choice(["h", "h", "dict", "pairs", "iterpairs", "counter", "p", "p"]))
        elif r < 0.87:
            yield dict(k="zfill", h=h, outs=[rnd.choice(outs + ["i:0", "i:7", "i:-3", "f:2.0"]) for _ in range(rnd.randint(0, 4))], itype=rnd.choice(["list", "list", "iter", "gen", "deque"]))
        else:
            yield dict(k="remove", h=h, o=rnd.choice(outs + ["i:0", "i:7", "f:1.0"]))
