"""Shared machinery of the correspondence harness (see DESIGN.md §2, §4).

Everything here runs under /venv/bin/python with /repo first on sys.path, so the library under
test is /repo's *current working tree* (the /venv site-packages hold a different copy of dyce).
"""
from __future__ import annotations

import json
import os
import re
import subprocess
import sys
import time
import warnings
from fractions import Fraction

VERIF = os.path.dirname(os.path.dirname(os.path.abspath(__file__)))
REPO = os.environ.get("DYCE_REPO", "/repo")
LEAN = os.path.join(VERIF, "lean")
DRIVER = os.path.join(LEAN, ".lake", "build", "bin", "driver")
EVIDENCE = os.path.join(VERIF, "evidence")
REPLAYS = os.path.join(VERIF, "replays")
CORPUS = os.path.join(VERIF, "corpus")
ALLOWED_AXIOMS = {"propext", "Classical.choice", "Quot.sound"}
GUARD = "POSITA_DYCE_VERIF"


# ---------------------------------------------------------------------------------------------
# the implementation under test
# ---------------------------------------------------------------------------------------------

_dyce = None


def load_dyce():
    """Import dyce from /repo's working tree and make sure that is what we got."""
    global _dyce
    if _dyce is not None:
        return _dyce
    warnings.simplefilter("ignore")
    os.environ.setdefault(GUARD, "1")
    if sys.path[0] != REPO:
        sys.path.insert(0, REPO)
    import dyce  # noqa

    where = os.path.realpath(dyce.__file__)
    if not where.startswith(os.path.realpath(REPO) + os.sep):
        raise RuntimeError(f"dyce imported from {where}, not from {REPO}")
    _dyce = dyce
    return dyce


def clear_caches():
    """cache_clear() every functools cache found in dyce.p / dyce.h (robust to renames)."""
    import dyce.h
    import dyce.p

    for mod in (dyce.p, dyce.h):
        for name in dir(mod):
            f = getattr(mod, name, None)
            if hasattr(f, "cache_clear"):
                try:
                    f.cache_clear()
                except Exception:
                    pass


def exc_name(e: BaseException) -> str:
    n = type(e).__name__
    if "Beartype" in n:
        return "Beartype"
    if n in (
        "IndexError",
        "ValueError",
        "TypeError",
        "ZeroDivisionError",
        "OverflowError",
        "RecursionError",
        "AssertionError",
        "KeyError",
        "NotImplementedError",
    ):
        return n
    return "Other:" + n


# ---------------------------------------------------------------------------------------------
# outcome encoding (JSON-safe, type preserving)
# ---------------------------------------------------------------------------------------------


def enc_out(o) -> str:
    if isinstance(o, bool):
        return "b:%d" % int(o)
    if isinstance(o, int):
        return "i:%d" % o
    if isinstance(o, Fraction):
        return "q:%d/%d" % (o.numerator, o.denominator)
    if isinstance(o, float):
        return "f:" + repr(o)
    if type(o).__name__ == "Decimal":
        return "d:" + str(o)
    try:
        import numpy as np

        if isinstance(o, np.integer):
            return "n:%d" % int(o)
    except Exception:
        pass
    return "?:" + repr(o)


def dec_out(s: str):
    t, v = s.split(":", 1)
    if t == "b":
        return bool(int(v))
    if t == "i":
        return int(v)
    if t == "q":
        a, b = v.split("/")
        return Fraction(int(a), int(b))
    if t == "f":
        return float(v)
    if t == "d":
        import decimal

        return decimal.Decimal(v)
    if t == "n":
        import numpy as np

        return np.int64(int(v))
    raise ValueError(s)


def enc_h(h) -> list:
    """histogram (H or dict or list of pairs) -> [[outcome-string, count], ...] in item order"""
    items = h.items() if hasattr(h, "items") else h
    return [[enc_out(o), int(c)] for o, c in items]


def dec_h(items):
    """-> dyce.H with the very same insertion order / types"""
    from dyce import H

    return H([(dec_out(o), c) for o, c in items])


def dec_items(items):
    return [(dec_out(o), c) for o, c in items]


def frac_str(x) -> str:
    f = Fraction(x)
    return "%d/%d" % (f.numerator, f.denominator)


# ---------------------------------------------------------------------------------------------
# Lean side
# ---------------------------------------------------------------------------------------------


def sh(cmd, cwd=None, timeout=None, input=None):
    p = subprocess.run(
        cmd, cwd=cwd, shell=isinstance(cmd, str), capture_output=True, text=True, timeout=timeout, input=input
    )
    return p.returncode, p.stdout + p.stderr


_build_cache = {}


def lean_build(targets=("Dyce", "driver")):
    """`lake build` (no-op when up to date). Returns (ok, log)."""
    key = tuple(targets)
    if key in _build_cache:
        return _build_cache[key]
    rc, out = sh(["lake", "build", *targets], cwd=LEAN, timeout=3000)
    _build_cache[key] = (rc == 0, out)
    return _build_cache[key]


def property_theorems(prop: str):
    """names of the property theorems: every `theorem` of lean/Dyce/Props/<prop>.lean"""
    path = os.path.join(LEAN, "Dyce", "Props", prop + ".lean")
    if not os.path.exists(path):
        return path, []
    src = open(path).read()
    # strip comments so that commented-out statements do not count
    src_nc = re.sub(r"/-.*?-/", "", src, flags=re.S)
    src_nc = re.sub(r"--.*", "", src_nc)
    names = re.findall(r"^\s*theorem\s+([A-Za-z_][\w.']*)", src_nc, flags=re.M)
    return path, names


def forbidden_tokens(prop: str):
    """grep the proof sources for things the trusted base excludes"""
    bad = []
    pat = re.compile(r"\b(sorry|admit|native_decide|bv_decide|implemented_by|unsafe)\b|^\s*axiom\s|maxHeartbeats 0", re.M)
    for root, _, files in os.walk(os.path.join(LEAN, "Dyce")):
        for fn in files:
            if fn.endswith(".lean"):
                src = open(os.path.join(root, fn)).read()
                src = re.sub(r"/-.*?-/", "", src, flags=re.S)
                src = re.sub(r"--.*", "", src)
                for m in pat.finditer(src):
                    bad.append(f"{fn}: {m.group(0).strip()}")
    return bad


def audit(prop: str, tier: str = "quick"):
    """Build, then `#print axioms` every property theorem.

    Returns dict(obligations=[names], discharged=[names], failed={name: reason}, log=str, cmd=str)."""
    res = dict(obligations=[], discharged=[], failed={}, log="", cmd="")
    path, names = property_theorems(prop)
    res["obligations"] = names
    ok, log = lean_build()
    res["cmd"] = "cd lean && lake build Dyce driver && lake env lean <#print axioms of every theorem in Dyce/Props/%s.lean>" % prop
    if not ok:
        res["log"] = log[-4000:]
        for n in names:
            res["failed"][n] = "build failed"
        if not names:
            res["failed"]["<build>"] = "build failed"
        return res
    if not names:
        res["failed"]["<none>"] = "no property theorems found in " + path
        return res
    bad = forbidden_tokens(prop)
    aud = os.path.join(LEAN, ".lake", "audit_%s.lean" % prop)
    with open(aud, "w") as f:
        f.write("import Dyce.Props.%s\nnamespace Dyce.Rng\nend Dyce.Rng\nnamespace Dyce.Guard\nend Dyce.Guard\nopen Dyce Dyce.Rng Dyce.Guard\n" % prop)
        for n in names:
            f.write("#print axioms %s\n" % n)
    rc, out = sh(["lake", "env", "lean", aud], cwd=LEAN, timeout=3000)
    res["log"] = out[-4000:]
    found = {}
    for m in re.finditer(r"'([^']+)' (?:depends on axioms: \[([^\]]*)\]|does not depend on any axioms)", out):
        axs = [a.strip() for a in (m.group(2) or "").replace("\n", " ").split(",") if a.strip()]
        found[m.group(1).split(".")[-1]] = axs
        found[m.group(1)] = axs
    if tier == "thorough":
        # independent re-check of the compiled module by Lean's external checker
        rc2, out2 = sh(["lake", "env", "leanchecker", "Dyce.Props.%s" % prop], cwd=LEAN, timeout=3000)
        res["leanchecker"] = "ok" if rc2 == 0 else "FAILED: " + out2[-500:]
        res["cmd"] += " && lake env leanchecker Dyce.Props.%s" % prop
        if rc2 != 0:
            bad = bad + ["leanchecker rejected Dyce.Props.%s" % prop]
    for n in names:
        short = n.split(".")[-1]
        if n in found or short in found:
            axs = found.get(n, found.get(short))
            extra = [a for a in axs if a not in ALLOWED_AXIOMS]
            if extra:
                res["failed"][n] = "axioms " + ",".join(extra)
            elif bad:
                res["failed"][n] = "forbidden token in sources: " + "; ".join(bad[:3])
            else:
                res["discharged"].append(n)
        else:
            res["failed"][n] = "not checked (missing or error)"
    return res


def run_driver(lines, timeout=3000):
    """Pipe op lines to the compiled Lean driver; one answer line per op."""
    if not lines:
        return []
    ok, log = lean_build()
    if not ok or not os.path.exists(DRIVER):
        raise DriverUnavailable(log[-2000:])
    p = subprocess.run([DRIVER], input="\n".join(lines) + "\n", capture_output=True, text=True, timeout=timeout)
    out = p.stdout.split("\n")
    if out and out[-1] == "":
        out.pop()
    if len(out) != len(lines):
        raise DriverUnavailable(
            "driver answered %d lines for %d ops (rc=%s) stderr=%s" % (len(out), len(lines), p.returncode, p.stderr[-500:])
        )
    return [o.strip() for o in out]


class DriverUnavailable(Exception):
    pass


class CaseTimeout(BaseException):
    """one implementation call ran far longer than any case of this check should (raised from SIGALRM)"""


# set by the runner's alarm handler, cleared before every case: harness callbacks running inside the code under test
# give up at once when it is set (code that swallows the timeout exception would otherwise carry on for ever)
TIMED_OUT = [False]


def check_timeout():
    if TIMED_OUT[0]:
        raise CaseTimeout()


# ---------------------------------------------------------------------------------------------
# known findings
# ---------------------------------------------------------------------------------------------


def load_known_findings():
    p = os.path.join(VERIF, "known_findings.json")
    if not os.path.exists(p):
        return []
    return json.load(open(p))


# ---------------------------------------------------------------------------------------------
# small helpers for encoders
# ---------------------------------------------------------------------------------------------


def ranks(values):
    """order- and equality-preserving map of Python numbers onto 0..m-1 (1 == 1.0 == True share a rank)"""
    distinct = []
    for v in sorted(values):
        if not distinct or distinct[-1] != v:
            distinct.append(v)
    return distinct


def rank_of(distinct, v):
    import bisect

    i = bisect.bisect_left(distinct, v)
    assert i < len(distinct) and distinct[i] == v, (distinct, v)
    return i


def ilist(xs):
    xs = list(xs)
    return [str(len(xs))] + [str(int(x)) for x in xs]


def now():
    return time.time()


# ---------------------------------------------------------------------------------------------
# source fingerprints (escalation only, never an alarm)
# ---------------------------------------------------------------------------------------------


def anchored_files(prop):
    for l in open(os.path.join(VERIF, "properties.jsonl")):
        p = json.loads(l)
        if p["id"] == prop:
            return p["anchors"]["files"]
    return []


def fingerprint(path):
    import ast
    import hashlib

    try:
        tree = ast.parse(open(path).read())
    except Exception:
        return "unparsable"
    return hashlib.sha256(ast.dump(tree, include_attributes=False).encode()).hexdigest()[:16]


def fingerprints_changed(prop):
    """files anchoring the property whose AST differs from the one recorded for the verified tree"""
    rec_path = os.path.join(VERIF, "harness", "fingerprints.json")
    if not os.path.exists(rec_path):
        return []
    rec = json.load(open(rec_path))
    changed = []
    for f in anchored_files(prop):
        if rec.get(f) != fingerprint(os.path.join(REPO, f)):
            changed.append(f)
    return changed
