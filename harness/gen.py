"""Generators shared by the property modules (DESIGN.md §4.2). All randomness comes from the one
`random.Random` handed in by run.py (seeded from VERIF_SEED)."""
from __future__ import annotations

from fractions import Fraction

from common import enc_out

# ---------------------------------------------------------------------------------------------
# histograms (as encoded item lists: [[outcome-string, count], ...])
# ---------------------------------------------------------------------------------------------


def catalogue():
    """hand-picked histograms: unit dice, weighted, unreduced, zero-count faces at either end / in
    the middle / several in a row, single-faced, negative and zero outcomes, Fractions, bools,
    integral float twins, empty and zero-total"""
    F = Fraction
    raw = [
        [(1, 1), (2, 1), (3, 1)],
        [(1, 1), (2, 1), (3, 1), (4, 1), (5, 1), (6, 1)],
        [(1, 1), (2, 1)],
        [(1, 2), (2, 2)],  # proportional twin of the previous one
        [(1, 3), (2, 3)],
        [(1, 2), (2, 1), (3, 3)],
        [(1, 4), (2, 2), (3, 6)],  # unreduced
        [(0, 1), (3, 0), (4, 0)],  # zero counts at the far end
        [(1, 0), (2, 0), (3, 1), (4, 1)],  # zero counts at the near end
        [(1, 1), (2, 0), (3, 0), (4, 2)],  # zero counts in the middle
        [(1, 0), (2, 1)],
        [(5, 1)],  # single face
        [(5, 3)],
        [(-2, 1), (-1, 2), (0, 1)],
        [(-1, 1), (0, 1), (1, 1)],
        [(F(1, 2), 1), (F(3, 2), 2)],
        [(F(-1, 3), 1), (0, 1), (F(1, 3), 1)],
        [(False, 1), (True, 2)],
        [(1.0, 1), (2.0, 1), (3.0, 1)],  # float twin of the first one
        [(2, 1), (4, 1), (6, 1)],
        [(1, 1), (3, 1), (5, 2)],
        [(0, 5), (1, 1)],
        [(1, 0)],  # zero total
        [],  # empty
    ]
    return [[[enc_out(o), c] for o, c in h] for h in raw]


def rand_outcomes(rnd, k, kind=None):
    kind = kind or rnd.choice(["int", "int", "int", "int", "neg", "frac", "bool", "float"])
    if kind == "int":
        return rnd.sample(range(0, max(8, k + 2)), k)
    if kind == "neg":
        return rnd.sample(range(-4, max(4, k)), k)
    if kind == "frac":
        pool = [Fraction(n, d) for n in range(-3, 6) for d in (1, 2, 3)]
        pool = sorted(set(pool))
        return rnd.sample(pool, k)
    if kind == "bool":
        return rnd.sample([False, True], min(k, 2))
    if kind == "float":
        return [float(x) for x in rnd.sample(range(-2, max(6, k)), k)]
    if kind == "dec":
        import decimal

        return [decimal.Decimal(x) for x in rnd.sample(range(-5, max(6, k)), k)]
    raise ValueError(kind)


def rand_h(rnd, max_faces=4, kind=None, allow_zero_total=False, counts=(0, 1, 1, 1, 2, 3)):
    k = rnd.randint(1, max_faces)
    outs = rand_outcomes(rnd, k, kind)
    while True:
        items = [[enc_out(o), rnd.choice(counts)] for o in outs]
        if allow_zero_total or any(c for _, c in items):
            break
    if rnd.random() < 0.5:
        items.sort(key=lambda oc: _val(oc[0]))
    return items


def _val(s):
    from common import dec_out

    return dec_out(s)


def scale_h(items, k):
    return [[o, c * k] for o, c in items]


def rand_pool(rnd, max_dice=4, max_faces=4, kind=None):
    """0..max_dice dice mixing identical, proportional, overlapping and disjoint histograms"""
    kind = kind or rnd.choice(["int", "int", "int", "neg", "frac", "float", "bool"])
    base = [rand_h(rnd, max_faces, kind) for _ in range(rnd.randint(1, 2))]
    n = rnd.randint(0, max_dice)
    hs = [rnd.choice(base) for _ in range(n)]
    r = rnd.random()
    if r < 0.25 and len(hs) < max_dice:
        hs.append(rand_h(rnd, max_faces, kind))
    if rnd.random() < 0.25 and hs and len(hs) < max_dice + 1:
        hs.append(scale_h(rnd.choice(hs), rnd.choice([2, 3])))  # proportional twin
    if rnd.random() < 0.15 and hs:
        # same faces, same total, other weights: a different die that many coarse keys cannot tell apart
        h = rnd.choice(hs)
        cs = [c for _, c in h]
        if len(set(cs)) > 1:
            cs2 = cs[1:] + cs[:1]
            hs.append([[o, c] for (o, _), c in zip(h, cs2)])
    if rnd.random() < 0.1 and hs:
        hs.append(catalogue()[rnd.choice([7, 8, 9, 10])])  # zero-count catalogue entries
    rnd.shuffle(hs)
    return hs


# ---------------------------------------------------------------------------------------------
# selections: list of ["i", int] | ["s", start|None, stop|None, step|None]
# ---------------------------------------------------------------------------------------------


def rand_which(rnd, n, max_ids=3, allow_bad=True):
    style = rnd.random()
    w = []
    if n == 0:
        if rnd.random() < 0.5:
            return []
    if style < 0.15:  # hugging the low end
        k = rnd.randint(1, max(1, n))
        return [["s", None, k, None]] if rnd.random() < 0.5 else [["i", j] for j in range(min(k, n))]
    if style < 0.30:  # hugging the high end
        k = rnd.randint(1, max(1, n))
        return [["s", -k, None, None]] if rnd.random() < 0.5 else [["i", -j - 1] for j in range(min(k, n))]
    if style < 0.40:  # everything m times
        m = rnd.randint(1, 3)
        one = rnd.choice([[["s", None, None, None]], [["s", None, None, -1]], [["i", j] for j in range(n)]])
        return [x for _ in range(m) for x in one]
    if style < 0.44 and n >= 2:  # every position covered, unequal multiplicities, length a multiple of n
        idx = list(range(n)) + [rnd.randrange(n) for _ in range(n * rnd.randint(1, 2))]
        if rnd.random() < 0.5:
            rnd.shuffle(idx)
        return [["i", j if rnd.random() < 0.7 else j - n] for j in idx]
    if style < 0.47 and n >= 3:  # the middle
        return [["s", 1, n - 1, None]]
    for _ in range(rnd.randint(0, max_ids)):
        if rnd.random() < 0.5:
            if allow_bad and rnd.random() < 0.08:
                w.append(["i", rnd.choice([n, n + 1, -n - 1, -n - 2])])
            elif n:
                w.append(["i", rnd.randint(-n, n - 1)])
        else:
            ri = lambda: rnd.choice([None] + list(range(-n - 1, n + 2)))  # noqa
            w.append(["s", ri(), ri(), rnd.choice([None, None, 1, -1, 2, -2, 3])])
    return w


def which_to_py(which):
    out = []
    for w in which:
        if w[0] == "i":
            out.append(w[1])
        else:
            out.append(slice(w[1], w[2], w[3]))
    return tuple(out)


def which_tokens(which):
    out = [str(len(which))]
    for w in which:
        if w[0] == "i":
            out += ["0", str(w[1])]
        else:
            out.append("1")
            for v in w[1:4]:
                out += ["0", "0"] if v is None else ["1", str(v)]
    return out


def resolve_which(n, which):
    """positions selected (Python's own indexing rules) or raises IndexError"""
    rng = range(n)
    idxs = []
    for w in which_to_py(which):
        if isinstance(w, slice):
            idxs.extend(rng[w])
        else:
            idxs.append(rng[w])
    return idxs
