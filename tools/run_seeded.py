#!/usr/bin/env python3
"""Apply every seeded change under seeded/ to /repo (one at a time, always undone), run the quick
check of the property it breaks, and record the verdict in its meta.json (+ seeded/RESULTS.md)."""
import glob, json, os, subprocess, sys
V = os.path.dirname(os.path.dirname(os.path.abspath(__file__)))
rows = []
only = sys.argv[1:]
for d in sorted(glob.glob(os.path.join(V, "seeded", "C*-*"))):
    mid = os.path.basename(d)
    if only and not any(mid.startswith(o) or mid.endswith(o) for o in only):
        continue
    meta = json.load(open(os.path.join(d, "meta.json")))
    prop = meta["breaks_property"]
    assert subprocess.run(["git", "-C", "/repo", "diff", "--quiet"]).returncode == 0, "/repo dirty"
    if subprocess.run(["git", "-C", "/repo", "apply", os.path.join(d, "patch.diff")]).returncode != 0:
        print(mid, "PATCH DOES NOT APPLY to the current /repo", flush=True)
        rows.append((mid, prop, -1, 0, "patch does not apply to the current tree"))
        continue
    try:
        p = subprocess.run([os.path.join(V, "check"), prop, "--tier", "quick"], capture_output=True, text=True, timeout=3000)
    finally:
        subprocess.run(["git", "-C", "/repo", "checkout", "--", "."], check=True)
        # the evidence file was just rewritten from a run against a CHANGED tree: never leave it for a commit
        subprocess.run(["git", "-C", V, "checkout", "--", "evidence/%s.json" % prop])
    out = p.stdout.strip().split("\n")
    viol = [l for l in out if l.startswith("VIOLATION")]
    replay = None
    what = None
    if viol:
        path = viol[0].split("replay=")[1].split()[0]
        try:
            j = json.load(open(path))
            what = {"kind": j.get("kind"), "case": j.get("describe") or j.get("case"), "implementation": str(j.get("implementation"))[:300], "expected": str(j.get("expected"))[:300], "expected_by": j.get("expected_by")}
        except Exception:
            pass
    meta["detected_by"] = {"check": "./check %s --tier quick" % prop, "exit_code": p.returncode, "violation_lines": len(viol),
                           "no_failing_input_found": any("no-failing-input-found" in l for l in viol), "first_replay": what, "summary": out[-1] if out else ""}
    if not os.environ.get("SEEDED_DRY"):
        json.dump(meta, open(os.path.join(d, "meta.json"), "w"), indent=1)
    rows.append((mid, prop, p.returncode, len(viol), out[-1] if out else ""))
    print(mid, "exit", p.returncode, "violations", len(viol), flush=True)
if os.environ.get("SEEDED_DRY"):
    # a robustness run (e.g. under another VERIF_SEED): report, record nothing
    print("dry run: detected", sum(1 for r in rows if r[2] == 1), "of", len(rows), "missed:", [r[0] for r in rows if r[2] != 1])
    sys.exit(0)
# the table always reflects every meta.json (a partial run refreshes only its own rows)
table = []
for d in sorted(glob.glob(os.path.join(V, "seeded", "C*-*"))):
    meta = json.load(open(os.path.join(d, "meta.json")))
    db = meta.get("detected_by") or {}
    table.append((os.path.basename(d), meta["breaks_property"], db.get("exit_code", "not run"), db.get("violation_lines", 0), db.get("summary", "")))
with open(os.path.join(V, "seeded", "RESULTS.md"), "w") as f:
    f.write("| seeded change | property | quick check exit | VIOLATION lines | summary |\n|---|---|---|---|---|\n")
    for r in table:
        f.write("| %s | %s | %s | %s | %s |\n" % r)
print("detected", sum(1 for r in table if r[2] == 1), "of", len(table))
