#!/bin/bash
# tools/try_mutant.sh <patch.diff> <Cxx> [tier]   -- apply a seeded change to /repo, run the check, undo
set -u
patch="$1"; prop="$2"; tier="${3:-quick}"
cd /repo || exit 3
if ! git diff --quiet; then echo "/repo is dirty"; exit 3; fi
git apply "$patch" || exit 3
cd /verif && ./check "$prop" --tier "$tier"; rc=$?
git -C /repo checkout -- .
echo "exit=$rc"
