#!/bin/bash
# tools/confirm_mutant.sh <Cxx> <A|B>  -- confirm a sub-agent's seeded change in its scratch worktree
# (tests still pass with it; demo fails with it and passes without it) and file it under seeded/.
set -u
prop="$1"; m="$2"; base="${MUT_BASE:-/tmp/mut}"; wt=$base/$prop; src=$base/out/$prop/$m; dst=/verif/seeded/$prop-$m
[ -d "$wt" ] || git -C /repo worktree add -q --detach "$wt" HEAD
git -C "$wt" checkout -q -- . ; git -C "$wt" clean -fdq
cd "$wt" || exit 3
PYTHONPATH=$wt /venv/bin/python "$src/demo.py" >/dev/null 2>&1; clean_rc=$?
git apply "$src/patch.diff" || { echo "$prop-$m: patch does not apply"; exit 3; }
tests=$(/venv/bin/python -m pytest -q -p no:cacheprovider --timeout=900 2>&1 | tail -1)
PYTHONPATH=$wt /venv/bin/python "$src/demo.py" >/dev/null 2>&1; mut_rc=$?
git checkout -q -- . ; git clean -fdq
ok=no
if [ $clean_rc -eq 0 ] && [ $mut_rc -ne 0 ] && echo "$tests" | grep -q "^250 passed"; then ok=yes; fi
echo "$prop-$m: demo clean rc=$clean_rc mutant rc=$mut_rc tests='$tests' confirmed=$ok"
if [ $ok = yes ]; then
  mkdir -p "$dst"; cp "$src/patch.diff" "$src/demo.py" "$dst/"; cp "$src/notes.txt" "$dst/notes.txt"
  python3 - "$prop" "$m" "$tests" <<'PY'
import json,sys,os
prop,m,tests=sys.argv[1:4]
d=f"/verif/seeded/{prop}-{m}"
meta={"id":f"{prop}-{m}","breaks_property":prop,"needs_to_manifest":open(d+"/notes.txt").read().strip(),
 "confirmed":{"worktree":f"scratch git worktree of /repo HEAD under /tmp (removed afterwards)",
  "test_suite_with_change":tests,"demo_without_change":"exit 0","demo_with_change":"non-zero exit (assertion)",
  "commands":[f"git -C /tmp/mut/{prop} apply patch.diff","cd /tmp/mut/%s && /venv/bin/python -m pytest -q -p no:cacheprovider --timeout=900"%prop,f"PYTHONPATH=/tmp/mut/{prop} /venv/bin/python demo.py"]},
 "detected_by":None}
p=d+"/meta.json"
if os.path.exists(p):
    old=json.load(open(p)); meta["detected_by"]=old.get("detected_by")
json.dump(meta,open(p,"w"),indent=1)
PY
fi
