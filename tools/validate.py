#!/usr/bin/env python3-vt
import json, jsonschema, glob, sys
jsonschema.validate(json.load(open('/verif/MANIFEST.json')), json.load(open('/root/.vp/MANIFEST.schema.json')))
es=json.load(open('/root/.vp/EVIDENCE.schema.json'))
for f in sorted(glob.glob('/verif/evidence/*.json')):
    jsonschema.validate(json.load(open(f)), es)
m=json.load(open('/verif/MANIFEST.json'))
claimed={c['property_id'] for c in m['checks']}
na={c['property_id'] for c in m.get('not_applicable',[])}
allp={json.loads(l)['id'] for l in open('/verif/properties.jsonl')}
print("ok; claimed", len(claimed), "n/a", len(na), "unlisted", sorted(allp-claimed-na))
