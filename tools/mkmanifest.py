#!/usr/bin/env python3
"""Regenerate MANIFEST.json from tools/claims.json (one entry per claimed property)."""
import json, os
V = os.path.dirname(os.path.dirname(os.path.abspath(__file__)))
claims = json.load(open(os.path.join(V, "tools", "claims.json")))
allp = [json.loads(l)["id"] for l in open(os.path.join(V, "properties.jsonl"))]
checks = []
for pid in allp:
    if pid not in claims["claimed"]:
        continue
    c = claims["claimed"][pid]
    checks.append({
        "property_id": pid,
        "quick_cmd": "./check %s --tier quick" % pid,
        "thorough_cmd": "./check %s --tier thorough" % pid,
        "evidence_file": "evidence/%s.json" % pid,
        "replay_cmd_template": "./check %s --replay {path}" % pid,
        "engine": "lean-model",
        "level_claimed": {"category": "proof", "text": c["text"], "design_ref": c["design_ref"]},
        "level_note": c["note"],
        "technique": c.get("technique", "Lean 4 proof (induction/invariants) + differential correspondence check against /repo"),
    })
na = [{"property_id": p, "reason": claims.get("not_applicable", {}).get(p, "not claimed yet: model/theorems/correspondence for this property are still under construction in this framework (Lean 4 proof is applicable in principle; see DESIGN.md §5)")} for p in allp if p not in claims["claimed"]]
m = {
    "version": 1,
    "setup_cmd": "cd lean && lake build Dyce driver",
    "hooks": {
        "guard": "POSITA_DYCE_VERIF",
        "enable": "no source hooks are needed: the harness drives the public API of /repo's working tree in-process (PYTHONPATH=/repo); ./check exports the guard variable but nothing in /repo reads it",
        "baseline_off_cmd": "cd /repo && /venv/bin/python -m pytest -ra -q -p no:cacheprovider --timeout=900 --continue-on-collection-errors",
        "source_commits": [],
        "add_only": True,
    },
    "engines": [
        {"name": "lean-model", "path": "lean/", "serves_properties": sorted(claims["claimed"]), "kind_free_text": "Lean 4 model + theorems (lake project Dyce, Mathlib single modules), compiled line-protocol driver"},
        {"name": "correspondence-harness", "path": "harness/", "serves_properties": sorted(claims["claimed"]), "kind_free_text": "Python differential harness: /repo's dyce vs the compiled Lean model vs an independent oracle; shrinking, replay, known findings, evidence"},
    ],
    "checks": checks,
    "not_applicable": na,
    "notes": "See DESIGN.md. Genuine defects repaired by fix: commits in /repo and the one open finding are listed in known_findings.json.",
}
json.dump(m, open(os.path.join(V, "MANIFEST.json"), "w"), indent=1)
print("claimed", len(checks), "not claimed", len(na))
