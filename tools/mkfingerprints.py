#!/venv/bin/python
"""Record the AST fingerprints of the anchored source files of the tree the checks were validated on."""
import json, os, sys
V = os.path.dirname(os.path.dirname(os.path.abspath(__file__)))
sys.path.insert(0, os.path.join(V, "harness"))
import common as C
files = sorted({f for l in open(os.path.join(V, "properties.jsonl")) for f in json.loads(l)["anchors"]["files"]})
json.dump({f: C.fingerprint(os.path.join(C.REPO, f)) for f in files}, open(os.path.join(V, "harness", "fingerprints.json"), "w"), indent=1)
print(files)
