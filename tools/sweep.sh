#!/bin/bash
# tools/sweep.sh <tier> <seed>... : every check on the unchanged tree, several seeds, in parallel
tier="$1"; shift
cd "$(dirname "$0")/.."
for seed in "$@"; do
  for p in $(python3 -c "import json;print(' '.join(c['property_id'] for c in json.load(open('MANIFEST.json'))['checks']))"); do
    echo "$seed $p"
  done
done | xargs -P 8 -L 1 bash -c 'out=$(VERIF_SEED=$0 ./check $1 --tier '"$tier"' 2>&1); rc=$?; echo "seed=$0 $1 rc=$rc $(echo "$out" | tail -1)"; if [ $rc -ne 0 ]; then echo "$out" | grep -v "^C[0-9]" | head -5; fi'
