import Dyce.Driver
/-! Line-protocol driver: one op per line (`OPCODE int int …`), one answer line per op. -/

partial def loop (h : IO.FS.Stream) : IO Unit := do
  let line ← h.getLine
  if line.isEmpty then return ()
  IO.println (Dyce.Driver.answer line.trimAscii.toString)
  loop h

def main : IO Unit := do loop (← IO.getStdin)
