import Dyce.PoolModel
import Dyce.HistModel
/-! Import-free model of `P.h(*which)`. -/
namespace Dyce

variable {α : Type}

/-- `sum(roll)` (Python's `sum` starts from `0`); padding slots never occur in a selected roll -/
def sumRoll (zero : α) (add : α → α → α) (r : List (Option α)) : α :=
  r.foldl (fun acc o => match o with | some x => add acc x | none => acc) zero

/-- the enumeration path of `P.h(*which)`: `H((sum(roll), count) for roll, count in rolls_with_counts(*which))` -/
def viaRolls [DecidableEq α] (le : α → α → Bool) (zero : α) (add : α → α → α)
    (dice : List (Hist α)) (which : List Sel) : Except PyErr (Hist α) := do
  let L ← rollsWithCounts le dice which
  pure (ofItems le (L.map fun e => (sumRoll zero add e.1, e.2)))

/-- `P.h(*which)` -/
def poolH [DecidableEq α] (le : α → α → Bool) (zero : α) (add : α → α → α) (smul : Nat → α → α)
    (dice : List (Hist α)) (which : List Sel) : Except PyErr (Hist α) :=
  match which with
  | [] => .ok (sumH le zero add dice)
  | _ => do
    let n := dice.length
    let idxs ← resolve n which
    match analyze n idxs with
    | some i =>
      if i ≠ 0 ∧ i ≥ n then
        -- every die selected exactly `i // n` times: `self.h() * (i // n)`
        pure (umapH le (smul (i / n).toNat) (sumH le zero add dice))
      else viaRolls le zero add dice which
    | none => viaRolls le zero add dice which

end Dyce
