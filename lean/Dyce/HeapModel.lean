import Dyce.Model
/-! Import-free model of the object population the public API works on (C15): histogram objects
point to WRITE-ONCE mapping cells (`H(h)` shares the cell of `h`), pools are tuples of histogram
objects, rollers carry an annotation; every public operation allocates, none overwrites. -/
namespace Dyce

/-- a histogram object: the index of its mapping cell -/
structure HObj where
  cell : Nat
  deriving DecidableEq, Repr

structure Heap where
  /-- mapping cells (`H._h`), written once when allocated -/
  cells : List (Hist Int)
  /-- histogram objects, in order of creation -/
  hs : List HObj
  /-- pools: tuples of histogram objects -/
  ps : List (List Nat)
  /-- rollers: a structural description (opaque here) and an annotation -/
  rs : List (Nat × Int)

def Heap.empty : Heap := ⟨[], [], [], []⟩

/-- what a public operation does to the population -/
inductive HeapOp where
  /-- an operation returning a new histogram with the given content (arithmetic, `lowest_terms`,
  `draw`, `remove`, `accumulate`, `explode`, `P.h`, …) -/
  | newH (content : Hist Int)
  /-- `H(h)`: a new object sharing the mapping of object `i` -/
  | aliasH (i : Nat)
  /-- `P(...)`, `n@p`, `p[i:j]`: a new pool over existing histogram objects -/
  | newP (dice : List Nat)
  /-- a new roller (`r.annotate(x)` copies; arithmetic / selection build new nodes) -/
  | newR (shape : Nat) (annotation : Int)
  /-- a query or a rejected call: returns a value or raises, allocates nothing -/
  | pureOrFail

def Heap.step (hp : Heap) : HeapOp → Heap
  | .newH content => { hp with cells := hp.cells ++ [content], hs := hp.hs ++ [⟨hp.cells.length⟩] }
  | .aliasH i =>
    match hp.hs[i]? with
    | some o => { hp with hs := hp.hs ++ [o] }
    | none => hp
  | .newP dice => { hp with ps := hp.ps ++ [dice] }
  | .newR shape ann => { hp with rs := hp.rs ++ [(shape, ann)] }
  | .pureOrFail => hp

def Heap.run (hp : Heap) (ops : List HeapOp) : Heap := ops.foldl Heap.step hp

/-- the observable content of histogram object `i` -/
def Heap.observeH (hp : Heap) (i : Nat) : Option (Hist Int) :=
  match hp.hs[i]? with
  | some o => hp.cells[o.cell]?
  | none => none

/-- the observable content of pool `j`: its dice and their order -/
def Heap.observeP (hp : Heap) (j : Nat) : Option (List (Option (Hist Int))) :=
  (hp.ps[j]?).map fun dice => dice.map hp.observeH

def Heap.observeR (hp : Heap) (k : Nat) : Option (Nat × Int) := hp.rs[k]?

/-- every object points to an allocated cell -/
def Heap.WF (hp : Heap) : Prop := ∀ o ∈ hp.hs, o.cell < hp.cells.length

end Dyce
