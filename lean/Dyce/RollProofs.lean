import Dyce.RollModel
import Dyce.RollerProofs
import Dyce.PoolHetero
import Dyce.HistProofs
import Mathlib.Tactic.Ring

/-! C10: `random.choices` picks index `i` for exactly `weights[i]` of the `total` equally likely
integer parts of `random() * total`; `H.roll` / `P.roll` in the weighted-list monad have exactly
the encoded distribution. -/
namespace Dyce
open List

/-- **fair chooser**: among the `total` equally likely values of `⌊random()·total⌋`, exactly
`weights[i]` select index `i` — so a zero-weight entry is never selected -/
theorem pickIdx_count (ws : List Nat) (i : Nat) (hi : i < ws.length) :
    ((List.range ws.sum).filter fun u => pickIdx ws u = i).length = ws[i] := by
  induction ws generalizing i with
  | nil => simp at hi
  | cons w ws ih =>
    rw [List.sum_cons, List.range_add, List.filter_append, List.length_append]
    have h1 : ∀ u ∈ List.range w, pickIdx (w :: ws) u = 0 := by
      intro u hu; simp only [List.mem_range] at hu; simp [pickIdx, hu]
    have h2 : ∀ k, pickIdx (w :: ws) (w + k) = 1 + pickIdx ws k := by
      intro k; simp [pickIdx]
    cases i with
    | zero =>
      have e1 : (List.range w).filter (fun u => pickIdx (w :: ws) u = 0) = List.range w := by
        rw [List.filter_eq_self]; intro u hu; simp [h1 u hu]
      have e2 : ((List.range ws.sum).map (w + ·)).filter (fun u => pickIdx (w :: ws) u = 0) = [] := by
        rw [List.filter_eq_nil_iff]
        intro u hu
        obtain ⟨k, _, rfl⟩ := List.mem_map.mp hu
        simp [h2 k]
      rw [e1, e2]; simp
    | succ j =>
      have e1 : (List.range w).filter (fun u => pickIdx (w :: ws) u = j + 1) = [] := by
        rw [List.filter_eq_nil_iff]; intro u hu; simp [h1 u hu]
      have e2 : (((List.range ws.sum).map (w + ·)).filter (fun u => pickIdx (w :: ws) u = j + 1)).length
          = ((List.range ws.sum).filter (fun u => pickIdx ws u = j)).length := by
        rw [List.filter_map, List.length_map]
        congr 1
        apply List.filter_congr
        intro k _
        simp only [Function.comp, h2 k]
        by_cases hk : pickIdx ws k = j
        · simp [hk]; omega
        · simp [hk]; omega
      rw [e1, e2, ih j (by simpa using hi)]
      simp

/-! ### the weighted-list monad -/

theorem wsum_bindW {β γ} (x : W β) (f : β → W γ) (F : γ → Nat) :
    wsum (W.bind x f) F = wsum x (fun a => wsum (f a) F) := by
  unfold W.bind
  induction x with
  | nil => simp [wsum]
  | cons e x ih =>
    rw [List.flatMap_cons, wsum_append, ih, wsum_cons]
    congr 1
    induction (f e.1) with
    | nil => simp [wsum]
    | cons c l ihl => simp only [List.map_cons, wsum_cons, ihl]; ring

theorem wsum_pureW {β} (b : β) (F : β → Nat) : wsum (W.pure b) F = F b := by
  simp [W.pure, wsum]

theorem wsum_filter_nonzero {β} (l : List (β × Nat)) (F : β → Nat) :
    wsum (l.filter fun oc => oc.2 ≠ 0) F = wsum l F := by
  induction l with
  | nil => rfl
  | cons e l ih =>
    by_cases he : e.2 = 0
    · rw [List.filter_cons_of_neg (by simp [he]), ih, wsum_cons, he]; simp
    · rw [List.filter_cons_of_pos (by simp [he]), wsum_cons, wsum_cons, ih]

/-- **`H.roll`**: outcome `o` carries exactly the weight `h[o]` out of `h.total` -/
theorem wsum_rollHist (h : Hist Int) (hT : total h ≠ 0) (F : Int → Nat) :
    wsum (rollHist h) F = wsum h F := by
  unfold rollHist; rw [if_neg hT]; exact wsum_filter_nonzero h F

theorem rollHist_zero_total (h : Hist Int) (hT : total h = 0) : rollHist h = [(0, 1)] := by
  unfold rollHist; rw [if_pos hT]

theorem rollHist_never_zero_count (h : Hist Int) (hT : total h ≠ 0) :
    ∀ e ∈ rollHist h, e ∈ h ∧ e.2 ≠ 0 := by
  intro e he
  unfold rollHist at he; rw [if_neg hT] at he
  simpa using List.mem_filter.mp he

/-- the per-die draws of `P.roll`, before sorting, are the Cartesian product of the dice -/
theorem wsum_rollDice (hs : List (Hist Int)) (hpos : ∀ h ∈ hs, total h ≠ 0) (F : List Int → Nat) :
    wsum (rollDiceW hs) F = wsum (poolTuples hs) F := by
  induction hs generalizing F with
  | nil => simp [rollDiceW, poolTuples, wsum, pure, W.pure]
  | cons h hs ih =>
    have : rollDiceW (h :: hs) = W.bind (rollHist h) (fun v => W.bind (rollDiceW hs) (fun r => W.pure (v :: r))) := rfl
    rw [this, wsum_bindW, wsum_poolTuples_cons, wsum_rollHist h (hpos h (by simp))]
    apply wsum_congr
    intro x _
    rw [wsum_bindW, ih (fun h' hh' => hpos h' (by simp [hh']))]
    apply wsum_congr
    intro t _
    rw [wsum_pureW]

/-- **`P.roll`**: the weight of every sorted roll is the weight the Cartesian product gives it —
i.e. (C02) exactly the count `rolls_with_counts()` reports, out of `P.total` -/
theorem wsum_rollPoolW (hs : List (Hist Int)) (hpos : ∀ h ∈ hs, total h ≠ 0) (F : List Int → Nat) :
    wsum (rollPoolW hs) F
      = wsum (poolTuples hs) (fun t => F (t.mergeSort fun a b => decide (a ≤ b))) := by
  have : rollPoolW hs = W.bind (rollDiceW hs) (fun vs => W.pure (vs.mergeSort fun a b => decide (a ≤ b))) := rfl
  rw [this, wsum_bindW, wsum_rollDice hs hpos]
  apply wsum_congr
  intro t _
  rw [wsum_pureW]

end Dyce
