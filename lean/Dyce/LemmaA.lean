import Dyce.Model
import Mathlib.Algebra.BigOperators.Group.Finset.Basic
import Mathlib.Algebra.BigOperators.Intervals
import Mathlib.Data.Nat.Choose.Basic
import Mathlib.Data.Nat.Choose.Sum
import Mathlib.Tactic.Ring
import Mathlib.Tactic.Linarith

namespace Dyce
open Finset

variable {α : Type} [DecidableEq α]

@[simp] theorem wsum_nil {β} (f : β → Nat) : wsum ([] : List (β × Nat)) f = 0 := rfl

@[simp] theorem wsum_cons {β} (b : β × Nat) (l : List (β × Nat)) (f : β → Nat) :
    wsum (b :: l) f = b.2 * f b.1 + wsum l f := by simp [wsum]

@[simp] theorem wsum_append {β} (l₁ l₂ : List (β × Nat)) (f : β → Nat) :
    wsum (l₁ ++ l₂) f = wsum l₁ f + wsum l₂ f := by simp [wsum]

theorem wsum_map_scale {β γ} (l : List (β × Nat)) (g : β → γ) (c : Nat) (f : γ → Nat) :
    wsum (l.map fun tw => (g tw.1, c * tw.2)) f = c * wsum l (fun b => f (g b)) := by
  induction l with
  | nil => simp
  | cons b l ih => simp [ih]; ring

theorem wsum_flatMap_cons (l : Hist α) (T : List (List α × Nat)) (f : List α → Nat) :
    wsum (l.flatMap fun xc => T.map fun tw => (xc.1 :: tw.1, xc.2 * tw.2)) f
      = wsum l (fun x => wsum T (fun t => f (x :: t))) := by
  induction l with
  | nil => simp
  | cons xc l ih =>
    simp only [List.flatMap_cons, wsum_append, wsum_cons, ih]
    rw [wsum_map_scale]

theorem wsum_tuples_succ (h : Hist α) (n : Nat) (f : List α → Nat) :
    wsum (tuples h (n+1)) f = wsum h (fun x => wsum (tuples h n) (fun t => f (x :: t))) := by
  rw [tuples, wsum_flatMap_cons]

theorem wsum_add {β} (l : List (β × Nat)) (f g : β → Nat) :
    wsum l (fun b => f b + g b) = wsum l f + wsum l g := by
  induction l with
  | nil => simp
  | cons b l ih => simp [ih]; ring

theorem wsum_mul_left {β} (l : List (β × Nat)) (c : Nat) (f : β → Nat) :
    wsum l (fun b => c * f b) = c * wsum l f := by
  induction l with
  | nil => simp
  | cons b l ih => simp [ih]; ring

theorem wsum_finset_sum {β ι} (l : List (β × Nat)) (s : Finset ι) (f : ι → β → Nat) :
    wsum l (fun b => ∑ i ∈ s, f i b) = ∑ i ∈ s, wsum l (f i) := by
  induction l with
  | nil => simp
  | cons b l ih => simp [ih, Finset.mul_sum, Finset.sum_add_distrib]

theorem wsum_congr {β} (l : List (β × Nat)) (f g : β → Nat)
    (h : ∀ b ∈ l, f b.1 = g b.1) : wsum l f = wsum l g := by
  induction l with
  | nil => simp
  | cons b l ih =>
    simp only [wsum_cons]
    rw [h b (by simp), ih (fun b' hb' => h b' (by simp [hb']))]

theorem binom_step (W : ℕ → ℕ → ℕ) (c n : ℕ) :
    c * ∑ i ∈ range (n + 1), n.choose i * c ^ i * W (i + 1) (n - i) +
      ∑ i ∈ range (n + 1), n.choose i * c ^ i * W i (n - i + 1) =
    ∑ i ∈ range (n + 1 + 1), (n + 1).choose i * c ^ i * W i (n + 1 - i) := by
  rw [Finset.sum_range_succ' (fun i => (n + 1).choose i * c ^ i * W i (n + 1 - i))]
  rw [Finset.sum_range_succ' (fun i => n.choose i * c ^ i * W i (n - i + 1))]
  simp only [Nat.choose_succ_succ', Nat.add_sub_add_right, add_mul, Finset.sum_add_distrib,
    Nat.choose_zero_right, pow_zero, one_mul, Nat.sub_zero, Finset.mul_sum]
  have e1 : ∀ i ∈ range (n + 1), c * (n.choose i * c ^ i * W (i + 1) (n - i))
      = n.choose i * c ^ (i + 1) * W (i + 1) (n - i) := by
    intro i _; ring
  rw [Finset.sum_congr rfl e1]
  have e2 : ∑ i ∈ range (n + 1), n.choose (i + 1) * c ^ (i + 1) * W (i + 1) (n - i)
      = ∑ i ∈ range n, n.choose (i + 1) * c ^ (i + 1) * W (i + 1) (n - (i + 1) + 1) := by
    rw [Finset.sum_range_succ]
    simp only [Nat.choose_succ_self, zero_mul, add_zero]
    refine Finset.sum_congr rfl fun i hi => ?_
    have : i < n := Finset.mem_range.mp hi
    have : n - (i + 1) + 1 = n - i := by omega
    rw [this]
  rw [e2]
  ring

/-- **Lemma A** (binomial decomposition by the number of dice showing the face `m`). -/
theorem wsum_tuples_cons (m : α) (c : Nat) (rest : Hist α) (hm : ∀ xc ∈ rest, xc.1 ≠ m)
    (n : Nat) (φ : Nat → List α → Nat) :
    wsum (tuples ((m, c) :: rest) n) (fun t => φ (t.count m) (t.filter (· ≠ m)))
      = ∑ i ∈ range (n+1), n.choose i * c^i * wsum (tuples rest (n - i)) (φ i) := by
  induction n generalizing φ with
  | zero => simp [tuples]
  | succ n ih =>
    rw [wsum_tuples_succ]
    simp only [wsum_cons]
    -- the `m` term
    have h1 : wsum (tuples ((m, c) :: rest) n)
          (fun t => φ ((m :: t).count m) ((m :: t).filter (· ≠ m)))
        = ∑ i ∈ range (n+1), n.choose i * c^i * wsum (tuples rest (n - i)) (φ (i+1)) := by
      have := ih (fun i u => φ (i+1) u)
      simpa using this
    -- the `rest` terms
    have h2 : wsum rest (fun x => wsum (tuples ((m, c) :: rest) n)
          (fun t => φ ((x :: t).count m) ((x :: t).filter (· ≠ m))))
        = ∑ i ∈ range (n+1), n.choose i * c^i * wsum (tuples rest (n - i + 1)) (φ i) := by
      have : ∀ xc ∈ rest, wsum (tuples ((m, c) :: rest) n)
            (fun t => φ ((xc.1 :: t).count m) ((xc.1 :: t).filter (· ≠ m)))
          = ∑ i ∈ range (n+1), n.choose i * c^i *
              wsum (tuples rest (n - i)) (fun u => φ i (xc.1 :: u)) := by
        intro xc hxc
        have hne := hm xc hxc
        have := ih (fun i u => φ i (xc.1 :: u))
        simpa [List.count_cons, hne, List.filter_cons] using this
      rw [wsum_congr rest _ (fun x => ∑ i ∈ range (n+1), n.choose i * c^i *
              wsum (tuples rest (n - i)) (fun u => φ i (x :: u))) this, wsum_finset_sum]
      refine Finset.sum_congr rfl fun i _ => ?_
      rw [wsum_mul_left, wsum_tuples_succ]
    rw [h1, h2]
    exact binom_step (fun i j => wsum (tuples rest j) (φ i)) c n

end Dyce
