import Dyce.SelectModel
import Mathlib.Tactic.Common
import Mathlib.Tactic.Linarith
import Mathlib.Data.List.Basic

namespace Dyce

theorem foldl_min_le (js : List Nat) (j : Nat) :
    js.foldl min j ≤ j ∧ ∀ x ∈ js, js.foldl min j ≤ x := by
  induction js generalizing j with
  | nil => simp
  | cons a js ih =>
    simp only [List.foldl_cons, List.mem_cons]
    obtain ⟨h1, h2⟩ := ih (min j a)
    refine ⟨le_trans h1 (Nat.min_le_left _ _), ?_⟩
    rintro x (rfl | hx)
    · exact le_trans h1 (Nat.min_le_right _ _)
    · exact h2 x hx

theorem le_foldl_max (js : List Nat) (j : Nat) :
    j ≤ js.foldl max j ∧ ∀ x ∈ js, x ≤ js.foldl max j := by
  induction js generalizing j with
  | nil => simp
  | cons a js ih =>
    simp only [List.foldl_cons, List.mem_cons]
    obtain ⟨h1, h2⟩ := ih (max j a)
    refine ⟨le_trans (Nat.le_max_left _ _) h1, ?_⟩
    rintro x (rfl | hx)
    · exact le_trans (Nat.le_max_right _ _) h1
    · exact h2 x hx

theorem foldl_max_mem (js : List Nat) (j : Nat) : js.foldl max j = j ∨ js.foldl max j ∈ js := by
  induction js generalizing j with
  | nil => simp
  | cons a js ih =>
    simp only [List.foldl_cons, List.mem_cons]
    rcases ih (max j a) with h | h
    · rcases Nat.le_total j a with hja | hja
      · right; left; rw [h]; exact Nat.max_eq_right hja
      · left; rw [h]; exact Nat.max_eq_left hja
    · right; right; exact h

/-- what `_analyze_selection` promises, as used by `rolls_with_counts` and `P.h` -/
theorem analyze_sound (n : Nat) (idxs : List Nat) (hlt : ∀ j ∈ idxs, j < n) (i : Int)
    (h : analyze n idxs = some i) :
    (i = 0 → idxs = []) ∧
    (0 < i → i < n → ∀ j ∈ idxs, (j : Int) < i) ∧
    (i < 0 → ∀ j ∈ idxs, (n : Int) + i ≤ j) ∧
    ((n : Int) ≤ i → idxs ≠ [] → ∃ c : Nat, c ≠ 0 ∧ i = ((n * c : Nat) : Int) ∧
        ∀ p, p < n → idxs.count p = c) := by
  cases idxs with
  | nil =>
    simp only [analyze, Option.some.injEq] at h
    subst h
    simp
  | cons j js =>
    have hmn := foldl_min_le js j
    have hmx := le_foldl_max js j
    have hmxlt : js.foldl max j < n := by
      rcases foldl_max_mem js j with h' | h'
      · rw [h']; exact hlt j (by simp)
      · exact hlt _ (by simp [h'])
    have hjn : j < n := hlt j (by simp)
    simp only [analyze] at h
    split at h
    · -- the selection spans [0, n)
      rename_i hspan
      split at h
      · exact absurd h (by simp)
      · rename_i c cs hcnts
        split at h
        · rename_i hall
          simp only [Option.some.injEq] at h
          subst h
          obtain ⟨hc0, hcs⟩ := hall
          have hcnt : ∀ p, p < n → (j :: js).count p = c := by
            intro p hp
            have hlen : ((List.range n).map fun p => (j :: js).count p).length = n := by simp
            have hget : ((List.range n).map fun p => (j :: js).count p)[p]'(by simp [hp])
                = (j :: js).count p := by simp
            rw [← hget]
            simp only [hcnts]
            cases p with
            | zero => rfl
            | succ p =>
              simp only [List.getElem_cons_succ]
              have hmem : cs[p]'(by
                  have : (c :: cs).length = n := by rw [← hcnts]; simp
                  simp at this; omega) ∈ cs := List.getElem_mem _
              have := List.all_eq_true.mp hcs _ hmem
              simpa using this
          have hn0 : 0 < n := by omega
          refine ⟨?_, ?_, ?_, ?_⟩
          · intro h0
            have : n * c = 0 := by exact_mod_cast h0
            rcases Nat.mul_eq_zero.mp this with h1 | h1 <;> omega
          · intro _ hlt'
            have : n * c < n := by exact_mod_cast hlt'
            have : n * 1 ≤ n * c := Nat.mul_le_mul_left n (Nat.one_le_iff_ne_zero.mpr hc0)
            omega
          · intro hneg
            have : (0 : Int) ≤ ((n * c : Nat) : Int) := Int.natCast_nonneg _
            omega
          · intro _ _
            exact ⟨c, hc0, rfl, hcnt⟩
        · exact absurd h (by simp)
    · rename_i hspan
      split at h
      · -- favours the high end
        rename_i hhigh
        simp only [Option.some.injEq] at h
        subst h
        refine ⟨?_, ?_, ?_, ?_⟩
        · intro h0; omega
        · intro hpos; omega
        · intro _ x hx
          simp only [List.mem_cons] at hx
          have : js.foldl min j ≤ x := by
            rcases hx with rfl | hx
            · exact hmn.1
            · exact hmn.2 x hx
          omega
        · intro hge; omega
      · -- favours the low end
        rename_i hlow
        simp only [Option.some.injEq] at h
        subst h
        refine ⟨?_, ?_, ?_, ?_⟩
        · intro h0; omega
        · intro _ _ x hx
          simp only [List.mem_cons] at hx
          have : x ≤ js.foldl max j := by
            rcases hx with rfl | hx
            · exact hmx.1
            · exact hmx.2 x hx
          omega
        · intro hneg; omega
        · intro hge; omega

end Dyce
