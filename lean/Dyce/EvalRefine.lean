import Dyce.EvalSpec
import Dyce.EvalProofs

namespace Dyce

variable {α ρ : Type}

/-- inside one branch the cell holds the branch context for every nested evaluation -/
theorem runProg_refines (ev : Nat → List (Src ρ) → Option Limit → M Cell (Hist α))
    (sv : Nat → List (Src ρ) → Option Limit → Ctx → Except Err (Hist α)) (ctx : Ctx)
    (hev : ∀ fn srcs lim, ev fn srcs lim (some ctx) = (sv fn srcs lim ctx, some ctx)) :
    ∀ p : Prog α ρ, runProg ev p (some ctx) = (specProg sv ctx p, some ctx) := by
  intro p
  induction p with
  | ret r => rfl
  | throw e => rfl
  | call fn srcs lim k ih =>
    simp only [runProg, bind, M.bind, specProg, hev fn srcs lim]
    cases sv fn srcs lim ctx with
    | ok h => exact ih h
    | error e => rfl

theorem branch_fold_refines (ev : Nat → List (Src ρ) → Option Limit → M Cell (Hist α))
    (sv : Nat → List (Src ρ) → Option Limit → Ctx → Except Err (Hist α)) (f : Fn α ρ)
    (mkCtx : Nat → Ctx)
    (hev : ∀ cc fn srcs lim,
      ev fn srcs lim (some (mkCtx cc)) = (sv fn srcs lim (mkCtx cc), some (mkCtx cc)))
    (c : Cell) :
    ∀ (bs : List (List ρ × Nat)) (acc : M Cell (List (Ret α × Nat)))
      (sacc : Except Err (List (Ret α × Nat))), acc c = (sacc, c) →
      (bs.foldl (branchStep ev f mkCtx) acc) c = (bs.foldl (specBranch sv f mkCtx) sacc, c) := by
  intro bs
  induction bs with
  | nil => intro acc sacc h; simpa using h
  | cons b bs ih =>
    intro acc sacc h
    simp only [List.foldl_cons]
    apply ih
    simp only [branchStep, bind, M.bind, h, specBranch]
    cases sacc with
    | error e => rfl
    | ok sofar =>
      simp only [M.get, M.set]
      have hr := runProg_refines ev sv (mkCtx b.2) (hev b.2) (f.body b.1)
      unfold guarded
      rw [hr]
      cases specProg sv (mkCtx b.2) (f.body b.1) with
      | ok r => rfl
      | error e => cases e <;> rfl

/-- **C07 core (refinement)**: the ContextVar implementation computes exactly the stateless
specification, and leaves the cell as it found it. -/
theorem evalFn_refines (env : Nat → Fn α ρ) (agg : List (Ret α × Nat) → Hist α)
    (lowest : Hist α → Hist α) :
    ∀ (fuel fn : Nat) (srcs : List (Src ρ)) (lim : Option Limit) (c : Cell),
      evalFn env agg lowest fuel fn srcs lim c
        = (specEval env agg lowest fuel fn srcs lim (c.getD ⟨none, 0, 1, 1⟩), c) := by
  intro fuel
  induction fuel with
  | zero => intro fn srcs lim c; rfl
  | succ fuel ih =>
    intro fn srcs lim c
    unfold evalFn specEval
    simp only
    split
    · rfl
    · have hfold := branch_fold_refines (evalFn env agg lowest fuel)
        (specEval env agg lowest fuel) (env fn)
        (fun cc => ⟨some ((lim.orElse fun _ => (c.getD ⟨none, 0, 1, 1⟩).limit).getD (.int 1)),
          (c.getD ⟨none, 0, 1, 1⟩).depth + 1, (c.getD ⟨none, 0, 1, 1⟩).precNum * cc,
          (c.getD ⟨none, 0, 1, 1⟩).precDen * srcTotal srcs⟩)
        (fun cc fn' srcs' lim' => by rw [ih]; rfl)
        c (branches srcs) (pure []) (.ok []) rfl
      rw [hfold]
      cases List.foldl _ _ _ with
      | ok rs => rfl
      | error e => rfl

end Dyce
