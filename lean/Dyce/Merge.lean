import Mathlib.Data.List.Basic
import Mathlib.Tactic.Linarith

namespace Dyce
open List

variable {α : Type}

/-- The first `k` outputs of a merge depend only on the first `k` elements of each input. -/
theorem merge_take (le : α → α → Bool) (k : Nat) :
    ∀ (s₁ s₂ : List α) (j₁ j₂ : Nat), k ≤ j₁ → k ≤ j₂ →
      (merge s₁ s₂ le).take k = (merge (s₁.take j₁) (s₂.take j₂) le).take k := by
  induction k with
  | zero => intros; simp
  | succ k ih =>
    intro s₁ s₂ j₁ j₂ h₁ h₂
    obtain ⟨j₁, rfl⟩ : ∃ j, j₁ = j + 1 := ⟨j₁ - 1, by omega⟩
    obtain ⟨j₂, rfl⟩ : ∃ j, j₂ = j + 1 := ⟨j₂ - 1, by omega⟩
    cases s₁ with
    | nil => simp [List.take_take]; omega
    | cons a s₁ =>
      cases s₂ with
      | nil => simp [List.take_take]; omega
      | cons b s₂ =>
        simp only [List.take_succ_cons]
        rw [List.cons_merge_cons, List.cons_merge_cons]
        by_cases hab : le a b = true
        · simp only [hab, if_true, List.take_succ_cons]
          congr 1
          have := ih s₁ (b :: s₂) j₁ (j₂ + 1) (by omega) (by omega)
          simpa [List.take_succ_cons] using this
        · simp only [hab, List.take_succ_cons]
          simp only [Bool.false_eq_true, if_false, List.take_succ_cons]
          congr 1
          have := ih (a :: s₁) s₂ (j₁ + 1) j₂ (by omega) (by omega)
          simpa [List.take_succ_cons] using this

end Dyce
