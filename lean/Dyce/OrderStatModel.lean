import Dyce.HistModel
/-! Import-free model of `H.order_stat_for_n_at_pos`, `H.exactly_k_times_in_n`. -/
namespace Dyce

variable {α : Type}

def natLe (a b : Nat) : Bool := decide (a ≤ b)

/-- `n @ self.le(outcome)` resp. `n @ self.lt(outcome)`: histogram of how many of `n` dice satisfy
the comparison (`False`/`True` summed as `0`/`1`) -/
def betaHist (q : α → Bool) (n : Nat) (h : Hist α) : Hist Nat :=
  matmulH natLe 0 (· + ·) n (umapH natLe (fun x => if q x then 1 else 0) h)

/-- `h_le.gt(pos).get(True, 0) - h_lt.gt(pos).get(True, 0)` -/
def orderStatCount [DecidableEq α] (le : α → α → Bool) (h : Hist α) (n pos : Nat) (f : α) : Nat :=
  wsum (betaHist (fun x => le x f) n h) (fun j => if j > pos then 1 else 0)
    - wsum (betaHist (fun x => le x f && !(x == f)) n h) (fun j => if j > pos then 1 else 0)

/-- `H.order_stat_for_n_at_pos(n, pos)` for `0 ≤ pos` -/
def orderStat [DecidableEq α] (le : α → α → Bool) (h : Hist α) (n pos : Nat) : Hist α :=
  ofItems le (h.map fun fc => (fc.1, orderStatCount le h n pos fc.1))

/-- `H.exactly_k_times_in_n(outcome, n, k)` -/
def exactlyK [DecidableEq α] (h : Hist α) (o : α) (n k : Nat) : Nat :=
  let c := countOf o h
  comb n k * c ^ k * (total h - c) ^ (n - k)

end Dyce
