import Dyce.EvalModel
import Mathlib.Tactic.Common

namespace Dyce

variable {α ρ : Type}

theorem runProg_state (ev : Nat → List (Src ρ) → Option Limit → M Cell (Hist α))
    (hev : ∀ fn srcs lim c, (ev fn srcs lim c).2 = c) :
    ∀ (p : Prog α ρ) (c : Cell), (runProg ev p c).2 = c := by
  intro p
  induction p with
  | ret r => intro c; rfl
  | throw e => intro c; rfl
  | call fn srcs lim k ih =>
    intro c
    simp only [runProg, bind, M.bind]
    have h1 := hev fn srcs lim c
    rcases hres : ev fn srcs lim c with ⟨r, c'⟩
    rw [hres] at h1
    simp only at h1
    subst h1
    cases r with
    | ok h => simpa using ih h c'
    | error e => rfl

theorem guarded_state (tok : Cell) (s : Hist α) (x : M Cell (Ret α)) (c : Cell) :
    (guarded tok s x c).2 = tok := by
  unfold guarded
  rcases x c with ⟨r, c'⟩
  cases r with
  | ok r => rfl
  | error e => cases e <;> rfl

theorem branchStep_fold_state (ev : Nat → List (Src ρ) → Option Limit → M Cell (Hist α))
    (f : Fn α ρ) (mkCtx : Nat → Ctx) (c : Cell) :
    ∀ (bs : List (List ρ × Nat)) (acc : M Cell (List (Ret α × Nat))), (acc c).2 = c →
      ((bs.foldl (branchStep ev f mkCtx) acc) c).2 = c := by
  intro bs
  induction bs with
  | nil => intro acc h; simpa using h
  | cons b bs ihb =>
    intro acc h
    simp only [List.foldl_cons]
    apply ihb
    simp only [branchStep, bind, M.bind]
    rcases hacc : acc c with ⟨ra, ca⟩
    rw [hacc] at h
    simp only at h
    subst h
    cases ra with
    | error e => rfl
    | ok sofar =>
      simp only [M.get, M.set]
      have hg := guarded_state (α := α) ca f.sentinel (runProg ev (f.body b.1)) (some (mkCtx b.2))
      rcases hgr : guarded ca f.sentinel (runProg ev (f.body b.1)) (some (mkCtx b.2)) with ⟨rg, cg⟩
      rw [hgr] at hg
      simp only at hg
      subst hg
      cases rg <;> rfl

/-- **C14 core**: whatever an evaluation does — returns, hits the limit, or is aborted by an
exception raised at any callback invocation, at any nesting depth — the ContextVar cell afterwards
holds exactly what it held before. -/
theorem evalFn_state (env : Nat → Fn α ρ) (agg : List (Ret α × Nat) → Hist α)
    (lowest : Hist α → Hist α) :
    ∀ (fuel fn : Nat) (srcs : List (Src ρ)) (lim : Option Limit) (c : Cell),
      (evalFn env agg lowest fuel fn srcs lim c).2 = c := by
  intro fuel
  induction fuel with
  | zero => intro fn srcs lim c; rfl
  | succ fuel ih =>
    intro fn srcs lim c
    unfold evalFn
    simp only
    split
    · rfl
    · have := branchStep_fold_state (evalFn env agg lowest fuel) (env fn)
        (fun cc => ⟨some ((lim.orElse fun _ => (c.getD ⟨none, 0, 1, 1⟩).limit).getD (.int 1)),
          (c.getD ⟨none, 0, 1, 1⟩).depth + 1, (c.getD ⟨none, 0, 1, 1⟩).precNum * cc,
          (c.getD ⟨none, 0, 1, 1⟩).precDen * srcTotal srcs⟩)
        c (branches srcs) (pure []) rfl
      revert this
      generalize (List.foldl _ _ _ : M Cell _) c = res
      intro h
      rcases res with ⟨r, c'⟩
      cases r <;> simpa using h

end Dyce
