import Dyce.AppearModel
import Dyce.OrderStatProofs
import Dyce.PoolHProofs
import Dyce.PoolHetero
import Mathlib.Tactic.Ring

/-! `P.appearances_in_rolls(outcome)`: the per-group binomial histograms, summed, count exactly the
rolls of the pool in which `outcome` shows on `k` dice. -/
namespace Dyce
open List

variable {α : Type} [DecidableEq α]

theorem wsum_list_sum {β ι} (l : List (β × Nat)) (s : List ι) (g : ι → β → Nat) :
    wsum l (fun b => (s.map fun i => g i b).sum) = (s.map fun i => wsum l (g i)).sum := by
  induction s with
  | nil => simp [wsum]
  | cons i s ih =>
    simp only [List.map_cons, List.sum_cons]
    rw [wsum_add, ih]

theorem wsum_mul_right {β} (l : List (β × Nat)) (g : β → Nat) (c : Nat) :
    wsum l (fun b => g b * c) = wsum l g * c := by
  induction l with
  | nil => simp [wsum]
  | cons e l ih => simp only [wsum_cons, ih]; ring


/-- a sum over `k ≤ n` against the indicator of `c = k` picks the term `k = c` -/
theorem sum_range_indicator (n c : Nat) (hc : c ≤ n) (Φ : Nat → Nat) :
    ((List.range (n + 1)).map fun k => (if c = k then 1 else 0) * Φ k).sum = Φ c := by
  induction n with
  | zero =>
    have : c = 0 := by omega
    subst this; simp
  | succ n ih =>
    rw [List.range_succ, List.map_append, List.sum_append]
    by_cases h : c = n + 1
    · subst h
      have hz : ((List.range (n + 1)).map fun k => (if n + 1 = k then 1 else 0) * Φ k).sum = 0 := by
        apply List.sum_eq_zero
        intro x hx
        obtain ⟨k, hk, rfl⟩ := List.mem_map.mp hx
        have : ¬ n + 1 = k := by have := List.mem_range.mp hk; omega
        simp [this]
      rw [hz]; simp
    · rw [ih (by omega)]
      simp [h]

/-- the binomial histogram of one group, pushed through any function of the number of matching dice -/
theorem wsum_binomial_group (h : Hist α) (hd : (h.map Prod.fst).Nodup) (o : α) (n : Nat) (Φ : Nat → Nat) :
    wsum ((List.range (n + 1)).map fun k => (k, exactlyK h o n k)) Φ
      = wsum (tuples h n) (fun t => Φ (t.count o)) := by
  have h1 : wsum ((List.range (n + 1)).map fun k => (k, exactlyK h o n k)) Φ
      = ((List.range (n + 1)).map fun k => exactlyK h o n k * Φ k).sum := by
    unfold wsum; rw [List.map_map]; rfl
  rw [h1]
  have h2 : ((List.range (n + 1)).map fun k => exactlyK h o n k * Φ k)
      = (List.range (n + 1)).map fun k => wsum (tuples h n) (fun t => (if t.count o = k then 1 else 0) * Φ k) := by
    apply List.map_congr_left
    intro k hk
    have hkn : k ≤ n := by have := List.mem_range.mp hk; omega
    rw [exactlyK_correct h hd o n k hkn, wsum_mul_right]
  rw [h2, ← wsum_list_sum]
  apply wsum_congr'
  intro tw htw
  have hlen : tw.1.length = n := (mem_tuples htw).1
  exact sum_range_indicator n (tw.1.count o) (by rw [← hlen]; exact List.count_le_length) Φ

/-- the histogram `appearances_in_rolls` builds for one group -/
def groupAppear (o : α) (g : Hist α × Nat) : Hist Nat :=
  ofItems natLe ((List.range (g.2 + 1)).map fun k => (k, exactlyK g.1 o g.2 k))

/-- product over the groups = Cartesian product over the dice -/
theorem wsum_groups_appear (o : α) (gs : List (Hist α × Nat))
    (hd : ∀ g ∈ gs, (g.1.map Prod.fst).Nodup) (F : Nat → Nat) :
    wsum (poolTuples (gs.map (groupAppear o))) (fun ks => F (ks.foldl (· + ·) 0))
      = wsum (poolTuples (expand gs)) (fun t => F (t.count o)) := by
  induction gs generalizing F with
  | nil => simp [poolTuples, expand, wsum]
  | cons g gs ih =>
    have hfold : ∀ (k : Nat) (ks : List Nat), (k :: ks).foldl (· + ·) 0 = k + ks.foldl (· + ·) 0 := by
      intro k ks
      rw [List.foldl_cons, Nat.zero_add]
      have : ∀ (a : Nat) (l : List Nat), l.foldl (· + ·) a = a + l.foldl (· + ·) 0 := by
        intro a l
        induction l generalizing a with
        | nil => simp
        | cons x l ihl => rw [List.foldl_cons, List.foldl_cons, ihl (a + x), ihl (0 + x)]; omega
      exact this k ks
    rw [List.map_cons, wsum_poolTuples_cons]
    simp only [hfold]
    have hexp : expand (g :: gs) = List.replicate g.2 g.1 ++ expand gs := by simp [expand]
    rw [hexp, wsum_poolTuples_append, poolTuples_replicate]
    unfold groupAppear
    rw [wsum_ofItems]
    have hinner : ∀ k : Nat, wsum (poolTuples (gs.map (groupAppear o))) (fun ks => F (k + ks.foldl (· + ·) 0))
        = wsum (poolTuples (expand gs)) (fun t => F (k + t.count o)) :=
      fun k => ih (fun g' hg' => hd g' (by simp [hg'])) (fun s => F (k + s))
    have hinner' : (fun k : Nat => wsum (poolTuples (gs.map fun g => ofItems natLe ((List.range (g.2 + 1)).map fun k => (k, exactlyK g.1 o g.2 k)))) (fun ks => F (k + ks.foldl (· + ·) 0)))
        = fun k => wsum (poolTuples (expand gs)) (fun t => F (k + t.count o)) := funext hinner
    rw [hinner']
    rw [wsum_binomial_group g.1 (hd g (by simp)) o g.2
      (fun k => wsum (poolTuples (expand gs)) (fun t => F (k + t.count o)))]
    apply wsum_congr
    intro t1 _
    apply wsum_congr
    intro t2 _
    rw [List.count_append]

/-- **C09**: `p.appearances_in_rolls(o)` is exactly the histogram, over all rolls of the pool, of how
many dice show `o` -/
theorem appearances_correct (dice : List (Hist α)) (hne : dice ≠ [])
    (hd : ∀ h ∈ dice, (h.map Prod.fst).Nodup) (o : α) (k : Nat) :
    countOf k (appearances dice o) = wsum (poolTuples dice) (fun t => if t.count o = k then 1 else 0) := by
  unfold appearances countOf
  have hg : groupsOf dice ≠ [] := by
    intro h
    have := expand_groupsOf dice
    rw [h] at this
    exact hne (by simpa [expand] using this.symm)
  rw [wsum_sumH]
  have hm : (groupsOf dice).map (fun g => ofItems natLe ((List.range (g.2 + 1)).map fun k => (k, exactlyK g.1 o g.2 k))) ≠ [] := by
    simpa using hg
  rw [if_neg hm]
  have := wsum_groups_appear o (groupsOf dice)
    (fun g hg' => hd g.1 (groupsOf_mem dice g hg').2) (fun s => if s = k then 1 else 0)
  rw [expand_groupsOf] at this
  exact this

end Dyce
