import Dyce.KaronenMain

namespace Dyce
open List

variable {α : Type} [DecidableEq α]

theorem selCore_cons_cons (m : α) (c : Nat) (x : α × Nat) (rest' : Hist α) (n k : Nat) :
    selCore ((m, c) :: x :: rest') n k =
      ((List.range k).flatMap fun i =>
        if headCount (total ((m, c) :: x :: rest')) c n i = 0 then [] else
          (selCore (x :: rest') (n - i) (k - i)).map fun e =>
            (List.replicate i m ++ e.1, headCount (total ((m, c) :: x :: rest')) c n i * e.2.1,
              total ((m, c) :: x :: rest') ^ n * e.2.2))
      ++ [(List.replicate k m,
            (total ((m, c) :: x :: rest') ^ n
                - ((List.range k).map (headCount (total ((m, c) :: x :: rest')) c n)).sum)
              / Nat.gcd (total ((m, c) :: x :: rest') ^ n
                - ((List.range k).map (headCount (total ((m, c) :: x :: rest')) c n)).sum)
                  (total ((m, c) :: x :: rest') ^ n),
            total ((m, c) :: x :: rest') ^ n
              / Nat.gcd (total ((m, c) :: x :: rest') ^ n
                - ((List.range k).map (headCount (total ((m, c) :: x :: rest')) c n)).sum)
                  (total ((m, c) :: x :: rest') ^ n))] := by
  rw [selCore]
  simp

/-- exactness of the final floor division for the reduced remainder -/
theorem reduced_div_exact (s b : Nat) (hb : 0 < b) :
    b * (s / Nat.gcd s b) / (b / Nat.gcd s b) = s := by
  set g := Nat.gcd s b with hg
  have hgpos : 0 < g := Nat.gcd_pos_of_pos_right s hb
  obtain ⟨s', hs'⟩ : g ∣ s := Nat.gcd_dvd_left s b
  obtain ⟨b', hb'⟩ : g ∣ b := Nat.gcd_dvd_right s b
  have hb'pos : 0 < b' := by
    rcases Nat.eq_zero_or_pos b' with h | h
    · rw [h] at hb'; omega
    · exact h
  rw [hs', hb', Nat.mul_div_cancel_left _ hgpos, Nat.mul_div_cancel_left _ hgpos]
  rw [show g * b' * s' = g * s' * b' by ring]
  exact Nat.mul_div_cancel _ hb'pos

theorem headCount_pos_rest {T c n i T' : Nat} (hsub : T - c = T') (hin : i < n)
    (hc : headCount T c n i ≠ 0) : 0 < T' := by
  rcases Nat.eq_zero_or_pos T' with h0 | h0
  · exfalso; apply hc
    have : n - i ≠ 0 := by omega
    simp [headCount, hsub, h0, this]
  · exact h0

/-- every entry of the probability-domain recursion has a positive denominator that divides
`T^n * numerator` (so the final floor division is exact) -/
theorem selCore_dvd (h : Hist α) (n k : Nat) (hT : 0 < total h) (hkn : k ≤ n) :
    ∀ e ∈ selCore h n k, 0 < e.2.2 ∧ e.2.2 ∣ total h ^ n * e.2.1 := by
  induction h generalizing n k with
  | nil => simp [total] at hT
  | cons mc rest ih =>
    obtain ⟨m, c⟩ := mc
    cases rest with
    | nil => simp [selCore]
    | cons x rest' =>
      rw [selCore_cons_cons]
      set rest := x :: rest' with hrest
      set T := total ((m, c) :: rest) with hTdef
      have hTc : T = c + total rest := by simp [hTdef, total_cons]
      have hTsub : T - c = total rest := by omega
      have hTn : 0 < T ^ n := Nat.pow_pos hT
      intro e he
      rw [List.mem_append] at he
      rcases he with he | he
      · rw [List.mem_flatMap] at he
        obtain ⟨i, hi, he⟩ := he
        have hik : i < k := List.mem_range.mp hi
        by_cases hc0 : headCount T c n i = 0
        · simp [hc0] at he
        · simp only [hc0, if_false, List.mem_map] at he
          obtain ⟨e', he', rfl⟩ := he
          have hrestpos := headCount_pos_rest hTsub (by omega) hc0
          obtain ⟨hpos, hdvd⟩ := ih (n - i) (k - i) hrestpos (by omega) e' he'
          refine ⟨Nat.mul_pos hTn hpos, ?_⟩
          simp only
          apply Nat.mul_dvd_mul_left
          have : headCount T c n i * e'.2.1
              = comb n i * c ^ i * (total rest ^ (n - i) * e'.2.1) := by
            simp [headCount, hTsub]; ring
          rw [this]
          exact Dvd.dvd.mul_left hdvd _
      · simp only [List.mem_singleton] at he
        subst he
        simp only
        set sN := T ^ n - ((List.range k).map (headCount T c n)).sum
        have hg : Nat.gcd sN (T ^ n) ∣ T ^ n := Nat.gcd_dvd_right _ _
        have hgpos : 0 < Nat.gcd sN (T ^ n) := Nat.gcd_pos_of_pos_right _ hTn
        refine ⟨Nat.div_pos (Nat.le_of_dvd hTn hg) hgpos, ?_⟩
        exact Dvd.dvd.mul_right (Nat.div_dvd_of_dvd hg) _

/-- The probability-domain recursion followed by `T^n * num // den` is, entry for entry, the
count-domain recursion. -/
theorem rwcHomogLow_eq_karonen (h : Hist α) (n k : Nat) (hT : 0 < total h) (hkn : k ≤ n) :
    rwcHomogLow n h k = karonen h n k := by
  induction h generalizing n k with
  | nil => simp [total] at hT
  | cons mc rest ih =>
    obtain ⟨m, c⟩ := mc
    cases rest with
    | nil =>
      simp [rwcHomogLow, selCore, karonen, total]
    | cons x rest' =>
      unfold rwcHomogLow
      rw [selCore_cons_cons, karonen_cons_cons]
      set rest := x :: rest' with hrest
      set T := total ((m, c) :: rest) with hTdef
      have hTc : T = c + total rest := by simp [hTdef, total_cons]
      have hTsub : T - c = total rest := by omega
      have hTn : 0 < T ^ n := Nat.pow_pos hT
      rw [List.map_append, List.map_flatMap]
      congr 1
      · -- pieces
        apply List.flatMap_congr
        intro i hi
        have hik : i < k := List.mem_range.mp hi
        by_cases hc0 : headCount T c n i = 0
        · simp [hc0]
        · simp only [hc0, if_false, List.map_map]
          have hrestpos := headCount_pos_rest hTsub (by omega) hc0
          have ihr := ih (n - i) (k - i) hrestpos (by omega)
          unfold rwcHomogLow at ihr
          rw [← ihr, List.map_map]
          apply List.map_congr_left
          intro e he
          obtain ⟨hpos, hdvd⟩ := selCore_dvd rest (n - i) (k - i) hrestpos (by omega) e he
          simp only [Function.comp]
          congr 1
          rw [Nat.mul_div_mul_left _ _ hTn]
          have : headCount T c n i * e.2.1
              = comb n i * c ^ i * (total rest ^ (n - i) * e.2.1) := by
            simp [headCount, hTsub]; ring
          rw [this, Nat.mul_div_assoc _ hdvd]
      · -- remainder entry
        simp only [List.map_cons, List.map_nil]
        congr 1
        congr 1
        exact reduced_div_exact _ _ hTn

end Dyce
