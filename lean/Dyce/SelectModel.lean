/-! Import-free model of selection identifiers (`int`s and `slice`s), `getitems` and
`_analyze_selection`. -/
namespace Dyce

inductive PyErr where
  | indexError | valueError | typeError | zeroDivisionError
  deriving DecidableEq, Repr

/-- a selection identifier: an index or a slice -/
inductive Sel where
  | idx (i : Int)
  | slc (start stop step : Option Int)
  deriving DecidableEq, Repr

/-- `range(start, stop, step)` for `step ≠ 0`, by fuel = an upper bound on its length -/
def pyRange (start stop step : Int) : Nat → List Int
  | 0 => []
  | fuel + 1 =>
    if (step > 0 ∧ start < stop) ∨ (step < 0 ∧ start > stop) then
      start :: pyRange (start + step) stop step fuel
    else []

/-- `slice(start, stop, step).indices(n)` followed by `range(*…)` -/
def sliceIndices (n : Nat) (start stop step : Option Int) : Except PyErr (List Nat) :=
  let st : Int := step.getD 1
  if st = 0 then .error .valueError else
  let len : Int := n
  let lower : Int := if st > 0 then 0 else -1
  let upper : Int := if st > 0 then len else len - 1
  let clamp (v : Int) : Int := if v < 0 then max (v + len) lower else min v upper
  let s : Int := match start with
    | none => if st < 0 then upper else lower
    | some v => clamp v
  let e : Int := match stop with
    | none => if st < 0 then lower else upper
    | some v => clamp v
  .ok ((pyRange s e st (n + 1)).map Int.toNat)

/-- `seq[key]` / `seq[slice]` positions for a sequence of length `n` -/
def resolveOne (n : Nat) : Sel → Except PyErr (List Nat)
  | .idx i =>
    let j : Int := if i < 0 then i + n else i
    if 0 ≤ j ∧ j < n then .ok [j.toNat] else .error .indexError
  | .slc a b c => sliceIndices n a b c

/-- `getitems(range(n), which)` -/
def resolve (n : Nat) : List Sel → Except PyErr (List Nat)
  | [] => .ok []
  | s :: ss => do
    let a ← resolveOne n s
    let b ← resolve n ss
    pure (a ++ b)

/-- `_analyze_selection(n, which)` on the resolved positions -/
def analyze (n : Nat) (idxs : List Nat) : Option Int :=
  match idxs with
  | [] => some 0
  | j :: js =>
    let mn := js.foldl min j
    let mx := js.foldl max j + 1
    if mx - mn = n then
      let cnts := (List.range n).map fun p => idxs.count p
      match cnts with
      | [] => none
      | c :: cs => if c ≠ 0 ∧ cs.all (· == c) then some ((n * c : Nat) : Int) else none
    else if mn > n - mx then some ((mn : Int) - n)
    else some (mx : Int)

end Dyce
