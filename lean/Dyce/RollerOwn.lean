import Dyce.RollerProofs

/-! C12 (one clause): every outcome reachable through `sources` is associated with a roll. True of
the repaired `Roll.__init__`, false of the pinned one (witness below). -/
namespace Dyce
open List

/-! ### predicates over the weighted-list monad -/

def AllW {β} (Q : β → Prop) (x : W β) : Prop := ∀ e ∈ x, Q e.1

theorem AllW_pure {β} (Q : β → Prop) (b : β) (h : Q b) : AllW Q (pure b : W β) := by
  intro e he
  have he' : e ∈ [(b, 1)] := he
  have : e = (b, 1) := by simpa using he'
  rw [this]; exact h

theorem AllW_bind {β γ} (Q : β → Prop) (R : γ → Prop) (x : W β) (f : β → W γ)
    (hx : AllW Q x) (hf : ∀ a, Q a → AllW R (f a)) : AllW R (x >>= f) := by
  intro e he
  rw [W.bind_def, List.mem_flatMap] at he
  obtain ⟨a, ha, he⟩ := he
  rw [List.mem_map] at he
  obtain ⟨c, hc, rfl⟩ := he
  exact hf a.1 (hx a ha) c hc

theorem AllW_true {β} (x : W β) : AllW (fun _ => True) x := fun _ _ => trivial

theorem AllW_replicateW {β} (Q : β → Prop) (n : Nat) (x : W β) (hx : AllW Q x) :
    AllW (fun l => ∀ b ∈ l, Q b) (replicateW n x) := by
  induction n with
  | zero => exact AllW_pure _ _ (by simp)
  | succ n ih =>
    simp only [replicateW]
    refine AllW_bind Q _ x _ hx (fun a ha => ?_)
    refine AllW_bind _ _ _ _ ih (fun l hl => ?_)
    exact AllW_pure _ _ (by
      intro b hb
      simp only [List.mem_cons] at hb
      rcases hb with rfl | hb
      · exact ha
      · exact hl b hb)

/-! ### hereditary ownership -/

mutual
/-- every *owned* outcome reachable from `ro` (itself included) is fully owned -/
def RO.ownedOK : RO → Bool
  | .mk v srcs o => (if o then RO.allOwnedList srcs else true) && RO.ownedOKList srcs
def RO.ownedOKList : List RO → Bool
  | [] => true
  | r :: rs => r.ownedOK && RO.ownedOKList rs
end

mutual
theorem allOwned_ownedOK : ∀ ro : RO, ro.allOwned = true → ro.ownedOK = true
  | .mk v srcs o => by
    intro h
    simp only [RO.allOwned, Bool.and_eq_true] at h
    simp only [RO.ownedOK, h.1, if_true, h.2, Bool.true_and]
    exact allOwnedList_ownedOKList srcs h.2
theorem allOwnedList_ownedOKList : ∀ l : List RO, RO.allOwnedList l = true → RO.ownedOKList l = true
  | [] => fun _ => rfl
  | r :: rs => by
    intro h
    simp only [RO.allOwnedList, Bool.and_eq_true] at h
    simp only [RO.ownedOKList, Bool.and_eq_true]
    exact ⟨allOwned_ownedOK r h.1, allOwnedList_ownedOKList rs h.2⟩
end

mutual
theorem ownDeep_allOwned : ∀ ro : RO, ro.ownedOK = true → ro.ownDeep.allOwned = true
  | .mk v srcs o => by
    intro h
    simp only [RO.ownedOK, Bool.and_eq_true] at h
    unfold RO.ownDeep
    by_cases ho : o = true
    · simp only [ho, if_true] at h ⊢
      simp only [RO.allOwned, h.1, Bool.and_self]
    · have ho' : o = false := by simpa using ho
      simp only [ho', Bool.false_eq_true, if_false, RO.allOwned, Bool.true_and]
      exact ownDeepList_allOwned srcs h.2
theorem ownDeepList_allOwned : ∀ l : List RO, RO.ownedOKList l = true →
    RO.allOwnedList (RO.ownDeepList l) = true
  | [] => fun _ => rfl
  | r :: rs => by
    intro h
    simp only [RO.ownedOKList, Bool.and_eq_true] at h
    simp only [RO.ownDeepList, RO.allOwnedList, Bool.and_eq_true]
    exact ⟨ownDeep_allOwned r h.1, ownDeepList_allOwned rs h.2⟩
end

theorem ownedOKList_append (a b : List RO) :
    RO.ownedOKList (a ++ b) = (RO.ownedOKList a && RO.ownedOKList b) := by
  induction a with
  | nil => simp [RO.ownedOKList]
  | cons x a ih => simp [RO.ownedOKList, ih, Bool.and_assoc]

theorem allOwnedList_append (a b : List RO) :
    RO.allOwnedList (a ++ b) = (RO.allOwnedList a && RO.allOwnedList b) := by
  induction a with
  | nil => simp [RO.allOwnedList]
  | cons x a ih => simp [RO.allOwnedList, ih, Bool.and_assoc]

theorem ownedOKList_of_forall (l : List RO) (h : ∀ ro ∈ l, ro.ownedOK = true) :
    RO.ownedOKList l = true := by
  induction l with
  | nil => rfl
  | cons x l ih =>
    simp only [RO.ownedOKList, Bool.and_eq_true]
    exact ⟨h x (by simp), ih (fun r hr => h r (by simp [hr]))⟩

theorem allOwnedList_forall (l : List RO) (h : RO.allOwnedList l = true) :
    ∀ ro ∈ l, ro.allOwned = true := by
  induction l with
  | nil => simp
  | cons x l ih =>
    simp only [RO.allOwnedList, Bool.and_eq_true] at h
    intro ro hro
    simp only [List.mem_cons] at hro
    rcases hro with rfl | hro
    · exact h.1
    · exact ih h.2 ro hro

theorem allOwnedList_of_forall (l : List RO) (h : ∀ ro ∈ l, ro.allOwned = true) :
    RO.allOwnedList l = true := by
  induction l with
  | nil => rfl
  | cons x l ih =>
    simp only [RO.allOwnedList, Bool.and_eq_true]
    exact ⟨h x (by simp), ih (fun r hr => h r (by simp [hr]))⟩

/-- outcomes of well-owned rolls are fully owned -/
theorem outcomes_allOwned (rs : List RollRec) (h : RollRec.wellOwnedList rs = true) :
    ∀ ro ∈ rs.flatMap RollRec.outcomes, ro.allOwned = true := by
  induction rs with
  | nil => simp
  | cons r rs ih =>
    cases r with
    | mk outs srs =>
      simp only [RollRec.wellOwnedList, RollRec.wellOwned, Bool.and_eq_true] at h
      intro ro hro
      simp only [List.flatMap_cons, List.mem_append, RollRec.outcomes] at hro
      rcases hro with hro | hro
      · exact allOwnedList_forall outs h.1.1 ro hro
      · exact ih h.2 ro hro

theorem mkRollDeep_wellOwned (outs : List RO) (srs : List RollRec)
    (houts : ∀ ro ∈ outs, ro.ownedOK = true) (hsrs : RollRec.wellOwnedList srs = true) :
    (mkRollDeep outs srs).wellOwned = true := by
  simp only [mkRollDeep, RollRec.wellOwned, Bool.and_eq_true]
  exact ⟨ownDeepList_allOwned outs (ownedOKList_of_forall outs houts), hsrs⟩

theorem wellOwnedList_of_forall (rs : List RollRec) (h : ∀ r ∈ rs, r.wellOwned = true) :
    RollRec.wellOwnedList rs = true := by
  induction rs with
  | nil => rfl
  | cons x l ih =>
    simp only [RollRec.wellOwnedList, Bool.and_eq_true]
    exact ⟨h x (by simp), ih (fun r hr => h r (by simp [hr]))⟩

end Dyce

namespace Dyce
open List

theorem mem_insertRO (x : RO) (l : List RO) : ∀ ro ∈ insertRO x l, ro = x ∨ ro ∈ l := by
  induction l with
  | nil => intro ro h; simp [insertRO] at h; exact Or.inl h
  | cons y ys ih =>
    intro ro h
    unfold insertRO at h
    split at h
    · simp only [List.mem_cons] at h
      rcases h with rfl | rfl | h
      · exact Or.inl rfl
      · exact Or.inr (by simp)
      · exact Or.inr (by simp [h])
    · simp only [List.mem_cons] at h
      rcases h with rfl | h
      · exact Or.inr (by simp)
      · rcases ih ro h with h' | h'
        · exact Or.inl h'
        · exact Or.inr (by simp [h'])

theorem mem_sortRO (l : List RO) : ∀ ro ∈ sortRO l, ro ∈ l := by
  induction l with
  | nil => simp [sortRO]
  | cons x l ih =>
    intro ro h
    have hfold : sortRO (x :: l) = insertRO x (sortRO l) := rfl
    rw [hfold] at h
    rcases mem_insertRO x _ ro h with rfl | h'
    · simp
    · simp [ih ro h']

theorem live_ownedOK (rs : List RollRec) (h : RollRec.wellOwnedList rs = true) :
    ∀ ro ∈ liveOutcomes rs, ro.ownedOK = true := by
  intro ro hro
  unfold liveOutcomes at hro
  exact allOwned_ownedOK ro (outcomes_allOwned rs h ro (List.mem_filter.mp hro).1)

theorem euthanize_ownedOK (ro : RO) (h : ro.ownedOK = true) : (euthanize ro).ownedOK = true := by
  simp [euthanize, RO.ownedOK, RO.ownedOKList, h]

theorem sumOperand_ownedOK (sr : RollRec) (h : sr.wellOwned = true) :
    (sumOperand sr).ownedOK = true := by
  have hall : ∀ ro ∈ sr.outcomes, ro.allOwned = true := by
    have := outcomes_allOwned [sr] (by simp [RollRec.wellOwnedList, h])
    simpa using this
  have hlist : RO.ownedOKList sr.outcomes = true :=
    ownedOKList_of_forall _ (fun ro hro => allOwned_ownedOK ro (hall ro hro))
  unfold sumOperand
  split
  · rename_i ro heq
    split
    · exact allOwned_ownedOK ro (hall ro (by rw [heq]; simp))
    · simp [RO.ownedOK, hlist]
  · simp [RO.ownedOK, hlist]

theorem wellOwnedList_append (a b : List RollRec) :
    RollRec.wellOwnedList (a ++ b) = (RollRec.wellOwnedList a && RollRec.wellOwnedList b) := by
  induction a with
  | nil => simp [RollRec.wellOwnedList]
  | cons x a ih => simp [RollRec.wellOwnedList, ih, Bool.and_assoc]

theorem outcomes_allOwned_single (r : RollRec) (h : r.wellOwned = true) :
    ∀ ro ∈ r.outcomes, ro.allOwned = true := by
  have := outcomes_allOwned [r] (by simp [RollRec.wellOwnedList, h])
  simpa using this

theorem sourceRolls_wellOwned (r : RollRec) (h : r.wellOwned = true) :
    RollRec.wellOwnedList r.sourceRolls = true := by
  cases r with
  | mk outs srs =>
    simp only [RollRec.wellOwned, Bool.and_eq_true] at h
    exact h.2

theorem adoptAppend_allOwned (o ro : RO) (ho : o.allOwned = true) (hro : ro.allOwned = true) :
    (RO.adoptAppend o ro).allOwned = true := by
  cases ro with
  | mk v srcs ow =>
    simp only [RO.allOwned, Bool.and_eq_true] at hro
    simp only [RO.adoptAppend, RO.allOwned, allOwnedList_append, Bool.and_eq_true]
    refine ⟨hro.1, hro.2, ?_⟩
    simp [RO.allOwnedList, ho]

/-- the invariant of the substitution loop: yielded outcomes are hereditarily fine, appended rolls
are well-owned -/
def ExpandOK (res : List RO × List RollRec) : Prop :=
  (∀ ro ∈ res.1, ro.ownedOK = true) ∧ RollRec.wellOwnedList res.2 = true

theorem expandW_wellOwned (p : Int → Bool) (rollE : W RollRec)
    (hE : AllW (fun rec => rec.wellOwned = true) rollE) (replace : Bool) :
    ∀ (k : Nat) (roll : RollRec), roll.wellOwned = true →
      AllW ExpandOK (expandW mkRollDeep p rollE replace k roll) := by
  intro k
  induction k with
  | zero =>
    intro roll hroll
    rw [expandW]
    refine AllW_pure _ _ ⟨?_, by simp [RollRec.wellOwnedList, hroll]⟩
    intro ro hro
    exact allOwned_ownedOK ro (outcomes_allOwned_single roll hroll ro (List.mem_filter.mp hro).1)
  | succ k ih =>
    intro roll hroll
    rw [expandW]
    have hlive : ∀ o ∈ (roll.outcomes.filter fun ro => ro.value.isSome), o.allOwned = true :=
      fun o ho => outcomes_allOwned_single roll hroll o (List.mem_filter.mp ho).1
    generalize (roll.outcomes.filter fun ro => ro.value.isSome) = l at hlive
    have key : ∀ (l : List RO), (∀ o ∈ l, o.allOwned = true) →
        ∀ (acc : W (List RO × List RollRec)), AllW ExpandOK acc →
        AllW ExpandOK (l.foldl
          (fun acc o => do
            let st ← acc
            if p (o.value.getD 0) then do
              let er ← rollE
              let adopted := mkRollDeep (er.outcomes.map (RO.adoptAppend o)) er.sourceRolls
              let sub ← expandW mkRollDeep p rollE replace k adopted
              pure (st.1 ++ [if replace then euthanize o else o] ++ sub.1, st.2 ++ sub.2)
            else pure (st.1 ++ [o], st.2)) acc) := by
      intro l
      induction l with
      | nil => intro _ acc h; simpa using h
      | cons o l ihl =>
        intro hl acc hacc
        rw [List.foldl_cons]
        apply ihl (fun o' ho' => hl o' (by simp [ho']))
        have ho : o.allOwned = true := hl o (by simp)
        have hoOK : o.ownedOK = true := allOwned_ownedOK o ho
        refine AllW_bind ExpandOK ExpandOK acc _ hacc (fun st hst => ?_)
        by_cases hp : p (o.value.getD 0) = true
        · simp only [hp, if_true]
          refine AllW_bind _ _ rollE _ hE (fun er her => ?_)
          have hadopted : (mkRollDeep (er.outcomes.map (RO.adoptAppend o)) er.sourceRolls).wellOwned = true := by
            apply mkRollDeep_wellOwned
            · intro ro hro
              obtain ⟨ro', hro', rfl⟩ := List.mem_map.mp hro
              exact allOwned_ownedOK _ (adoptAppend_allOwned o ro' ho (outcomes_allOwned_single er her ro' hro'))
            · exact sourceRolls_wellOwned er her
          refine AllW_bind _ _ _ _ (ih _ hadopted) (fun sub hsub => ?_)
          refine AllW_pure _ _ ⟨?_, ?_⟩
          · intro ro hro
            simp only [List.mem_append, List.mem_singleton] at hro
            rcases hro with (hro | hro) | hro
            · exact hst.1 ro hro
            · subst hro
              cases replace with
              | true => exact euthanize_ownedOK o hoOK
              | false => exact hoOK
            · exact hsub.1 ro hro
          · rw [wellOwnedList_append, hst.2, hsub.2]; rfl
        · simp only [hp, Bool.false_eq_true, if_false]
          refine AllW_pure _ _ ⟨?_, hst.2⟩
          intro ro hro
          simp only [List.mem_append, List.mem_singleton] at hro
          rcases hro with hro | hro
          · exact hst.1 ro hro
          · subst hro; exact hoOK
    exact key l hlive _ (AllW_pure _ _ ⟨by simp, by simp [RollRec.wellOwnedList, hroll]⟩)

theorem chainRO_ownedOK (ops : List (Int → Int)) (a : RO) (ha : a.ownedOK = true) :
    (chainRO ops a).ownedOK = true := by
  induction ops generalizing a with
  | nil => simpa [chainRO] using ha
  | cons f fs ih =>
    rw [chainRO]
    exact ih _ (by simp [RO.ownedOK, RO.ownedOKList, ha])

mutual
/-- **C12, ownership clause (repaired `Roll.__init__`)**: in every roll any tree can produce, on
every choice path, every outcome reachable through `sources` — in the roll and in all its source
rolls — is associated with a roll. -/
theorem rollAllW_wellOwned : ∀ (rs : List RTree),
    AllW (fun l => RollRec.wellOwnedList l = true) (rollAllW mkRollDeep rs)
  | [] => AllW_pure _ _ rfl
  | s :: ss => by
    rw [rollAllW]
    refine AllW_bind _ _ _ _ (rollW_wellOwned s) (fun r hr => ?_)
    refine AllW_bind _ _ _ _ (rollAllW_wellOwned ss) (fun l hl => ?_)
    exact AllW_pure _ _ (by simp [RollRec.wellOwnedList, hr, hl])

theorem rollW_wellOwned : ∀ (r : RTree),
    AllW (fun rec => rec.wellOwned = true) (rollW mkRollDeep r)
  | .value (.scalar v) => by
    rw [rollW]
    exact AllW_pure _ _ (mkRollDeep_wellOwned _ _ (by simp [RO.ownedOK, RO.ownedOKList]) rfl)
  | .value (.hist h) => by
    rw [rollW]
    refine AllW_bind _ _ _ _ (AllW_true _) (fun v _ => ?_)
    exact AllW_pure _ _ (mkRollDeep_wellOwned _ _ (by simp [RO.ownedOK, RO.ownedOKList]) rfl)
  | .value (.pool hs) => by
    rw [rollW]
    refine AllW_bind _ _ _ _ (AllW_true _) (fun vs _ => ?_)
    exact AllW_pure _ _ (mkRollDeep_wellOwned _ _ (by
      intro ro hro
      rw [List.mem_map] at hro
      obtain ⟨v, _, rfl⟩ := hro
      simp [RO.ownedOK, RO.ownedOKList]) rfl)
  | .pool srcs => by
    rw [rollW]
    refine AllW_bind _ _ _ _ (rollAllW_wellOwned srcs) (fun rs hrs => ?_)
    exact AllW_pure _ _ (mkRollDeep_wellOwned _ _ (live_ownedOK rs hrs) hrs)
  | .rep n src => by
    rw [rollW]
    refine AllW_bind _ _ _ _ (AllW_replicateW _ n _ (rollW_wellOwned src)) (fun rs hrs => ?_)
    have hrs' := wellOwnedList_of_forall rs hrs
    exact AllW_pure _ _ (mkRollDeep_wellOwned _ _ (live_ownedOK rs hrs') hrs')
  | .bin op l r => by
    rw [rollW]
    refine AllW_bind _ _ _ _ (rollW_wellOwned l) (fun rl hl => ?_)
    refine AllW_bind _ _ _ _ (rollW_wellOwned r) (fun rr hr => ?_)
    exact AllW_pure _ _ (mkRollDeep_wellOwned _ _ (by
      intro ro hro
      simp only [List.mem_singleton] at hro
      subst hro
      simp [RO.ownedOK, RO.ownedOKList, sumOperand_ownedOK rl hl, sumOperand_ownedOK rr hr])
      (by simp [RollRec.wellOwnedList, hl, hr]))
  | .un op s => by
    rw [rollW]
    refine AllW_bind _ _ _ _ (rollW_wellOwned s) (fun rs hs => ?_)
    exact AllW_pure _ _ (mkRollDeep_wellOwned _ _ (by
      intro ro hro
      simp only [List.mem_singleton] at hro
      subst hro
      simp [RO.ownedOK, RO.ownedOKList, sumOperand_ownedOK rs hs])
      (by simp [RollRec.wellOwnedList, hs]))
  | .unChain ops s => by
    rw [rollW]
    refine AllW_bind _ _ _ _ (rollW_wellOwned s) (fun rs hs => ?_)
    exact AllW_pure _ _ (mkRollDeep_wellOwned _ _ (by
      intro ro hro
      simp only [List.mem_singleton] at hro
      subst hro
      exact chainRO_ownedOK ops _ (sumOperand_ownedOK rs hs))
      (by simp [RollRec.wellOwnedList, hs]))
  | .filt p srcs => by
    rw [rollW]
    refine AllW_bind _ _ _ _ (rollAllW_wellOwned srcs) (fun rs hrs => ?_)
    exact AllW_pure _ _ (mkRollDeep_wellOwned _ _ (by
      intro ro hro
      rw [List.mem_map] at hro
      obtain ⟨r0, hr0, rfl⟩ := hro
      have := live_ownedOK rs hrs r0 hr0
      split
      · exact this
      · exact euthanize_ownedOK r0 this) hrs)
  | .sel which srcs => by
    rw [rollW]
    refine AllW_bind _ _ _ _ (rollAllW_wellOwned srcs) (fun rs hrs => ?_)
    have hsorted : ∀ ro ∈ sortRO (liveOutcomes rs), ro.ownedOK = true :=
      fun ro hro => live_ownedOK rs hrs ro (mem_sortRO _ ro hro)
    simp only
    split
    · exact AllW_pure _ _ (mkRollDeep_wellOwned _ _ (by simp) hrs)
    · exact AllW_pure _ _ (mkRollDeep_wellOwned _ _ (by
        intro ro hro
        rw [List.mem_append] at hro
        rcases hro with hro | hro
        · rw [List.mem_filterMap] at hro
          obtain ⟨j, _, hj⟩ := hro
          exact hsorted ro (List.mem_of_getElem? hj)
        · rw [List.mem_filterMap] at hro
          obtain ⟨j, _, hj⟩ := hro
          cases hs : (sortRO (liveOutcomes rs))[j]? with
          | none => simp [hs] at hj
          | some r0 =>
            simp only [hs, Option.map_some, Option.some.injEq] at hj
            subst hj
            exact euthanize_ownedOK r0 (hsorted r0 (List.mem_of_getElem? hs))) hrs)
  | .subst p e replace maxDepth src => by
    rw [rollW]
    refine AllW_bind _ _ _ _ (rollW_wellOwned src) (fun sr hsr => ?_)
    refine AllW_bind _ _ _ _ (expandW_wellOwned p _ (rollW_wellOwned e) replace maxDepth sr hsr)
      (fun res hres => ?_)
    exact AllW_pure _ _ (mkRollDeep_wellOwned _ _ hres.1 hres.2)
  | .substMap p f maxDepth src => by
    rw [rollW]
    refine AllW_bind _ _ _ _ (rollW_wellOwned src) (fun sr hsr => ?_)
    have hlive : ∀ o ∈ (sr.outcomes.filter fun ro => ro.value.isSome), o.ownedOK = true :=
      fun o ho => allOwned_ownedOK o (outcomes_allOwned_single sr hsr o (List.mem_filter.mp ho).1)
    refine AllW_pure _ _ (mkRollDeep_wellOwned _ _ ?_ (by simp [RollRec.wellOwnedList, hsr]))
    intro ro hro
    split at hro
    · exact hlive ro hro
    · obtain ⟨o, ho, rfl⟩ := List.mem_map.mp hro
      split
      · simp [RO.ownedOK, RO.ownedOKList, hlive o ho]
      · exact hlive o ho
end

/-- **the pinned `Roll.__init__` violates the clause**: `2@R.from_value(H(2)) + 1` -/
theorem pinned_unowned_witness :
    ∃ e ∈ rollW mkRollTop
        (.bin (· + ·) (.rep 2 (.value (.hist [(1, 1), (2, 1)]))) (.value (.scalar 1))),
      e.1.wellOwned = false := by
  decide

/-- a `Roll.__init__` that associates the outcomes and their *direct* sources only -/
def RO.ownShallow : RO → RO
  | .mk v srcs _ => .mk v (srcs.map RO.own) true
def mkRollOneHop (outcomes : List RO) (sourceRolls : List RollRec) : RollRec :=
  .mk (outcomes.map RO.ownShallow) sourceRolls

/-- **one hop is not enough**: with a three-step custom operator (`lambda o: abs(o - 4) * 2`) the
intermediate outcome two `sources` hops away stays without a roll -/
theorem oneHop_unowned_witness :
    ∃ e ∈ rollW mkRollOneHop
        (.unChain [(· - 4), (fun a => (a.natAbs : Int)), (· * 2)] (.value (.hist [(1, 1), (2, 1)]))),
      e.1.wellOwned = false := by
  decide

end Dyce
