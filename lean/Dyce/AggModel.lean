import Dyce.EvalModel
import Dyce.HistModel
/-! Import-free model of `aggregate_weighted`. A branch result is `Ret α`: a bare outcome or a
histogram. -/
namespace Dyce

variable {α : Type}

/-- one iteration of the loop in `aggregate_weighted`: state = (aggregate_scalar, outcome_counts) -/
def aggStep (st : Nat × List (α × Nat)) (b : Ret α × Nat) : Nat × List (α × Nat) :=
  match b with
  | (.out o, cnt) => (st.1, st.2 ++ [(o, cnt * st.1)])
  | (.hist h, cnt) =>
    if total h = 0 then st
    else (st.1 * total h,
          st.2.map (fun oc => (oc.1, oc.2 * total h))
            ++ h.map (fun oc => (oc.1, cnt * st.1 * oc.2)))

def aggregate (brs : List (Ret α × Nat)) : Nat × List (α × Nat) :=
  brs.foldl aggStep (1, [])

/-- `aggregate_weighted(weighted_sources)` : the accumulated pairs handed to the constructor -/
def aggregateWeighted [DecidableEq α] (le : α → α → Bool) (brs : List (Ret α × Nat)) : Hist α :=
  ofItems le (aggregate brs).2

end Dyce
