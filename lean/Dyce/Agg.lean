import Dyce.Model
import Dyce.AggModel
import Dyce.LemmaA
import Dyce.KaronenMain
import Mathlib.Data.Rat.Defs
import Mathlib.Tactic.FieldSimp
import Mathlib.Tactic.Ring
import Mathlib.Algebra.Order.Field.Basic
import Mathlib.Data.Rat.Cast.Order

/-! Prototype: `aggregate_weighted` computes the exact (renormalised) mixture. -/
namespace Dyce

variable {α : Type} [DecidableEq α]

abbrev Br := Ret

/-- probability that a branch yields `z` -/
def brProb (z : α) : Br α → ℚ
  | .out o => if o = z then 1 else 0
  | .hist h => if total h = 0 then 0 else (countOf z h : ℚ) / (total h : ℚ)

/-- does the branch survive (non-empty)? -/
def brKept : Br α → ℚ
  | .out _ => 1
  | .hist h => if total h = 0 then 0 else 1

theorem countOf_map_scale (z : α) (l : List (α × Nat)) (t : Nat) :
    countOf z (l.map fun oc => (oc.1, oc.2 * t)) = countOf z l * t := by
  induction l with
  | nil => simp
  | cons b l ih => simp [ih]; split <;> ring

theorem countOf_map_scale_left (z : α) (l : List (α × Nat)) (t : Nat) :
    countOf z (l.map fun oc => (oc.1, t * oc.2)) = t * countOf z l := by
  induction l with
  | nil => simp
  | cons b l ih => simp [ih]; split <;> ring

/-- Fold invariant: after any prefix, the scalar is positive and every count is
`scalar * Σ cnt_i * P_i(z)`. -/
theorem agg_invariant (brs : List (Br α × Nat)) (st : Nat × List (α × Nat)) (z : α) (W : ℚ)
    (hpos : 0 < st.1) (hst : (countOf z st.2 : ℚ) = st.1 * W) :
    0 < (brs.foldl aggStep st).1 ∧
    (countOf z (brs.foldl aggStep st).2 : ℚ)
      = (brs.foldl aggStep st).1 * (W + (brs.map fun b => (b.2 : ℚ) * brProb z b.1).sum) := by
  induction brs generalizing st W with
  | nil => simp [hpos, hst]
  | cons b brs ih =>
    obtain ⟨br, cnt⟩ := b
    simp only [List.foldl_cons, List.map_cons, List.sum_cons]
    cases br with
    | out o =>
      have := ih (aggStep st (.out o, cnt)) (W + (cnt : ℚ) * brProb z (.out o))
        (by simpa [aggStep] using hpos)
        (by
          simp only [aggStep, countOf_append, countOf_cons, countOf_nil, add_zero, brProb]
          push_cast
          rw [hst]
          split <;> simp <;> ring)
      rw [this.2]
      refine ⟨this.1, ?_⟩
      ring
    | hist h =>
      by_cases h0 : total h = 0
      · have hstep : aggStep st (.hist h, cnt) = st := by simp [aggStep, h0]
        rw [hstep]
        have := ih st W hpos hst
        refine ⟨this.1, ?_⟩
        rw [this.2]
        simp [brProb, h0]
      · have hTpos : (0 : ℚ) < (total h : ℚ) := by
          exact_mod_cast Nat.pos_of_ne_zero h0
        have := ih (aggStep st (.hist h, cnt)) (W + (cnt : ℚ) * brProb z (.hist h))
          (by simp only [aggStep, h0, if_false]; exact Nat.mul_pos hpos (Nat.pos_of_ne_zero h0))
          (by
            simp only [aggStep, h0, if_false, countOf_append, brProb]
            rw [countOf_map_scale]
            have : countOf z (h.map fun oc => (oc.1, cnt * st.1 * oc.2))
                = cnt * st.1 * countOf z h := countOf_map_scale_left z h (cnt * st.1)
            rw [this]
            push_cast
            rw [hst]
            field_simp)
        rw [this.2]
        refine ⟨this.1, ?_⟩
        ring

/-- **C06 core**: every count of the aggregate is `S * Σ_i cnt_i * P_i(z)`, `S > 0`. -/
theorem aggregate_count (brs : List (Br α × Nat)) (z : α) :
    0 < (aggregate brs).1 ∧
    (countOf z (aggregate brs).2 : ℚ)
      = (aggregate brs).1 * (brs.map fun b => (b.2 : ℚ) * brProb z b.1).sum := by
  have := agg_invariant brs (1, []) z 0 (by simp) (by simp)
  simpa [aggregate] using this

end Dyce

namespace Dyce
open List
variable {α : Type} [DecidableEq α]

theorem total_map_scale (l : List (α × Nat)) (t : Nat) :
    total (l.map fun oc => (oc.1, oc.2 * t)) = total l * t := by
  induction l with
  | nil => simp [total]
  | cons b l ih => simp only [List.map_cons, total_cons, ih]; ring

theorem total_map_scale_left (l : List (α × Nat)) (t : Nat) :
    total (l.map fun oc => (oc.1, t * oc.2)) = t * total l := by
  induction l with
  | nil => simp [total]
  | cons b l ih => simp only [List.map_cons, total_cons, ih]; ring

theorem total_append' (l₁ l₂ : List (α × Nat)) : total (l₁ ++ l₂) = total l₁ + total l₂ := by
  simp [total]

/-- fold invariant for the total: `total = scalar * Σ cnt_i * kept_i` -/
theorem agg_invariant_total (brs : List (Br α × Nat)) (st : Nat × List (α × Nat)) (W : ℚ)
    (hpos : 0 < st.1) (hst : (total st.2 : ℚ) = st.1 * W) :
    (total (brs.foldl aggStep st).2 : ℚ)
      = (brs.foldl aggStep st).1 * (W + (brs.map fun b => (b.2 : ℚ) * brKept b.1).sum) := by
  induction brs generalizing st W with
  | nil => simp [hst]
  | cons b brs ih =>
    obtain ⟨br, cnt⟩ := b
    simp only [List.foldl_cons, List.map_cons, List.sum_cons]
    cases br with
    | out o =>
      have := ih (aggStep st (.out o, cnt)) (W + (cnt : ℚ) * brKept (.out o))
        (by simpa [aggStep] using hpos)
        (by
          simp only [aggStep, total_append', brKept]
          have : total [(o, cnt * st.1)] = cnt * st.1 := by simp [total]
          rw [this]; push_cast; rw [hst]; ring)
      rw [this]; ring
    | hist h =>
      by_cases h0 : total h = 0
      · have hstep : aggStep st (.hist h, cnt) = st := by simp [aggStep, h0]
        rw [hstep, ih st W hpos hst]
        simp [brKept, h0]
      · have := ih (aggStep st (.hist h, cnt)) (W + (cnt : ℚ) * brKept (.hist h))
          (by simp only [aggStep, h0, if_false]; exact Nat.mul_pos hpos (Nat.pos_of_ne_zero h0))
          (by
            simp only [aggStep, h0, if_false, total_append', brKept]
            rw [total_map_scale, total_map_scale_left]
            push_cast
            rw [hst]; ring)
        rw [this]; ring

/-- **C06**: the total of the aggregate is `S * Σ_i cnt_i · [branch i is kept]` -/
theorem aggregate_total (brs : List (Br α × Nat)) :
    (total (aggregate brs).2 : ℚ)
      = (aggregate brs).1 * (brs.map fun b => (b.2 : ℚ) * brKept b.1).sum := by
  have := agg_invariant_total brs (1, []) 0 (by simp) (by simp [total])
  simpa [aggregate] using this

/-- **C06, the mixture**: whenever some branch with positive weight is kept, the probability of
`z` in the aggregate is the renormalised mixture `Σ cnt_i·P_i(z) / Σ cnt_i·kept_i` -/
theorem aggregate_mixture (brs : List (Br α × Nat)) (z : α)
    (hw : (brs.map fun b => (b.2 : ℚ) * brKept b.1).sum ≠ 0) :
    (countOf z (aggregate brs).2 : ℚ) / (total (aggregate brs).2 : ℚ)
      = (brs.map fun b => (b.2 : ℚ) * brProb z b.1).sum
          / (brs.map fun b => (b.2 : ℚ) * brKept b.1).sum := by
  obtain ⟨hS, hc⟩ := aggregate_count brs z
  rw [hc, aggregate_total]
  have hSq : ((aggregate brs).1 : ℚ) ≠ 0 := by exact_mod_cast (by omega : (aggregate brs).1 ≠ 0)
  field_simp

/-- **C06**: if every branch is dropped (empty histograms only) the aggregate is empty -/
theorem aggregate_all_dropped (brs : List (Br α × Nat))
    (hall : ∀ b ∈ brs, ∃ h, b.1 = Ret.hist h ∧ total h = 0) : (aggregate brs).2 = [] := by
  unfold aggregate
  have : ∀ (st : Nat × List (α × Nat)), brs.foldl aggStep st = st := by
    induction brs with
    | nil => intro st; rfl
    | cons b brs ih =>
      intro st
      obtain ⟨h, hb, h0⟩ := hall b (by simp)
      rw [List.foldl_cons]
      have : aggStep st b = st := by
        obtain ⟨r, c⟩ := b
        simp only at hb; subst hb
        simp [aggStep, h0]
      rw [this]
      exact ih (fun b' hb' => hall b' (by simp [hb'])) st
  rw [this]

end Dyce
