import Dyce.Model
/-! Import-free model of `H` construction and arithmetic. -/
namespace Dyce

variable {α β γ : Type}

/-- `if outcome not in self._h: self._h[outcome] = 0 ; self._h[outcome] += count` -/
def insertAdd [DecidableEq α] (acc : Hist α) (o : α) (c : Nat) : Hist α :=
  match acc with
  | [] => [(o, c)]
  | (o', c') :: rest => if o' = o then (o', c' + c) :: rest else (o', c') :: insertAdd rest o c

/-- `H.__init__` on an iterable of `(outcome, count)` pairs: (stable) sort, then accumulate into an
insertion-ordered dict -/
def ofItems [DecidableEq α] (le : α → α → Bool) (items : List (α × Nat)) : Hist α :=
  (items.mergeSort (fun a b => le a.1 b.1)).foldl (fun acc oc => insertAdd acc oc.1 oc.2) []

/-- `H.map(bin_op, other_h)`: product of the supports (self outer, other inner), counts multiplied,
result handed to the constructor -/
def mapH [DecidableEq γ] (le : γ → γ → Bool) (op : α → β → γ) (a : Hist α) (b : Hist β) : Hist γ :=
  ofItems le (a.flatMap fun xc => b.map fun yc => (op xc.1 yc.1, xc.2 * yc.2))

/-- `H.umap(un_op)`; also `H.map(op, scalar)` with `f = (· op s)` and `H.rmap(s, op)` with
`f = (s op ·)` -/
def umapH [DecidableEq γ] (le : γ → γ → Bool) (f : α → γ) (a : Hist α) : Hist γ :=
  ofItems le (a.map fun xc => (f xc.1, xc.2))

/-- `sum_h(hs)`: Python's `sum` starts from `0`, so the first step is `0 + h` (`__radd__`) -/
def sumH [DecidableEq α] (le : α → α → Bool) (zero : α) (add : α → α → α) : List (Hist α) → Hist α
  | [] => []
  | h :: hs => hs.foldl (fun acc g => mapH le add acc g) (umapH le (add zero) h)

/-- `n @ h` -/
def matmulH [DecidableEq α] (le : α → α → Bool) (zero : α) (add : α → α → α) (n : Nat) (h : Hist α) :
    Hist α := sumH le zero add (List.replicate n h)

/-- multiply every count by `k` (an unreduced copy of the same distribution) -/
def scaleH {δ : Type} (k : Nat) (h : Hist δ) : Hist δ := h.map fun oc => (oc.1, k * oc.2)

end Dyce
