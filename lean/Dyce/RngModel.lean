/-! Import-free model of `dyce.rng.PCG64DXSMRandom`: NumPy's PCG64-DXSM bit generator (128-bit LCG
with the cheap multiplier, DXSM output computed from the pre-iterated state, the buffered 32-bit
half), `Generator.bytes`, and the `random.Random` primitives the wrapper overrides (`random`,
`getrandbits`, `randbytes`, `seed`, `getstate`, `setstate`) together with the one base-class method
that keeps state of its own (`gauss`, through `gauss_next`). -/
namespace Dyce.Rng

def M64 : Nat := 2 ^ 64
def M128 : Nat := 2 ^ 128
def MULT : Nat := 0xda942042e4dd58b5

/-- `bit_generator.state`: the LCG state and increment, and the buffered 32-bit half -/
structure Pcg where
  state : Nat
  inc : Nat
  has32 : Bool
  u32 : Nat
  deriving DecidableEq, Repr

/-- `pcg64_cm_random_r`: DXSM output of the current state, then one LCG step -/
def next64 (g : Pcg) : Nat × Pcg :=
  let hi0 := g.state / M64
  let lo := (g.state % M64) ||| 1
  let hi1 := hi0 ^^^ (hi0 >>> 32)
  let hi2 := (hi1 * MULT) % M64
  let hi3 := hi2 ^^^ (hi2 >>> 48)
  let out := (hi3 * lo) % M64
  (out, { g with state := (g.state * MULT + g.inc) % M128 })

/-- `next_uint32`: the low half now, the high half buffered for the next request -/
def next32 (g : Pcg) : Nat × Pcg :=
  if g.has32 then (g.u32, { g with has32 := false })
  else
    let (n, g') := next64 g
    (n % 2 ^ 32, { g' with has32 := true, u32 := n / 2 ^ 32 })

/-- `next_double`: 53 random bits (the numerator of `random()`) -/
def random53 (g : Pcg) : Nat × Pcg :=
  let (n, g') := next64 g
  (n / 2 ^ 11, g')

def draw32s : Nat → Pcg → List Nat × Pcg
  | 0, g => ([], g)
  | k + 1, g =>
    let (x, g') := next32 g
    let (xs, g'') := draw32s k g'
    (x :: xs, g'')

/-- the four bytes of a `uint32`, little endian -/
def le4 (x : Nat) : List Nat := [x % 256, (x / 256) % 256, (x / 65536) % 256, (x / 16777216) % 256]

/-- `Generator.bytes(n)`: `(n - 1) / 4 + 1` (C division: one draw even for `n = 0`) little-endian
`uint32`s, truncated to `n` bytes -/
def randbytes (g : Pcg) (n : Nat) : List Nat × Pcg :=
  let k := if n = 0 then 1 else (n - 1) / 4 + 1
  let (ws, g') := draw32s k g
  ((ws.flatMap le4).take n, g')

def fromBytesBig (bs : List Nat) : Nat := bs.foldl (fun acc b => acc * 256 + b) 0

inductive RngErr where | valueError
  deriving DecidableEq, Repr

/-- `getrandbits(k)` -/
def getrandbits (g : Pcg) (k : Int) : Except RngErr Nat × Pcg :=
  if k < 0 then (.error .valueError, g)
  else
    let kk := k.toNat
    let numbytes := (kk + 7) / 8
    let (bs, g') := randbytes g numbytes
    (.ok (fromBytesBig bs >>> (numbytes * 8 - kk)), g')

/-- the wrapper: the generator and `random.Random`'s `gauss_next` cell (the two `random()`
numerators the cached variate was derived from) -/
structure Wrapper where
  gen : Pcg
  gauss : Option (Nat × Nat)
  deriving DecidableEq, Repr

inductive Op where
  | random
  | getrandbits (k : Int)
  | randbytes (n : Nat)
  | gauss
  deriving Repr

inductive Out where
  | float53 (num : Nat)
  | int (x : Nat)
  | bytes (bs : List Nat)
  | gaussFresh (r1 r2 : Nat)    -- computed from two new `random()` draws (returns the cos branch)
  | gaussCached (r1 r2 : Nat)   -- the stored sin branch of an earlier pair
  | err
  deriving DecidableEq, Repr

def Wrapper.step (w : Wrapper) : Op → Out × Wrapper
  | .random => let (n, g) := random53 w.gen; (.float53 n, { w with gen := g })
  | .getrandbits k =>
    match getrandbits w.gen k with
    | (.ok x, g) => (.int x, { w with gen := g })
    | (.error _, g) => (.err, { w with gen := g })
  | .randbytes n => let (bs, g) := randbytes w.gen n; (.bytes bs, { w with gen := g })
  | .gauss =>
    match w.gauss with
    | some (r1, r2) => (.gaussCached r1 r2, { w with gauss := none })
    | none =>
      let (r1, g1) := random53 w.gen
      let (r2, g2) := random53 g1
      (.gaussFresh r1 r2, { gen := g2, gauss := some (r1, r2) })

def Wrapper.run (w : Wrapper) : List Op → List Out × Wrapper
  | [] => ([], w)
  | op :: ops =>
    let (o, w') := w.step op
    let (os, w'') := w'.run ops
    (o :: os, w'')

/-- `getstate()` / `setstate(s)` as repaired (fix commit b91993c): the snapshot carries `gauss_next` -/
def Wrapper.getstate (w : Wrapper) : Pcg × Option (Nat × Nat) := (w.gen, w.gauss)
def Wrapper.setstate (_ : Wrapper) (s : Pcg × Option (Nat × Nat)) : Wrapper := ⟨s.1, s.2⟩
/-- `seed(a)`: a fresh generator (NumPy's SeedSequence is the abstract function `seedFn`) and an
empty `gauss_next` -/
def Wrapper.seed (seedFn : Nat → Pcg) (_ : Wrapper) (a : Nat) : Wrapper := ⟨seedFn a, none⟩

/-- the pinned methods: the snapshot is the generator state only, `setstate`/`seed` leave `gauss_next` -/
def Wrapper.getstatePinned (w : Wrapper) : Pcg := w.gen
def Wrapper.setstatePinned (w : Wrapper) (s : Pcg) : Wrapper := { w with gen := s }

end Dyce.Rng
