import Dyce.EqProofs
import Dyce.ShorthandProofs
/-!
# C05 — Equality, hashing, reduction and construction agree on 'same distribution'

> Two histograms compare equal exactly when they encode the same probability distribution
> (ignoring zero-count outcomes and any common multiplier of the counts), equal histograms hash
> equal, != is the negation, and a pool equals a histogram exactly when its flattened sum does.
> lowest_terms is idempotent, preserves the distribution, drops zero counts and returns positive
> counts whose gcd is 1. Building a histogram from the same multiset of outcome/count data in any
> supported form and in any order yields the identical histogram, with outcomes in ascending order,
> repeated outcomes' counts added, total equal to the sum of counts, and negative counts rejected.

`Asc le h` (outcomes strictly ascending) is the invariant every constructed histogram satisfies
(`C05_ctor_sorted`).

| clause | theorem |
|---|---|
| `==` ⇔ same distribution | `C05_eq_iff_same_distribution` |
| equal ⇒ equal hash key (the frozenset handed to `hash`) | `C05_eq_hash` |
| `!=` is the negation | `C05_ne` |
| pool vs histogram: through the flattened sum | `C05_pool_eq` (definition of the model) + `C03_noargs` |
| `lowest_terms`: idempotent / same distribution / no zero counts / gcd 1 | `C05_lowest_terms_idem`, `C05_lowest_terms_counts`, `C05_lowest_terms_total`, `C05_lowest_terms_positive`, `C05_lowest_terms_gcd` |
| construction: any order ⇒ identical histogram | `C05_ctor_perm` |
| ascending, counts added, total = Σ counts | `C05_ctor_sorted`, `C05_ctor_count`, `C05_ctor_total` |
| negative counts rejected | `C05_ctor_negative` |
| the `H(n)` shorthand: faces `1..n` (`n..-1` for negative `n`, none for 0) once each, ascending, total `|n|`, identical to the histogram built from those faces given explicitly in any order | `C05_shorthand_faces`, `C05_shorthand_sorted`, `C05_shorthand_total`, `C05_shorthand_same_as_explicit` |
-/
namespace Dyce
open List

variable {α : Type} [DecidableEq α] {le : α → α → Bool}

theorem C05_eq_iff_same_distribution (hle : TotalOrderB le) {a b : Hist α} (ha : Asc le a) (hb : Asc le b) :
    eqH le a b = true ↔ SameDist a b := eqH_iff_sameDist hle ha hb

theorem C05_eq_hash (a b : Hist α) (h : eqH le a b = true) : hashKey le a = hashKey le b := by
  unfold eqH at h; unfold hashKey; simpa using h

theorem C05_ne (a b : Hist α) : neH le a b = !eqH le a b := rfl

/-- `p == h` is decided on the pool's flattened sum -/
def poolEqH [AddCommMonoid α] (le : α → α → Bool) (dice : List (Hist α)) (b : Hist α) : Bool :=
  eqH le (sumH le 0 (· + ·) dice) b

theorem C05_pool_eq [AddCommMonoid α] (hle : TotalOrderB le) (dice : List (Hist α)) (b : Hist α)
    (hs : Asc le (sumH le 0 (· + ·) dice)) (hb : Asc le b) :
    poolEqH le dice b = true ↔ SameDist (sumH le 0 (· + ·) dice) b :=
  eqH_iff_sameDist hle hs hb

theorem C05_lowest_terms_idem (hle : TotalOrderB le) {h : Hist α} (ha : Asc le h) :
    lowestTerms le (lowestTerms le h) = lowestTerms le h := lowestTerms_idem hle ha

theorem C05_lowest_terms_counts (hle : TotalOrderB le) {h : Hist α} (ha : Asc le h) (z : α) :
    countOf z (lowestTerms le h) * ga h = countOf z h := (lowestTerms_facts hle ha).2.2.1 z

theorem C05_lowest_terms_total (hle : TotalOrderB le) {h : Hist α} (ha : Asc le h) :
    total (lowestTerms le h) * ga h = total h := lowestTerms_total hle ha

theorem C05_lowest_terms_positive (hle : TotalOrderB le) {h : Hist α} (ha : Asc le h) :
    ∀ e ∈ lowestTerms le h, 0 < e.2 :=
  fun e he => Nat.pos_of_ne_zero ((lowestTerms_facts hle ha).2.1 e he)

theorem C05_lowest_terms_gcd (hle : TotalOrderB le) {h : Hist α} (ha : Asc le h) :
    (total h ≠ 0 → gcdList ((lowestTerms le h).map Prod.snd) = 1) ∧ (total h = 0 → lowestTerms le h = []) :=
  ⟨(lowestTerms_facts hle ha).2.2.2.1, (lowestTerms_facts hle ha).2.2.2.2⟩

/-- `lowest_terms` yields a histogram equal (`==`) to the original -/
theorem C05_lowest_terms_eq (hle : TotalOrderB le) {h : Hist α} (ha : Asc le h) :
    eqH le (lowestTerms le h) h = true := by
  unfold eqH; rw [lowestTerms_idem hle ha]; simp

theorem C05_ctor_perm (hle : TotalOrderB le) {l₁ l₂ : List (α × Nat)} (hp : l₁ ~ l₂) :
    ofItems le l₁ = ofItems le l₂ := ofItems_perm hle hp

theorem C05_ctor_sorted (hle : TotalOrderB le) (items : List (α × Nat)) : Asc le (ofItems le items) :=
  asc_ofItems hle items

theorem C05_ctor_count (items : List (α × Nat)) (z : α) :
    countOf z (ofItems le items) = countOf z items := countOf_ofItems le items z

theorem C05_ctor_total (items : List (α × Nat)) :
    total (ofItems le items) = (items.map Prod.snd).sum := total_ofItems le items

theorem C05_ctor_negative (items : List (α × Int)) :
    ((∃ e ∈ items, e.2 < 0) → ofItemsChecked le items = .error ()) ∧
    ((∀ e ∈ items, 0 ≤ e.2) → ofItemsChecked le items = .ok (ofItems le (items.map fun oc => (oc.1, oc.2.toNat)))) := by
  unfold ofItemsChecked
  constructor
  · intro ⟨e, he, hneg⟩
    have : items.any (fun oc => decide (oc.2 < 0)) = true := by
      rw [List.any_eq_true]; exact ⟨e, he, by simpa using hneg⟩
    rw [if_pos this]
  · intro hall
    have : ¬ items.any (fun oc => decide (oc.2 < 0)) = true := by
      rw [List.any_eq_true]
      intro ⟨e, he, hneg⟩
      have := hall e he
      simp at hneg; omega
    rw [if_neg this]

theorem C05_shorthand_faces (n z : Int) (c : Nat) :
    (z, c) ∈ ofInt n ↔ c = 1 ∧ ((1 ≤ z ∧ z ≤ n) ∨ (n ≤ z ∧ z ≤ -1)) := mem_ofInt n z c

theorem C05_shorthand_sorted (n : Int) : Asc leZ (ofInt n) := asc_ofInt n

theorem C05_shorthand_total (n : Int) : total (ofInt n) = n.natAbs := total_ofInt n

theorem C05_shorthand_same_as_explicit (n : Int) {l : List (Int × Nat)} (hp : l ~ ofInt n) :
    ofItems leZ l = ofInt n := ofItems_perm_ofInt n hp

example : ofInt 3 = [(1, 1), (2, 1), (3, 1)] ∧ ofInt (-2) = [(-2, 1), (-1, 1)] ∧ ofInt 0 = [] := by decide

/-! non-vacuity: a scaled, zero-padded copy is `SameDist` -/
example : SameDist ([(1, 1), (2, 3)] : Hist Int) [(0, 0), (1, 2), (2, 6)] := by
  constructor
  · decide
  · intro z
    by_cases h1 : z = 1
    · subst h1; decide
    · by_cases h2 : z = 2
      · subst h2; decide
      · have h10 : ¬ (1 : Int) = z := fun h => h1 h.symm
        have h20 : ¬ (2 : Int) = z := fun h => h2 h.symm
        by_cases h0 : (0 : Int) = z
        · subst h0; decide
        · simp [countOf, wsum, h10, h20, h0]

end Dyce
