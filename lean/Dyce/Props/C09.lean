import Dyce.OrderStatProofs
import Dyce.HistProofs
import Dyce.Props.C03
import Dyce.AppearProofs
import Mathlib.Tactic.Ring
/-!
# C09 — Closed-form counting shortcuts agree with enumeration

> For any histogram h, any n >= 1 and any position pos in [-n, n), h.order_stat_for_n_at_pos(n, pos)
> has exactly the counts of (n@P(h)).h(pos); h.exactly_k_times_in_n(o, n, k) equals the count of k
> in n@(h.eq(o)); and p.appearances_in_rolls(o) equals the histogram, over all rolls of p, of how
> many dice show o. Summed over all positions the order-statistic counts of a face equal
> n*h[face]*h.total**(n-1), and repeated or interleaved calls with different n and pos on the same
> object return the same answers as first calls.

| clause | theorem |
|---|---|
| order statistic, per face: closed form = number of rolls whose `pos`-th smallest die shows `f` | `C09_order_stat_count` |
| … as a histogram (`order_stat_for_n_at_pos`) | `C09_order_stat_hist` |
| … equals `(n@P(h)).h(pos)` | `C09_order_stat_eq_pool_h` |
| `exactly_k_times_in_n` = number of rolls with exactly `k` dice showing `o` = count of `k` in `n@(h.eq(o))` | `C09_exactly_k`, `C09_exactly_k_eq_matmul` |
| sum over positions | `C09_sum_positions` |
| call order on a shared object never matters | C13 (`memo_transparent`, key = `n`) |
| `appearances_in_rolls(o)` = histogram over all rolls of how many dice show `o` | `C09_appearances` |
-/
namespace Dyce
open List

variable {α : Type} [DecidableEq α] {le : α → α → Bool}

theorem C09_order_stat_count (hle : TotalOrderB le) (h : Hist α) (n : Nat) (hn : 0 < n)
    (pos : Nat) (f : α) :
    orderStatCount le h n pos f
      = wsum (tuples h n) (fun t => if (sortBy le t)[pos]? = some f then 1 else 0) :=
  orderStatCount_correct hle h n hn pos f

theorem countOf_map_key_nodup (h : Hist α) (hd : (h.map Prod.fst).Nodup) (g : α → Nat) (f : α)
    (hf : f ∈ h.map Prod.fst) :
    countOf f (h.map fun fc => (fc.1, g fc.1)) = g f := by
  induction h with
  | nil => simp at hf
  | cons e h ih =>
    simp only [List.map_cons, List.nodup_cons] at hd
    simp only [List.map_cons, countOf_cons]
    by_cases he : e.1 = f
    · subst he
      have : countOf e.1 (h.map fun fc => (fc.1, g fc.1)) = 0 := by
        have hno : ∀ x ∈ (h.map fun fc => (fc.1, g fc.1)), x.1 ≠ e.1 := by
          intro x hx
          simp only [List.mem_map] at hx
          obtain ⟨y, hy, rfl⟩ := hx
          intro hxe
          exact hd.1 (List.mem_map.mpr ⟨y, hy, hxe⟩)
        exact countOf_eq_zero_of_not_mem _ _ hno
      simp [this]
    · simp only [he, if_false, Nat.zero_add]
      apply ih hd.2
      simp only [List.map_cons, List.mem_cons] at hf
      rcases hf with hf | hf
      · exact absurd hf.symm he
      · exact hf

/-- `h.order_stat_for_n_at_pos(n, pos)` as a histogram: every face of `h` gets exactly the number
of rolls of `n` dice whose `pos`-th smallest die shows it -/
theorem C09_order_stat_hist (hle : TotalOrderB le) (h : Hist α) (hd : (h.map Prod.fst).Nodup)
    (n : Nat) (hn : 0 < n) (pos : Nat) (f : α) (hf : f ∈ h.map Prod.fst) :
    countOf f (orderStat le h n pos)
      = wsum (tuples h n) (fun t => if (sortBy le t)[pos]? = some f then 1 else 0) := by
  unfold orderStat
  rw [countOf_ofItems, countOf_map_key_nodup h hd _ f hf]
  exact orderStatCount_correct hle h n hn pos f

theorem C09_exactly_k (h : Hist α) (hd : (h.map Prod.fst).Nodup) (o : α) (n k : Nat) (hk : k ≤ n) :
    exactlyK h o n k = wsum (tuples h n) (fun t => if t.count o = k then 1 else 0) :=
  exactlyK_correct h hd o n k hk

/-- `p.appearances_in_rolls(o)`: per-group binomial histograms, summed = brute force over the pool -/
theorem C09_appearances (dice : List (Hist α)) (hne : dice ≠ [])
    (hd : ∀ h ∈ dice, (h.map Prod.fst).Nodup) (o : α) (k : Nat) :
    countOf k (appearances dice o) = wsum (poolTuples dice) (fun t => if t.count o = k then 1 else 0) :=
  appearances_correct dice hne hd o k

/-- `exactly_k_times_in_n(o, n, k)` is the count of `k` in `n @ h.eq(o)` -/
theorem C09_exactly_k_eq_matmul (h : Hist α) (hd : (h.map Prod.fst).Nodup) (o : α) (n k : Nat)
    (hn : 0 < n) (hk : k ≤ n) :
    exactlyK h o n k = countOf k (betaHist (fun x => x == o) n h) := by
  rw [exactlyK_correct h hd o n k hk]
  unfold countOf
  rw [wsum_betaHist _ n hn]
  apply wsum_congr; intro tw _
  have : tw.1.countP (fun x => x == o) = tw.1.count o := by
    simp [List.count]
  rw [this]

end Dyce

namespace Dyce
open List
variable {α : Type} [DecidableEq α] {le : α → α → Bool}

/-- number of positions of the sorted roll showing `f` = number of dice showing `f` -/
theorem sum_positions_pointwise (t : List α) (f : α) (n : Nat) (hn : t.length = n) :
    (((List.range n).map fun pos => if (sortBy le t)[pos]? = some f then 1 else 0).sum : Nat)
      = t.count f := by
  have hp := sortBy_perm le t
  rw [← hp.count_eq, ← hn, ← hp.length_eq]
  generalize sortBy le t = s
  induction s with
  | nil => simp
  | cons a s ih =>
    rw [List.length_cons, List.range_succ_eq_map, List.map_cons, List.sum_cons, List.map_map]
    simp only [List.getElem?_cons_zero, Option.some.injEq, Function.comp_def,
      List.getElem?_cons_succ]
    rw [ih, List.count_cons]
    by_cases h : a = f
    · simp [h]; omega
    · simp [h]

theorem wsum_constH {β} (l : List (β × Nat)) (c : Nat) : wsum l (fun _ => c) = total l * c := by
  induction l with
  | nil => simp [wsum, total]
  | cons e l ih => simp only [wsum_cons, ih, total_cons]; ring

theorem wsum_tuples_count (h : Hist α) (f : α) (n : Nat) :
    wsum (tuples h n) (fun t => t.count f) = n * countOf f h * total h ^ (n - 1) := by
  induction n with
  | zero => simp [tuples, wsum]
  | succ n ih =>
    rw [wsum_tuples_succ]
    have : ∀ x : α, wsum (tuples h n) (fun t => (x :: t).count f)
        = (if x = f then 1 else 0) * total h ^ n + wsum (tuples h n) (fun t => t.count f) := by
      intro x
      have h1 : ∀ t : List α, (x :: t).count f = (if x = f then 1 else 0) * 1 + t.count f := by
        intro t; rw [List.count_cons]; by_cases hx : x = f <;> simp [hx]; omega
      have hf : (fun t : List α => (x :: t).count f) = fun t => (if x = f then 1 else 0) * 1 + t.count f :=
        funext h1
      rw [hf, wsum_add, wsum_mul_left, wsum_tuples_one]
    have hg : (fun x : α => wsum (tuples h n) (fun t => (x :: t).count f))
        = fun x => (if x = f then 1 else 0) * total h ^ n + wsum (tuples h n) (fun t => t.count f) :=
      funext this
    rw [hg, wsum_add, ih]
    have h2 : wsum h (fun x => (if x = f then 1 else 0) * total h ^ n) = countOf f h * total h ^ n :=
      wsum_mul_right h (fun x => if x = f then 1 else 0) (total h ^ n)
    have h3 : wsum h (fun _ => n * countOf f h * total h ^ (n - 1)) = total h * (n * countOf f h * total h ^ (n - 1)) :=
      wsum_constH h _
    rw [h2, h3]
    cases n with
    | zero => simp
    | succ m => simp only [Nat.add_sub_cancel]; ring

/-- **C09**: summed over all positions, the order-statistic counts of a face equal
`n * h[face] * h.total ** (n - 1)` -/
theorem C09_sum_positions (hle : TotalOrderB le) (h : Hist α) (n : Nat) (hn : 0 < n) (f : α) :
    ((List.range n).map fun pos => orderStatCount le h n pos f).sum
      = n * countOf f h * total h ^ (n - 1) := by
  have h1 : ∀ pos, orderStatCount le h n pos f
      = wsum (tuples h n) (fun t => if (sortBy le t)[pos]? = some f then 1 else 0) :=
    fun pos => orderStatCount_correct hle h n hn pos f
  simp only [h1]
  rw [← wsum_list_sum (tuples h n) (List.range n)
    (fun pos t => if (sortBy le t)[pos]? = some f then 1 else 0)]
  rw [← wsum_tuples_count h f n]
  apply wsum_congr'
  intro tw htw
  exact sum_positions_pointwise tw.1 f n (mem_tuples htw).1

end Dyce

namespace Dyce
open List
variable {α : Type} [DecidableEq α] [AddCommMonoid α] {le : α → α → Bool}

theorem selSum_single (t : List α) (pos : Nat) (hp : pos < t.length) :
    selSum le 0 (· + ·) [pos] t = (sortBy le t)[pos]'(by rw [(sortBy_perm le t).length_eq]; exact hp) := by
  have hl : pos < (sortBy le t).length := by rw [(sortBy_perm le t).length_eq]; exact hp
  unfold selSum takeIdxs sumRoll
  simp [List.getElem?_eq_getElem hl]

/-- **C09**: `h.order_stat_for_n_at_pos(n, pos)` has exactly the counts of `(n@P(h)).h(pos)` -/
theorem C09_order_stat_eq_pool_h (hle : TotalOrderB le) (h : Hist α)
    (hs : h.Pairwise (fun a b => le a.1 b.1 = true ∧ a.1 ≠ b.1)) (hT : 0 < total h)
    (n : Nat) (hn : 0 < n) (pos : Nat) (hpos : pos < n) :
    ∃ H, poolH le 0 (· + ·) (fun m x => m • x) (List.replicate n h) [Sel.idx pos] = .ok H ∧
      ∀ f ∈ h.map Prod.fst, countOf f H = countOf f (orderStat le h n pos) := by
  have hd : DiceOK le (List.replicate n h) := by
    intro d hd; rw [List.eq_of_mem_replicate hd]; exact ⟨hs, hT⟩
  have hres : resolve (List.replicate n h).length [Sel.idx pos] = .ok [pos] := by
    simp only [resolve, resolveOne, List.length_replicate, bind, Except.bind, pure, Except.pure]
    have h1 : ¬ ((pos : Int) < 0) := by omega
    have h2 : (0 : Int) ≤ pos ∧ (pos : Int) < n := by omega
    simp [h1, h2]
  obtain ⟨H, hH, hc⟩ := (C03_selection hle (List.replicate n h) hd (Sel.idx pos) []).2 [pos] hres
  refine ⟨H, hH, ?_⟩
  intro f hf
  have hnodup : (h.map Prod.fst).Nodup := by
    rw [List.nodup_iff_pairwise_ne, List.pairwise_map]
    exact hs.imp (fun hab => hab.2)
  rw [hc f, C09_order_stat_hist hle h hnodup n hn pos f hf]
  have hne : ¬ (([pos] : List Nat) = [] ∨ List.replicate n h = []) := by
    intro hh; rcases hh with hh | hh
    · simp at hh
    · have := congrArg List.length hh; simp at this; omega
  rw [if_neg hne, poolTuples_replicate]
  apply wsum_congr'
  intro tw htw
  have hlen : tw.1.length = n := (mem_tuples htw).1
  rw [selSum_single tw.1 pos (by omega)]
  have hl : pos < (sortBy le tw.1).length := by rw [(sortBy_perm le tw.1).length_eq]; omega
  rw [List.getElem?_eq_getElem hl]
  simp

end Dyce
