import Dyce.HistOpsProofs
import Dyce.EqProofs
/-!
# C18 — Deck-style draws and count bookkeeping are exact

> h.draw(x) returns h with exactly the requested outcomes' counts reduced (by one per listed
> occurrence, or by the mapped amount, negative amounts adding cards), keeps every original outcome
> including those that reach zero, never produces a negative count (raising ValueError instead) and
> changes the total by exactly the net number drawn; h.draw() removes exactly one card of an outcome
> that h.roll() can return. accumulate adds counts outcome-wise (total = sum of totals), zero_fill
> adds only zero-count outcomes and never alters a distribution, and remove deletes exactly the
> named outcome.

`req` is the `Counter` of the request (distinct keys): an iterable contributes one per occurrence,
a mapping its amounts (possibly zero or negative).

| clause | theorem |
|---|---|
| counts reduced exactly, others unchanged | `C18_draw_count` |
| total changes by the net number drawn | `C18_draw_total` |
| originals kept (also at zero) | `C18_draw_keeps_originals` |
| never negative: counts are naturals by construction; over-draw → error | `C18_draw_overdraw_rejected` |
| any sequence of draws (rejected ones leave the deck alone) conserves cards | `C18_draw_sequence` |
| `draw()` = `draw(roll())`, one card of a positive-count outcome | `C18_draw_one` (with C10 for what `roll()` can return) |
| accumulate / zero_fill / remove | `C18_accumulate_count`, `C18_accumulate_total`, `C18_zero_fill_count`, `C18_zero_fill_total`, `C18_remove_count` |
| `zero_fill` never alters a distribution: the result is the same distribution and compares `==` to the original (C05's equality) | `C18_zero_fill_same_distribution`, `C18_zero_fill_eq` |
-/
namespace Dyce
open List

variable {α : Type} [DecidableEq α] {le : α → α → Bool}

theorem C18_draw_count (h : Hist α) (req : List (α × Int)) (hh : (h.map Prod.fst).Nodup)
    (hq : (req.map Prod.fst).Nodup) (r : Hist α) (hr : drawH le h req = .ok r) (o : α) :
    ((countOf o r : Nat) : Int) = cnt h o - reqOf req o := draw_count h req hh hq r hr o

theorem C18_draw_total (h : Hist α) (req : List (α × Int)) (hh : (h.map Prod.fst).Nodup)
    (hq : (req.map Prod.fst).Nodup) (r : Hist α) (hr : drawH le h req = .ok r) :
    ((total r : Nat) : Int) = (total h : Int) - (req.map Prod.snd).sum := draw_total h req hh hq r hr

theorem C18_draw_keeps_originals (h : Hist α) (req : List (α × Int)) (r : Hist α)
    (hr : drawH le h req = .ok r) (o : α) (ho : o ∈ h.map Prod.fst) : o ∈ r.map Prod.fst :=
  draw_keeps_originals h req r hr o ho

theorem C18_draw_overdraw_rejected (h : Hist α) (req : List (α × Int)) (hq : (req.map Prod.fst).Nodup)
    (e : α × Int) (he : e ∈ req) (hpos : 0 < e.2) (hover : cnt h e.1 < e.2) :
    ∃ err, drawH le h req = .error err := draw_overdraw_rejected h req hq e he hpos hover

/-- drawing one card of an outcome with a positive count (what `h.draw()` does with the outcome
`h.roll()` returned) succeeds and removes exactly that card -/
theorem C18_draw_one (h : Hist α) (hh : (h.map Prod.fst).Nodup) (o : α) (r : Hist α)
    (hr : drawH le h [(o, 1)] = .ok r) (z : α) :
    ((countOf z r : Nat) : Int) = cnt h z - (if z = o then 1 else 0) := by
  rw [C18_draw_count h [(o, 1)] hh (by simp) r hr z]
  congr 1
  unfold reqOf
  by_cases hz : z = o
  · subst hz; simp
  · have : ¬ o = z := fun h => hz h.symm
    simp [hz, this]

theorem asc_keys_nodup {h : Hist α} (ha : Asc le h) : (h.map Prod.fst).Nodup := by
  rw [List.nodup_iff_pairwise_ne, List.pairwise_map]
  exact ha.imp (fun hab => hab.2)

/-- **any sequence of draws**: after every sequence of requests (accepted or rejected) the deck's
total is the original total minus the net number of cards the accepted requests drew -/
theorem C18_draw_sequence (hle : TotalOrderB le) (reqs : List (List (α × Int)))
    (hq : ∀ req ∈ reqs, (req.map Prod.fst).Nodup) (h : Hist α) (hh : (h.map Prod.fst).Nodup) :
    ((total (drawSeq le h reqs).1 : Nat) : Int) = (total h : Int) - (drawSeq le h reqs).2 := by
  induction reqs generalizing h with
  | nil => simp [drawSeq]
  | cons req reqs ih =>
    have hq' : ∀ r ∈ reqs, (r.map Prod.fst).Nodup := fun r hr => hq r (by simp [hr])
    unfold drawSeq
    cases hd : drawH le h req with
    | error e => simp only; exact ih hq' h hh
    | ok r =>
      simp only
      have hr_nodup : (r.map Prod.fst).Nodup := by
        obtain ⟨_, rfl⟩ := drawH_ok h req r hd
        exact asc_keys_nodup (asc_ofItems hle _)
      have h1 := ih hq' r hr_nodup
      have h2 := draw_total h req hh (hq req (by simp)) r hd
      rw [h1, h2]; ring

theorem C18_accumulate_count (a b : Hist α) (z : α) :
    countOf z (accumulate le a b) = countOf z a + countOf z b := accumulate_count a b z

theorem C18_accumulate_total (a b : Hist α) : total (accumulate le a b) = total a + total b :=
  accumulate_total a b

theorem C18_zero_fill_count (h : Hist α) (outs : List α) (z : α) :
    countOf z (zeroFill le h outs) = countOf z h := zeroFill_count h outs z

theorem C18_zero_fill_total (h : Hist α) (outs : List α) : total (zeroFill le h outs) = total h :=
  zeroFill_total h outs

theorem C18_zero_fill_same_distribution (h : Hist α) (outs : List α) :
    SameDist (zeroFill le h outs) h := by
  refine ⟨by rw [C18_zero_fill_total], fun z => ?_⟩
  rw [C18_zero_fill_count, C18_zero_fill_total]

theorem C18_zero_fill_eq (hle : TotalOrderB le) (h : Hist α) (ha : Asc le h) (outs : List α) :
    eqH le (zeroFill le h outs) h = true :=
  (eqH_iff_sameDist hle (by unfold zeroFill accumulate; exact asc_ofItems hle _) ha).mpr
    (C18_zero_fill_same_distribution h outs)

theorem C18_remove_count (h : Hist α) (o z : α) :
    countOf z (removeH le h o) = if z = o then 0 else countOf z h := remove_count h o z

/-! non-vacuity: a concrete accepted draw and a concrete rejected one -/
example : ∃ err, drawH (fun a b : Int => decide (a ≤ b)) [(1, 1), (2, 2)] [(1, 2)] = .error err :=
  draw_overdraw_rejected _ _ (by simp) (1, 2) (by simp) (by decide) (by decide)

end Dyce
