import Dyce.HistProofs
import Dyce.PoolHProofs
import Dyce.ConvLaws
/-!
# C01 — Histogram arithmetic is the exact convolution of independent outcomes

> For any histograms a and b and any supported binary operator, the count of outcome z in
> `a op b` is exactly the sum of a[x]*b[y] over all pairs with `x op y == z`, so its total is
> a.total*b.total; with a scalar operand (on either side) or a unary operator every outcome is
> relabelled, counts of colliding outcomes add, and the total is preserved. A pool used as an
> operand behaves exactly as its flattened histogram, and zero-count or unreduced counts in the
> operands never change any positive count of the result beyond the stated formula.

The theorems quantify over *every* function `op` (so over every operator `H`/`P` expose: arithmetic,
bitwise, comparisons — Bool-valued `op` —, `within`/`vs` — `op x y = cmp (x - y)` —, parity tests),
every pair of histograms (any counts incl. 0, any scale, empty) and every Boolean order `le` used to
sort the result.

| clause | theorem |
|---|---|
| count of `z` in `a op b` | `C01_convolution` |
| total of `a op b` | `C01_total` |
| scalar on the right (`H.map(op, s)`), on the left (`H.rmap(s, op)`), unary (`H.umap`) | `C01_relabel`, `C01_relabel_total`, `C01_scalar_right`, `C01_scalar_left` |
| result outcomes strictly ascending, each once | `C01_result_sorted` |
| pool operand = its flattened histogram | `C01_pool_operand` (+ `C03_noargs`: `P.h()` is the sum of the dice) |
| zero-count entries never change a count | `C01_zero_pad_left`, `C01_zero_pad_right` |
| the formula is symmetric in the operands: `a op b` and `b op' a` (`op'` = `op` with its arguments swapped) have the same counts, so a commutative operator commutes on histograms | `C01_swap`, `C01_commutative` |
| iterating the formula: for an associative operator `(a op b) op c` and `a op (b op c)` have the same counts (sums of several dice do not depend on bracketing) | `C01_associative` |
| unreduced counts scale the result linearly | `C01_scale_left`, `C01_scale_right` |
-/
namespace Dyce
open List

variable {α β γ : Type} [DecidableEq γ]

theorem C01_convolution (le : γ → γ → Bool) (op : α → β → γ) (a : Hist α) (b : Hist β) (z : γ) :
    countOf z (mapH le op a b)
      = wsum a (fun x => wsum b (fun y => if op x y = z then 1 else 0)) :=
  countOf_mapH le op a b z

theorem C01_swap (le : γ → γ → Bool) (op : α → β → γ) (a : Hist α) (b : Hist β) (z : γ) :
    countOf z (mapH le op a b) = countOf z (mapH le (fun y x => op x y) b a) :=
  countOf_mapH_swap le op a b z

theorem C01_commutative (le : γ → γ → Bool) (op : α → α → γ) (hop : ∀ x y, op x y = op y x)
    (a b : Hist α) (z : γ) : countOf z (mapH le op a b) = countOf z (mapH le op b a) :=
  countOf_mapH_comm le op hop a b z

theorem C01_associative {α : Type} [DecidableEq α] (le : α → α → Bool) (op : α → α → α)
    (hop : ∀ x y w, op (op x y) w = op x (op y w)) (a b c : Hist α) (z : α) :
    countOf z (mapH le op (mapH le op a b) c) = countOf z (mapH le op a (mapH le op b c)) :=
  countOf_mapH_assoc le op hop a b c z

theorem C01_total (le : γ → γ → Bool) (op : α → β → γ) (a : Hist α) (b : Hist β) :
    total (mapH le op a b) = total a * total b :=
  total_mapH le op a b

theorem C01_relabel (le : γ → γ → Bool) (f : α → γ) (a : Hist α) (z : γ) :
    countOf z (umapH le f a) = wsum a (fun x => if f x = z then 1 else 0) :=
  countOf_umapH le f a z

theorem C01_relabel_total (le : γ → γ → Bool) (f : α → γ) (a : Hist α) :
    total (umapH le f a) = total a :=
  total_umapH le f a

/-- `H.map(op, s)` for a scalar `s`: operand order `x op s` -/
def mapScalarR (le : γ → γ → Bool) (op : α → β → γ) (a : Hist α) (s : β) : Hist γ :=
  umapH le (fun x => op x s) a

/-- `H.rmap(s, op)`: operand order `s op x` -/
def mapScalarL (le : γ → γ → Bool) (op : β → α → γ) (s : β) (a : Hist α) : Hist γ :=
  umapH le (fun x => op s x) a

theorem C01_scalar_right (le : γ → γ → Bool) (op : α → β → γ) (a : Hist α) (s : β) (z : γ) :
    countOf z (mapScalarR le op a s) = wsum a (fun x => if op x s = z then 1 else 0) ∧
    total (mapScalarR le op a s) = total a :=
  ⟨countOf_umapH le _ a z, total_umapH le _ a⟩

theorem C01_scalar_left (le : γ → γ → Bool) (op : β → α → γ) (s : β) (a : Hist α) (z : γ) :
    countOf z (mapScalarL le op s a) = wsum a (fun x => if op s x = z then 1 else 0) ∧
    total (mapScalarL le op s a) = total a :=
  ⟨countOf_umapH le _ a z, total_umapH le _ a⟩

/-- a scalar operand behaves like the one-outcome histogram `{s: 1}` -/
theorem C01_scalar_as_hist (le : γ → γ → Bool) (op : α → β → γ) (a : Hist α) (s : β) (z : γ) :
    countOf z (mapScalarR le op a s) = countOf z (mapH le op a [(s, 1)]) := by
  rw [(C01_scalar_right le op a s z).1, C01_convolution]
  apply wsum_congr; intro x _; simp [wsum]

theorem C01_result_sorted {le : γ → γ → Bool} (hle : TotalOrderB le) (op : α → β → γ)
    (a : Hist α) (b : Hist β) : Asc le (mapH le op a b) :=
  asc_ofItems hle _

/-- a pool as the left operand: `P op b` is `P.h() op b` -/
def poolMapH [DecidableEq α] [AddCommMonoid α] (leα : α → α → Bool) (le : γ → γ → Bool)
    (op : α → β → γ) (dice : List (Hist α)) (b : Hist β) : Hist γ :=
  mapH le op (sumH leα 0 (· + ·) dice) b

theorem C01_pool_operand [DecidableEq α] [AddCommMonoid α] (leα : α → α → Bool) (le : γ → γ → Bool)
    (op : α → β → γ) (dice : List (Hist α)) (hne : dice ≠ []) (b : Hist β) (z : γ) :
    countOf z (poolMapH leα le op dice b)
      = wsum (poolTuples dice) (fun t => wsum b (fun y => if op t.sum y = z then 1 else 0)) := by
  unfold poolMapH
  rw [C01_convolution, wsum_sumH]
  simp only [hne, if_false]
  apply wsum_congr; intro tw _
  rw [foldl_add_eq_sum]

theorem wsum_zero_entry {δ} (x : δ) (f : δ → Nat) : wsum [(x, 0)] f = 0 := by simp [wsum]

theorem C01_zero_pad_left (le : γ → γ → Bool) (op : α → β → γ) (a₁ a₂ : Hist α) (x : α)
    (b : Hist β) (z : γ) :
    countOf z (mapH le op (a₁ ++ (x, 0) :: a₂) b) = countOf z (mapH le op (a₁ ++ a₂) b) := by
  simp only [C01_convolution, wsum_append, wsum_cons, Nat.zero_mul, Nat.zero_add]

theorem C01_zero_pad_right (le : γ → γ → Bool) (op : α → β → γ) (a : Hist α) (b₁ b₂ : Hist β)
    (y : β) (z : γ) :
    countOf z (mapH le op a (b₁ ++ (y, 0) :: b₂)) = countOf z (mapH le op a (b₁ ++ b₂)) := by
  simp only [C01_convolution, wsum_append, wsum_cons, Nat.zero_mul, Nat.zero_add]

theorem wsum_scaleH {δ} (k : Nat) (h : Hist δ) (f : δ → Nat) : wsum (scaleH k h) f = k * wsum h f := by
  induction h with
  | nil => simp [scaleH, wsum]
  | cons e h ih =>
    have : scaleH k (e :: h) = (e.1, k * e.2) :: scaleH k h := rfl
    rw [this, wsum_cons, wsum_cons, ih]; ring

theorem C01_scale_left (le : γ → γ → Bool) (op : α → β → γ) (k : Nat) (a : Hist α) (b : Hist β) (z : γ) :
    countOf z (mapH le op (scaleH k a) b) = k * countOf z (mapH le op a b) := by
  simp only [C01_convolution, wsum_scaleH]

theorem C01_scale_right (le : γ → γ → Bool) (op : α → β → γ) (k : Nat) (a : Hist α) (b : Hist β) (z : γ) :
    countOf z (mapH le op a (scaleH k b)) = k * countOf z (mapH le op a b) := by
  simp only [C01_convolution, wsum_scaleH]
  rw [← wsum_mul_left]

/-! non-vacuity / sanity: a non-injective operator on operands with zero and unreduced counts -/
example : countOf (0 : Int) (mapH (fun a b : Int => decide (a ≤ b)) (fun x y : Int => x % y)
    [(2, 2), (3, 0), (4, 1)] [(1, 1), (2, 4)]) = 15 := by
  rw [C01_convolution]; decide

end Dyce
