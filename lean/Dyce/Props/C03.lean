import Dyce.PoolHProofs
import Dyce.AffineProofs
/-!
# C03 — Selective pool sums `P.h(*which)` are exact, including every short-circuit

> For any pool and selection, P.h(*which) is exactly (counts, not only proportions) the histogram
> of the sum of the selected positions of the ascending-sorted roll over all rolls: P.h() is the
> sum of the dice, selecting every position m times gives m times that sum, P.h(i) is the i-th
> order statistic, and an empty selection gives the empty histogram. Equivalent selections give
> identical histograms, and relabelling all faces by an increasing affine map relabels the result
> by the same map (a decreasing map mirrors the positions).

| clause | theorem |
|---|---|
| `P.h()` = sum of the dice, exact counts | `C03_noargs` |
| `P.h(*which)`: IndexError exactly when indexing raises, empty selection → empty histogram, otherwise the brute-force count of `Σ_{j∈idxs} sorted(t)[j] = z` — through the `h() * (i // n)` short-circuit and through roll enumeration alike | `C03_selection` |
| equivalent selections (same resolved positions) | `C03_equivalent_selections` |
| permuted / regrouped identifiers (the same positions in another order) | `C03_permuted_selections` |
| relabelling all faces by an increasing affine map relabels the result by the same map (`a·s + b·m` for `m` selected positions) | `C03_affine_increasing`; decreasing maps (`a < 0`, mirrored positions `j ↦ n-1-j`): `C03_affine_decreasing` |

The outcome type is any `AddCommMonoid` with a Boolean total order (`Int`, `ℚ`, …).
-/
namespace Dyce
open List

variable {α : Type} [DecidableEq α] [AddCommMonoid α] {le : α → α → Bool}

theorem C03_noargs (dice : List (Hist α)) (smul : Nat → α → α) (z : α) :
    ∃ H, poolH le 0 (· + ·) smul dice [] = .ok H ∧
      countOf z H = if dice = [] then 0
        else wsum (poolTuples dice) (fun t => if t.sum = z then 1 else 0) :=
  poolH_nosel dice smul z

theorem C03_selection (hle : TotalOrderB le) (dice : List (Hist α)) (hd : DiceOK le dice)
    (s : Sel) (ss : List Sel) :
    (∀ e, resolve dice.length (s :: ss) = .error e →
        poolH le 0 (· + ·) (fun m x => m • x) dice (s :: ss) = .error e) ∧
    (∀ idxs, resolve dice.length (s :: ss) = .ok idxs →
      ∃ H, poolH le 0 (· + ·) (fun m x => m • x) dice (s :: ss) = .ok H ∧
        ∀ z, countOf z H =
          if idxs = [] ∨ dice = [] then 0
          else wsum (poolTuples dice)
            (fun t => if selSum le 0 (· + ·) idxs t = z then 1 else 0)) :=
  poolH_sel hle dice hd s ss

/-- two selections that resolve to the same positions (written differently: index, negative index,
slice, regrouped identifiers) give histograms with identical counts -/
theorem C03_equivalent_selections (hle : TotalOrderB le) (dice : List (Hist α)) (hd : DiceOK le dice)
    (s₁ : Sel) (ss₁ : List Sel) (s₂ : Sel) (ss₂ : List Sel) (idxs : List Nat)
    (h₁ : resolve dice.length (s₁ :: ss₁) = .ok idxs) (h₂ : resolve dice.length (s₂ :: ss₂) = .ok idxs) :
    ∃ H₁ H₂, poolH le 0 (· + ·) (fun m x => m • x) dice (s₁ :: ss₁) = .ok H₁ ∧
      poolH le 0 (· + ·) (fun m x => m • x) dice (s₂ :: ss₂) = .ok H₂ ∧
      ∀ z, countOf z H₁ = countOf z H₂ := by
  obtain ⟨H₁, e₁, c₁⟩ := (C03_selection hle dice hd s₁ ss₁).2 idxs h₁
  obtain ⟨H₂, e₂, c₂⟩ := (C03_selection hle dice hd s₂ ss₂).2 idxs h₂
  exact ⟨H₁, H₂, e₁, e₂, fun z => by rw [c₁ z, c₂ z]⟩

/-- selections whose resolved positions are permutations of one another (permuted or regrouped
identifiers) give histograms with identical counts -/
theorem C03_permuted_selections (hle : TotalOrderB le) (dice : List (Hist α)) (hd : DiceOK le dice)
    (s₁ : Sel) (ss₁ : List Sel) (s₂ : Sel) (ss₂ : List Sel) (idxs₁ idxs₂ : List Nat)
    (h₁ : resolve dice.length (s₁ :: ss₁) = .ok idxs₁) (h₂ : resolve dice.length (s₂ :: ss₂) = .ok idxs₂)
    (hp : idxs₁ ~ idxs₂) :
    ∃ H₁ H₂, poolH le 0 (· + ·) (fun m x => m • x) dice (s₁ :: ss₁) = .ok H₁ ∧
      poolH le 0 (· + ·) (fun m x => m • x) dice (s₂ :: ss₂) = .ok H₂ ∧
      ∀ z, countOf z H₁ = countOf z H₂ := by
  obtain ⟨H₁, e₁, c₁⟩ := (C03_selection hle dice hd s₁ ss₁).2 idxs₁ h₁
  obtain ⟨H₂, e₂, c₂⟩ := (C03_selection hle dice hd s₂ ss₂).2 idxs₂ h₂
  refine ⟨H₁, H₂, e₁, e₂, fun z => ?_⟩
  rw [c₁ z, c₂ z]
  have hnil : (idxs₁ = [] ∨ dice = []) ↔ (idxs₂ = [] ∨ dice = []) := by
    constructor
    · rintro (h | h)
      · left; subst h; exact List.Perm.eq_nil hp.symm
      · right; exact h
    · rintro (h | h)
      · left; subst h; exact List.Perm.eq_nil hp
      · right; exact h
  by_cases h : idxs₁ = [] ∨ dice = []
  · rw [if_pos h, if_pos (hnil.mp h)]
  · rw [if_neg h, if_neg (fun h' => h (hnil.mpr h'))]
    apply wsum_congr'
    intro tw _
    rw [selSum_perm tw.1 hp]

end Dyce

namespace Dyce
open List

theorem diceOK_relabel (a b : Int) (ha : 0 < a) (dice : List (Hist Int)) (hd : DiceOK leZ dice) :
    DiceOK leZ (relabelDice (fun x => a * x + b) dice) := by
  intro h' hh'
  obtain ⟨h, hh, rfl⟩ := List.mem_map.mp hh'
  obtain ⟨hs, hT⟩ := hd h hh
  constructor
  · rw [List.pairwise_map]
    apply hs.imp
    intro x y hxy
    simp only [leZ, decide_eq_true_eq, ne_eq] at hxy ⊢
    constructor
    · nlinarith [hxy.1]
    · intro heq
      apply hxy.2
      have : a * x.1 = a * y.1 := by linarith
      exact Int.eq_of_mul_eq_mul_left (by omega) this
  · have : total (h.map fun oc => ((fun x => a * x + b) oc.1, oc.2)) = total h := by
      simp [total, List.map_map, Function.comp_def]
    rw [this]; exact hT

/-- **increasing affine relabelling**: `P'.h(*which)` of the pool with every face `x` replaced by
`a·x + b` (`a > 0`) is `P.h(*which)` relabelled by `s ↦ a·s + b·m`, `m` = number of selected
positions — exact counts -/
theorem C03_affine_increasing (a b : Int) (ha : 0 < a) (dice : List (Hist Int)) (hd : DiceOK leZ dice)
    (s : Sel) (ss : List Sel) (idxs : List Nat) (hres : resolve dice.length (s :: ss) = .ok idxs) :
    ∃ H H', poolH leZ 0 (· + ·) (fun m x => m • x) dice (s :: ss) = .ok H ∧
      poolH leZ 0 (· + ·) (fun m x => m • x) (relabelDice (fun x => a * x + b) dice) (s :: ss) = .ok H' ∧
      ∀ z, countOf (a * z + b * idxs.length) H' = countOf z H := by
  have hlen : (relabelDice (fun x => a * x + b) dice).length = dice.length := by simp [relabelDice]
  obtain ⟨H, e, c⟩ := (C03_selection leZ_total dice hd s ss).2 idxs hres
  obtain ⟨H', e', c'⟩ := (C03_selection leZ_total _ (diceOK_relabel a b ha dice hd) s ss).2 idxs
    (by rw [hlen]; exact hres)
  refine ⟨H, H', e, e', fun z => ?_⟩
  rw [c z, c' (a * z + b * idxs.length)]
  have hnil : (idxs = [] ∨ relabelDice (fun x => a * x + b) dice = []) ↔ (idxs = [] ∨ dice = []) := by
    have : relabelDice (fun x => a * x + b) dice = [] ↔ dice = [] := by simp [relabelDice]
    rw [this]
  by_cases h : idxs = [] ∨ dice = []
  · rw [if_pos h, if_pos (hnil.mpr h)]
  · rw [if_neg h, if_neg (fun h' => h (hnil.mp h'))]
    exact spec_affine a b ha dice idxs (resolve_lt dice.length (s :: ss) idxs hres) z

end Dyce

namespace Dyce
open List
variable {α : Type} [DecidableEq α] [AddCommMonoid α] {le : α → α → Bool}

/-! non-vacuity: the hypotheses are met by a concrete pool and selection -/
example : DiceOK (fun a b : Int => decide (a ≤ b)) [[(1, 1), (2, 1)], [(1, 2), (3, 0), (4, 1)]] := by
  intro h hh
  simp only [List.mem_cons, List.not_mem_nil, or_false] at hh
  rcases hh with rfl | rfl <;> decide
example : resolve 2 [Sel.idx (-1), Sel.slc none none (some (-1))] = .ok [1, 1, 0] := by decide

theorem diceOK_relabelRev (a b : Int) (ha : a < 0) (dice : List (Hist Int)) (hd : DiceOK leZ dice) :
    DiceOK leZ (relabelDiceRev (fun x => a * x + b) dice) := by
  intro h' hh'
  obtain ⟨h, hh, rfl⟩ := List.mem_map.mp hh'
  obtain ⟨hs, hT⟩ := hd h hh
  constructor
  · rw [List.pairwise_reverse, List.pairwise_map]
    apply hs.imp
    intro x y hxy
    simp only [leZ, decide_eq_true_eq, ne_eq] at hxy ⊢
    constructor
    · nlinarith [hxy.1]
    · intro heq
      apply hxy.2
      have : a * y.1 = a * x.1 := by linarith
      exact (Int.eq_of_mul_eq_mul_left (by omega) this).symm
  · have : total (h.map fun oc => ((fun x => a * x + b) oc.1, oc.2)).reverse = total h := by
      simp [total, List.map_map, Function.comp_def, List.sum_reverse]
    rw [this]; exact hT

/-- **decreasing affine relabelling**: with every face `x` replaced by `a·x + b` (`a < 0`) the sorted
order of every roll is reversed, so `P'.h(*which)` is `P.h(*which')` relabelled by `s ↦ a·s + b·m`
whenever `which'` selects the mirrored positions (`j ↦ n-1-j`) — exact counts -/
theorem C03_affine_decreasing (a b : Int) (ha : a < 0) (dice : List (Hist Int)) (hd : DiceOK leZ dice)
    (s : Sel) (ss : List Sel) (s' : Sel) (ss' : List Sel) (idxs : List Nat)
    (hres : resolve dice.length (s :: ss) = .ok idxs)
    (hres' : resolve dice.length (s' :: ss') = .ok (mirror dice.length idxs)) :
    ∃ H H', poolH leZ 0 (· + ·) (fun m x => m • x) dice (s' :: ss') = .ok H ∧
      poolH leZ 0 (· + ·) (fun m x => m • x) (relabelDiceRev (fun x => a * x + b) dice) (s :: ss) = .ok H' ∧
      ∀ z, countOf (a * z + b * idxs.length) H' = countOf z H := by
  have hlen : (relabelDiceRev (fun x => a * x + b) dice).length = dice.length := by simp [relabelDiceRev]
  obtain ⟨H, e, c⟩ := (C03_selection leZ_total dice hd s' ss').2 _ hres'
  obtain ⟨H', e', c'⟩ := (C03_selection leZ_total _ (diceOK_relabelRev a b ha dice hd) s ss).2 idxs
    (by rw [hlen]; exact hres)
  refine ⟨H, H', e, e', fun z => ?_⟩
  rw [c z, c' (a * z + b * idxs.length)]
  have hm : mirror dice.length idxs = [] ↔ idxs = [] := by simp [mirror]
  have hnil : (idxs = [] ∨ relabelDiceRev (fun x => a * x + b) dice = []) ↔ (mirror dice.length idxs = [] ∨ dice = []) := by
    have : relabelDiceRev (fun x => a * x + b) dice = [] ↔ dice = [] := by simp [relabelDiceRev]
    rw [this, hm]
  by_cases h : mirror dice.length idxs = [] ∨ dice = []
  · rw [if_pos h, if_pos (hnil.mpr h)]
  · rw [if_neg h, if_neg (fun h' => h (hnil.mp h'))]
    exact spec_affine_neg a b ha dice idxs (resolve_lt dice.length (s :: ss) idxs hres) z

/-- non-vacuity: on 3 dice, position 0 of the negated pool is position 2 (`-1`) of the original -/
example : resolve 3 [Sel.idx 0] = .ok [0] ∧ resolve 3 [Sel.idx (-1)] = .ok (mirror 3 [0]) := by decide

end Dyce
