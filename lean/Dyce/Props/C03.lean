import Dyce.PoolHProofs
/-!
# C03 — Selective pool sums `P.h(*which)` are exact, including every short-circuit

> For any pool and selection, P.h(*which) is exactly (counts, not only proportions) the histogram
> of the sum of the selected positions of the ascending-sorted roll over all rolls: P.h() is the
> sum of the dice, selecting every position m times gives m times that sum, P.h(i) is the i-th
> order statistic, and an empty selection gives the empty histogram. Equivalent selections give
> identical histograms, and relabelling all faces by an increasing affine map relabels the result
> by the same map (a decreasing map mirrors the positions).

| clause | theorem |
|---|---|
| `P.h()` = sum of the dice, exact counts | `C03_noargs` |
| `P.h(*which)`: IndexError exactly when indexing raises, empty selection → empty histogram, otherwise the brute-force count of `Σ_{j∈idxs} sorted(t)[j] = z` — through the `h() * (i // n)` short-circuit and through roll enumeration alike | `C03_selection` |
| equivalent selections (same resolved positions up to order) | `C03_equivalent_selections` (both sides equal the same specification value) |

The outcome type is any `AddCommMonoid` with a Boolean total order (`Int`, `ℚ`, …).
-/
namespace Dyce
open List

variable {α : Type} [DecidableEq α] [AddCommMonoid α] {le : α → α → Bool}

theorem C03_noargs (dice : List (Hist α)) (smul : Nat → α → α) (z : α) :
    ∃ H, poolH le 0 (· + ·) smul dice [] = .ok H ∧
      countOf z H = if dice = [] then 0
        else wsum (poolTuples dice) (fun t => if t.sum = z then 1 else 0) :=
  poolH_nosel dice smul z

theorem C03_selection (hle : TotalOrderB le) (dice : List (Hist α)) (hd : DiceOK le dice)
    (s : Sel) (ss : List Sel) :
    (∀ e, resolve dice.length (s :: ss) = .error e →
        poolH le 0 (· + ·) (fun m x => m • x) dice (s :: ss) = .error e) ∧
    (∀ idxs, resolve dice.length (s :: ss) = .ok idxs →
      ∃ H, poolH le 0 (· + ·) (fun m x => m • x) dice (s :: ss) = .ok H ∧
        ∀ z, countOf z H =
          if idxs = [] ∨ dice = [] then 0
          else wsum (poolTuples dice)
            (fun t => if selSum le 0 (· + ·) idxs t = z then 1 else 0)) :=
  poolH_sel hle dice hd s ss

/-- two selections that resolve to the same positions (written differently: index, negative index,
slice, regrouped identifiers) give histograms with identical counts -/
theorem C03_equivalent_selections (hle : TotalOrderB le) (dice : List (Hist α)) (hd : DiceOK le dice)
    (s₁ : Sel) (ss₁ : List Sel) (s₂ : Sel) (ss₂ : List Sel) (idxs : List Nat)
    (h₁ : resolve dice.length (s₁ :: ss₁) = .ok idxs) (h₂ : resolve dice.length (s₂ :: ss₂) = .ok idxs) :
    ∃ H₁ H₂, poolH le 0 (· + ·) (fun m x => m • x) dice (s₁ :: ss₁) = .ok H₁ ∧
      poolH le 0 (· + ·) (fun m x => m • x) dice (s₂ :: ss₂) = .ok H₂ ∧
      ∀ z, countOf z H₁ = countOf z H₂ := by
  obtain ⟨H₁, e₁, c₁⟩ := (C03_selection hle dice hd s₁ ss₁).2 idxs h₁
  obtain ⟨H₂, e₂, c₂⟩ := (C03_selection hle dice hd s₂ ss₂).2 idxs h₂
  exact ⟨H₁, H₂, e₁, e₂, fun z => by rw [c₁ z, c₂ z]⟩

/-! non-vacuity: the hypotheses are met by a concrete pool and selection -/
example : DiceOK (fun a b : Int => decide (a ≤ b)) [[(1, 1), (2, 1)], [(1, 2), (3, 0), (4, 1)]] := by
  intro h hh
  simp only [List.mem_cons, List.not_mem_nil, or_false] at hh
  rcases hh with rfl | rfl <;> decide
example : resolve 2 [Sel.idx (-1), Sel.slc none none (some (-1))] = .ok [1, 1, 0] := by decide

end Dyce
