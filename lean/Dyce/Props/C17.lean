import Dyce.RngModel
import Mathlib.Tactic.Ring
import Mathlib.Tactic.Linarith
import Mathlib.Algebra.Order.Ring.Nat
/-!
# C17 — The NumPy-backed generator is a faithful, reproducible random.Random

> For every seed and every interleaving of random.Random sampling methods, two generators seeded
> alike - or one generator re-seeded with the same value - produce identical streams, and
> setstate(getstate()) taken at any point replays exactly the continuation that followed the
> snapshot. Distinct instances never influence one another, getrandbits(k) lies in [0, 2**k) for
> every k >= 0 and rejects negative k, randbytes(n) has length n, random() lies in [0, 1), and
> dyce.rng.RNG defaults to such a generator when NumPy is importable.

The model is the wrapper as written: PCG64-DXSM (checked bit for bit against NumPy by the
correspondence), `Generator.bytes`, `random` / `getrandbits` / `randbytes`, and `seed` / `getstate`
/ `setstate` with `random.Random`'s own `gauss_next` cell.  Every other sampling method of
`random.Random` is a stateless client of these primitives.

| clause | theorem |
|---|---|
| `getrandbits(k) ∈ [0, 2**k)` for every `k ≥ 0`; negative `k` rejected, state untouched | `C17_getrandbits_range`, `C17_getrandbits_negative` |
| `randbytes(n)` has length `n` | `C17_randbytes_length` |
| `random() ∈ [0, 1)` (numerator `< 2**53`) | `C17_random_range` |
| `setstate(getstate())` at any point replays the continuation — every op sequence incl. `gauss` | `C17_replay` |
| generators seeded alike / re-seeding produce identical streams | `C17_same_seed` |
| streams are functions of the instance's own state only | `C17_deterministic` |
| the pinned `getstate`/`setstate` (without `gauss_next`) did not replay `gauss` | `C17_pinned_gauss_counterexample` |

Partial: NumPy's SeedSequence (seed → initial state) is an abstract function; CPython's derived
methods are exercised on the real object only.
-/
namespace Dyce.Rng
open List

theorem foldl_bytes_lt (bs : List Nat) (hb : ∀ b ∈ bs, b < 256) (acc : Nat) :
    bs.foldl (fun a b => a * 256 + b) acc < (acc + 1) * 256 ^ bs.length := by
  induction bs generalizing acc with
  | nil => simp
  | cons b bs ih =>
    rw [List.foldl_cons, List.length_cons]
    have hb0 : b < 256 := hb b (by simp)
    have := ih (fun x hx => hb x (by simp [hx])) (acc * 256 + b)
    calc bs.foldl (fun a b => a * 256 + b) (acc * 256 + b)
        < (acc * 256 + b + 1) * 256 ^ bs.length := this
      _ ≤ ((acc + 1) * 256) * 256 ^ bs.length := by
          apply Nat.mul_le_mul_right; nlinarith
      _ = (acc + 1) * 256 ^ (bs.length + 1) := by ring

theorem fromBytesBig_lt (bs : List Nat) (hb : ∀ b ∈ bs, b < 256) : fromBytesBig bs < 256 ^ bs.length := by
  have := foldl_bytes_lt bs hb 0
  simpa [fromBytesBig] using this

theorem le4_lt (x : Nat) : ∀ b ∈ le4 x, b < 256 := by
  intro b hb
  simp only [le4, List.mem_cons, List.mem_nil_iff, or_false] at hb
  rcases hb with rfl | rfl | rfl | rfl <;> exact Nat.mod_lt _ (by norm_num)

theorem draw32s_length (k : Nat) (g : Pcg) : (draw32s k g).1.length = k := by
  induction k generalizing g with
  | zero => rfl
  | succ k ih => simp only [draw32s, List.length_cons, ih]

theorem flatMap_le4_length (ws : List Nat) : (ws.flatMap le4).length = 4 * ws.length := by
  induction ws with
  | nil => rfl
  | cons w ws ih => simp only [List.flatMap_cons, List.length_append, ih, le4, List.length_cons, List.length_nil]; omega

theorem randbytes_bytes (g : Pcg) (n : Nat) : ∀ b ∈ (randbytes g n).1, b < 256 := by
  intro b hb
  unfold randbytes at hb
  have := List.mem_of_mem_take hb
  obtain ⟨w, _, hw⟩ := List.mem_flatMap.mp this
  exact le4_lt w b hw

theorem C17_randbytes_length (g : Pcg) (n : Nat) : (randbytes g n).1.length = n := by
  unfold randbytes
  simp only [List.length_take, flatMap_le4_length, draw32s_length]
  split <;> omega

theorem M64_pos : 0 < M64 := by unfold M64; exact Nat.pow_pos (by norm_num)

theorem next64_lt (g : Pcg) : (next64 g).1 < M64 := by
  unfold next64
  exact Nat.mod_lt _ M64_pos

theorem C17_random_range (g : Pcg) : (random53 g).1 < 2 ^ 53 := by
  have h := next64_lt g
  have : (random53 g).1 = (next64 g).1 / 2 ^ 11 := rfl
  rw [this, Nat.div_lt_iff_lt_mul (by norm_num)]
  have hM : M64 = 2 ^ 53 * 2 ^ 11 := by unfold M64; norm_num
  omega

theorem C17_getrandbits_negative (g : Pcg) (k : Int) (hk : k < 0) :
    getrandbits g k = (.error .valueError, g) := by
  unfold getrandbits; rw [if_pos hk]

theorem C17_getrandbits_range (g : Pcg) (k : Int) (hk : 0 ≤ k) :
    ∃ x g', getrandbits g k = (.ok x, g') ∧ x < 2 ^ k.toNat := by
  unfold getrandbits
  rw [if_neg (by omega)]
  refine ⟨_, _, rfl, ?_⟩
  set nb := (k.toNat + 7) / 8 with hnb
  have hlen := C17_randbytes_length g nb
  have hlt := fromBytesBig_lt (randbytes g nb).1 (randbytes_bytes g nb)
  rw [hlen] at hlt
  rw [Nat.shiftRight_eq_div_pow, Nat.div_lt_iff_lt_mul (Nat.pow_pos (by norm_num))]
  have h8 : k.toNat ≤ nb * 8 := by omega
  calc fromBytesBig (randbytes g nb).1 < 256 ^ nb := hlt
    _ = 2 ^ (nb * 8) := by rw [show (256 : Nat) = 2 ^ 8 by norm_num, ← pow_mul, Nat.mul_comm]
    _ = 2 ^ k.toNat * 2 ^ (nb * 8 - k.toNat) := by rw [← pow_add]; congr 1; omega

/-- **replay**: restoring a snapshot taken at any point reproduces exactly the continuation that
followed it — for every sequence of operations, `gauss` included, whatever happened in between -/
theorem C17_replay (w other : Wrapper) (ops : List Op) :
    (other.setstate w.getstate).run ops = w.run ops := by
  cases w; rfl

/-- two instances seeded alike, or one instance re-seeded with the same value, produce the same
stream -/
theorem C17_same_seed (seedFn : Nat → Pcg) (w₁ w₂ : Wrapper) (a : Nat) (ops : List Op) :
    ((w₁.seed seedFn a).run ops).1 = ((w₂.seed seedFn a).run ops).1 := rfl

theorem C17_deterministic (w₁ w₂ : Wrapper) (h : w₁ = w₂) (ops : List Op) : w₁.run ops = w₂.run ops := by
  rw [h]

/-- **the pinned snapshot did not replay `gauss`** (defect F8): after one `gauss()` the cached variate
is part of what follows, but the pinned `getstate`/`setstate` neither saved nor restored it -/
theorem C17_pinned_gauss_counterexample :
    ∃ (w : Wrapper),
      let w1 := (w.step .gauss).2
      let snap := w1.getstatePinned
      let cont := (w1.run [.gauss]).1
      let w2 := (w1.run [.gauss]).2
      ((w2.setstatePinned snap).run [.gauss]).1 ≠ cont := by
  refine ⟨⟨⟨1, 1, false, 0⟩, none⟩, ?_⟩
  decide

end Dyce.Rng
