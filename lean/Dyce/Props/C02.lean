import Dyce.PoolMain
import Dyce.Push
import Mathlib.Tactic.Ring
/-!
# C02 — Pool roll enumeration equals brute-force enumeration for every selection

> For any pool and any selection of positions (integers, negative indexes, slices with any step,
> repeats, in any order), the (roll, count) pairs yielded by P.rolls_with_counts, aggregated per
> roll, are exactly those obtained by enumerating the Cartesian product of the dice, sorting each
> result ascending and picking the selected positions in the order given. Counts are exact integers
> that sum to the pool's total for every non-empty selection, an empty selection yields nothing,
> and an out-of-range index raises IndexError. Which enumeration strategy the library picks never
> changes the answer.

| clause | theorem |
|---|---|
| no arguments = whole sorted rolls | `C02_noargs` |
| any selection: IndexError exactly when indexing `range(n)` raises; otherwise brute force | `C02_selection` |
| counts sum to the product of the dice totals | `C02_counts_sum_noargs`, `C02_counts_sum_selection` |
| empty selection / empty pool yield nothing | inside `C02_selection` (`if idxs = [] ∨ dice = [] then 0`) |
| strategy never matters | the two theorems are stated about `rollsWithCounts`, whose dispatcher picks the strategy |

`DiceOK le dice` is the invariant `P.__init__` establishes: every die has strictly ascending
outcomes and a positive total.  `le` is any Boolean total order on the outcome type.
-/
namespace Dyce
open List

variable {α : Type} [DecidableEq α] {le : α → α → Bool}

/-- `p.rolls_with_counts()` -/
theorem C02_noargs (hle : TotalOrderB le) (dice : List (Hist α)) (hd : DiceOK le dice) :
    ∃ L, rollsWithCounts le dice [] = .ok L ∧
      ∀ r, countOf r L =
        if dice = [] then 0 else specRWC le dice (List.range dice.length) r :=
  rollsWithCounts_nosel hle dice hd

/-- `p.rolls_with_counts(*which)` for a non-empty `which` -/
theorem C02_selection (hle : TotalOrderB le) (dice : List (Hist α)) (hd : DiceOK le dice)
    (s : Sel) (ss : List Sel) :
    (∀ e, resolve dice.length (s :: ss) = .error e →
        rollsWithCounts le dice (s :: ss) = .error e) ∧
    (∀ idxs, resolve dice.length (s :: ss) = .ok idxs →
      ∃ L, rollsWithCounts le dice (s :: ss) = .ok L ∧
        ∀ r, countOf r L =
          if idxs = [] ∨ dice = [] then 0 else specRWC le dice idxs r) :=
  rollsWithCounts_sel hle dice hd s ss

theorem wsum_const {β} (l : List (β × Nat)) (c : Nat) :
    wsum l (fun _ => c) = (l.map Prod.snd).sum * c := by
  induction l with
  | nil => simp [wsum]
  | cons e l ih => simp only [wsum_cons, ih, List.map_cons, List.sum_cons]; ring

/-- the Cartesian product has total weight `Π totals` (`P.total`) -/
theorem wsum_poolTuples_one (dice : List (Hist α)) :
    wsum (poolTuples dice) (fun _ => 1) = (dice.map total).prod := by
  induction dice with
  | nil => simp [poolTuples, wsum]
  | cons h ds ih =>
    rw [wsum_poolTuples_cons]
    simp only [ih, List.map_cons, List.prod_cons]
    rw [wsum_const]; rfl

/-- total weight of what the specification enumerates -/
theorem sum_counts_of_spec (dice : List (Hist α)) (idxs : List Nat) (L : List (List (Option α) × Nat))
    (hL : ∀ r, countOf r L = specRWC le dice idxs r) :
    (L.map Prod.snd).sum = (dice.map total).prod := by
  have h := wsum_pushforward (poolTuples dice)
    (fun t => takeIdxs ((sortBy le t).map some) idxs) L (by intro r; rw [hL r]; rfl) (fun _ => 1)
  rw [wsum_poolTuples_one, wsum_const] at h
  simpa using h.symm

/-- counts of `p.rolls_with_counts()` sum to `p.total` (non-empty pool) -/
theorem C02_counts_sum_noargs (hle : TotalOrderB le) (dice : List (Hist α)) (hd : DiceOK le dice)
    (hne : dice ≠ []) :
    ∃ L, rollsWithCounts le dice [] = .ok L ∧ (L.map Prod.snd).sum = (dice.map total).prod := by
  obtain ⟨L, h1, h2⟩ := C02_noargs hle dice hd
  refine ⟨L, h1, sum_counts_of_spec (le := le) dice (List.range dice.length) L ?_⟩
  intro r; rw [h2 r, if_neg hne]

/-- counts of `p.rolls_with_counts(*which)` sum to `p.total` for every non-empty selection -/
theorem C02_counts_sum_selection (hle : TotalOrderB le) (dice : List (Hist α)) (hd : DiceOK le dice)
    (s : Sel) (ss : List Sel) (idxs : List Nat) (hres : resolve dice.length (s :: ss) = .ok idxs)
    (hi : idxs ≠ []) (hne : dice ≠ []) :
    ∃ L, rollsWithCounts le dice (s :: ss) = .ok L ∧ (L.map Prod.snd).sum = (dice.map total).prod := by
  obtain ⟨L, h1, h2⟩ := (C02_selection hle dice hd s ss).2 idxs hres
  refine ⟨L, h1, sum_counts_of_spec (le := le) dice idxs L ?_⟩
  intro r; rw [h2 r, if_neg (by intro h; rcases h with h | h; exact hi h; exact hne h)]

/-! ### non-vacuity: a concrete heterogeneous pool with zero-count faces meets the hypotheses -/

def exLe (a b : Int) : Bool := decide (a ≤ b)

theorem exLe_total : TotalOrderB exLe where
  refl a := by simp [exLe]
  trans a b c := by simp only [exLe, decide_eq_true_eq]; omega
  total a b := by simp only [exLe, Bool.or_eq_true, decide_eq_true_eq]; omega
  antisymm a b := by simp only [exLe, decide_eq_true_eq]; omega

example : DiceOK exLe [[(1, 1), (2, 0), (3, 2)], [(1, 2), (3, 4)]] := by
  intro h hh
  simp only [List.mem_cons, List.not_mem_nil, or_false] at hh
  rcases hh with rfl | rfl <;> decide

example : (rollsWithCounts exLe [[(1, 1), (2, 0), (3, 2)], [(1, 2), (3, 4)]] [Sel.idx (-1)]).toOption.map
    (fun L => (L.map Prod.snd).sum) = some 18 := by decide

end Dyce
