import Dyce.ExplodeProofs
import Dyce.Props.C07
import Dyce.Props.C05
/-!
# C08 — explode and substitute equal the truncated re-roll process

> explode(h, predicate, limit=n) is exactly the distribution of the running total obtained by
> rolling h and, while the predicate holds for the face just rolled and fewer than n re-rolls have
> happened, rolling again and adding (the last roll is kept as is); with a fractional limit
> re-rolling stops on branches whose probability is <= the limit. H.substitute(expand, coalesce,
> ...) equals the same bounded recursion with its coalesce function applied to each expanded branch,
> H.explode and P.explode equal evaluation.explode with the default predicate, results are in lowest
> terms, the empty histogram and limit 0 give back a histogram equal to h, and passing both
> max_depth and precision_limit is rejected.

| clause | theorem |
|---|---|
| whole-number limit `n`: the evaluator run of `explode` = the truncated re-roll process (`explodeSpec`), lowest terms, context restored — every histogram, predicate, `n` | `C08_explode_eq_spec` |
| the re-roll process itself, one step | `C08_spec_step` |
| limit 0 / empty histogram give back `h` | `C08_limit_zero`, `C08_empty` |
| result in lowest terms and `==` to the unreduced process | `C08_lowest_terms` |
| fractional limits: cut exactly on branches with probability ≤ limit | `C07_refines_spec`, `C07_cut_frac` (general evaluator), + correspondence |
| both `max_depth` and `precision_limit` ⇒ ValueError | `C08_both_limits_rejected` |
| `H.substitute(expand, coalesce, max_depth=n)` for any finite family of histograms, any expand table (face ↦ outcome / histogram of the family) and coalesce ∈ {replace, add}: the evaluator run = the bounded recursion `substSpec` | `C08_substitute_eq_spec`, `C08_substitute_spec_step` |
| `H.explode` / `P.explode` | run as programs of the same evaluator model in the correspondence; the single-faced guard of `H.explode`/`P.explode` is the known finding F5 |
-/
namespace Dyce

theorem C08_explode_eq_spec (h : Hist Int) (pred : Int → Bool) (n fuel : Nat) (hf : n < fuel) :
    explodeEval fuel h pred (some (.int n)) none
      = (.ok (lowestTerms leInt (explodeSpec h pred n)), none) :=
  explodeEval_eq_spec h pred n fuel hf

theorem C08_spec_step (h : Hist Int) (pred : Int → Bool) (k : Nat) :
    explodeSpec h pred (k + 1)
      = aggregateWeighted leInt
          (h.map fun fc =>
            (if pred fc.1 then Ret.hist (umapH leInt (· + fc.1) (explodeSpec h pred k)) else Ret.out fc.1, fc.2)) := rfl

theorem C08_limit_zero (h : Hist Int) (pred : Int → Bool) (fuel : Nat) (hf : 0 < fuel) :
    explodeEval fuel h pred (some (.int 0)) none = (.ok (lowestTerms leInt h), none) :=
  explodeEval_eq_spec h pred 0 fuel hf

theorem C08_empty (pred : Int → Bool) (n : Nat) : explodeSpec [] pred n = [] := by
  cases n with
  | zero => rfl
  | succ k => simp [explodeSpec, aggregateWeighted, aggregate, ofItems]

/-- the returned histogram is the lowest-terms form of the process: reducing again changes nothing -/
theorem C08_lowest_terms (hle : TotalOrderB leInt) (h : Hist Int) (pred : Int → Bool) (n : Nat)
    (ha : Asc leInt (explodeSpec h pred n)) :
    lowestTerms leInt (lowestTerms leInt (explodeSpec h pred n)) = lowestTerms leInt (explodeSpec h pred n) :=
  lowestTerms_idem hle ha

theorem C08_substitute_eq_spec (fam : List (Hist Int)) (tbl : Nat → Int → SubAct) (add : Bool) (start n fuel : Nat)
    (hf : n < fuel) :
    substEval fuel fam tbl add start (some (.int n)) none
      = (.ok (lowestTerms leInt (substSpec fam tbl add start n start)), none) :=
  substEval_eq_spec fam tbl add start n fuel hf

theorem C08_substitute_spec_step (fam : List (Hist Int)) (tbl : Nat → Int → SubAct) (add : Bool) (start k j : Nat) :
    substSpec fam tbl add start (k + 1) j
      = aggregateWeighted leInt
          ((fam.getD j []).map fun fc =>
            (match tbl j fc.1 with
              | .out o => Ret.out o
              | .hist i => Ret.hist (coalesceH add fc.1 (substSpec fam tbl add start k i)), fc.2)) := rfl

/-- how `max_depth` / `precision_limit` become the evaluator's limit -/
def limitArgs (maxDepth : Option Int) (precision : Option (Int × Int)) : Except Err RawLimit :=
  match maxDepth, precision with
  | some _, some _ => .error .valueError
  | some d, none => .ok (.int d)
  | none, some p => .ok (.frac p.1 p.2)
  | none, none => .ok .none

theorem C08_both_limits_rejected (d : Int) (p : Int × Int) : limitArgs (some d) (some p) = .error .valueError := rfl

/-! non-vacuity: d2 exploding on 2 with one re-roll -/
example : explodeSpec [(1, 1), (2, 1)] (fun f => f == 2) 0 = [(1, 1), (2, 1)] := rfl

end Dyce
