import Dyce.EvalProofs
import Dyce.EvalRefine
import Dyce.Props.C07
/-!
# C14 — Evaluation limits and context never leak across calls, even after errors

> Whatever earlier @expandable/foreach/explode/substitute evaluations did - completed, were nested
> inside one another, or were aborted by an exception raised from a callback at any invocation
> point - that exception propagates to the caller unchanged (only RecursionError is converted into
> the sentinel, as documented), and every later top-level evaluation behaves exactly as in a fresh
> interpreter: it starts at depth 0 with full precision, applies its own or the default limit, and
> returns a lowest-terms histogram.

The monad of the model is `σ → Except Err β × σ`: the state (the context variable) *survives* an
exception, as a `ContextVar` does, so restoration after an error is a theorem about the explicit
`finally`-combinator `guarded`, not an artefact of the monad.

| clause | theorem |
|---|---|
| after any evaluation — returned, cut, or aborted by an exception at any callback invocation at any depth — the context variable holds what it held before | `C14_context_restored` |
| any history of top-level evaluations: every one yields its fresh-interpreter answer, and the cell ends unset | `C14_history_fresh` |
| a callback's exception other than RecursionError propagates unchanged | `C14_error_propagates` |
| RecursionError becomes the sentinel of the function whose callback raised it | `C14_recursion_error_to_sentinel` |
| fresh interpreter = depth 0, precision 1, own or default limit, lowest terms | `C14_fresh_context` (+ `C07_cut_rule`) |
-/
namespace Dyce

variable {α ρ : Type}

theorem C14_context_restored (env : Nat → Fn α ρ) (agg : List (Ret α × Nat) → Hist α)
    (lowest : Hist α → Hist α) (fuel fn : Nat) (srcs : List (Src ρ)) (lim : Option Limit) (c : Cell) :
    (evalFn env agg lowest fuel fn srcs lim c).2 = c :=
  evalFn_state env agg lowest fuel fn srcs lim c

/-- run a history of computations in one interpreter, threading the context variable -/
def runHistory {κ β : Type} (ev : κ → M Cell β) : List κ → Cell → List (Except Err β) × Cell
  | [], c => ([], c)
  | k :: ks, c =>
    let (r, c') := ev k c
    let (rs, c'') := runHistory ev ks c'
    (r :: rs, c'')

/-- **any history**: if every evaluation restores the cell, then in every history each evaluation
returns exactly what it returns when run alone from the initial cell, and the cell ends as it
started -/
theorem history_fresh {κ β : Type} (ev : κ → M Cell β) (hev : ∀ k c, (ev k c).2 = c) (ks : List κ) (c : Cell) :
    runHistory ev ks c = (ks.map fun k => (ev k c).1, c) := by
  induction ks with
  | nil => rfl
  | cons k ks ih =>
    unfold runHistory
    have h := hev k c
    rcases hk : ev k c with ⟨r, c'⟩
    rw [hk] at h
    simp only at h
    subst h
    simp only [ih, List.map_cons, hk]

theorem C14_history_fresh (env : Nat → Fn α ρ) (agg : List (Ret α × Nat) → Hist α) (lowest : Hist α → Hist α)
    (fuel : Nat) (calls : List (Nat × List (Src ρ) × Option Limit)) :
    runHistory (fun call => evalFn env agg lowest fuel call.1 call.2.1 call.2.2) calls none
      = (calls.map fun call => (evalFn env agg lowest fuel call.1 call.2.1 call.2.2 none).1, none) :=
  history_fresh _ (fun k c => evalFn_state env agg lowest fuel k.1 k.2.1 k.2.2 c) calls none

/-- the context a fresh interpreter starts from: no inherited limit, depth 0, precision 1/1 -/
theorem C14_fresh_context : (none : Cell).getD ⟨none, 0, 1, 1⟩ = ⟨none, 0, 1, 1⟩ := rfl

theorem fold_error_sticky (sv : Nat → List (Src ρ) → Option Limit → Ctx → Except Err (Hist α)) (f : Fn α ρ)
    (mk : Nat → Ctx) (e : Err) (bs : List (List ρ × Nat)) :
    bs.foldl (specBranch sv f mk) (.error e) = .error e := by
  induction bs with
  | nil => rfl
  | cons b bs ih => rw [List.foldl_cons]; simpa [specBranch] using ih

/-- **errors propagate unchanged**: if the callback raises `e ≠ RecursionError` on some branch (all
earlier branches having completed), the evaluation raises exactly `e` -/
theorem C14_error_propagates (env : Nat → Fn α ρ) (agg : List (Ret α × Nat) → Hist α) (lowest : Hist α → Hist α)
    (fuel fn : Nat) (srcs : List (Src ρ)) (lim : Option Limit) (cur : Ctx)
    (pre post : List (List ρ × Nat)) (bw : List ρ × Nat) (sofar : List (Ret α × Nat)) (e : Err)
    (hne : e ≠ .recursionError)
    (hcut : cutNow ((lim.orElse fun _ => cur.limit).getD (.int 1)) cur = false)
    (hbr : branches srcs = pre ++ bw :: post)
    (hpre : pre.foldl (specBranch (specEval env agg lowest fuel) (env fn)
        (fun cc => ⟨some ((lim.orElse fun _ => cur.limit).getD (.int 1)), cur.depth + 1, cur.precNum * cc,
          cur.precDen * srcTotal srcs⟩)) (.ok []) = .ok sofar)
    (herr : specProg (specEval env agg lowest fuel)
        ⟨some ((lim.orElse fun _ => cur.limit).getD (.int 1)), cur.depth + 1, cur.precNum * bw.2,
          cur.precDen * srcTotal srcs⟩ ((env fn).body bw.1) = .error e) :
    specEval env agg lowest (fuel + 1) fn srcs lim cur = .error e := by
  rw [C07_cut_rule]
  simp only [hcut, Bool.false_eq_true, if_false, hbr, List.foldl_append, List.foldl_cons, hpre]
  have : specBranch (specEval env agg lowest fuel) (env fn)
      (fun cc => ⟨some ((lim.orElse fun _ => cur.limit).getD (.int 1)), cur.depth + 1, cur.precNum * cc,
        cur.precDen * srcTotal srcs⟩) (.ok sofar) bw = .error e := by
    cases e <;> simp_all [specBranch]
  rw [this, fold_error_sticky]

/-- **RecursionError → sentinel**: the branch contributes the sentinel of the function whose
callback raised it, and the evaluation goes on -/
theorem C14_recursion_error_to_sentinel (sv : Nat → List (Src ρ) → Option Limit → Ctx → Except Err (Hist α))
    (f : Fn α ρ) (mk : Nat → Ctx) (sofar : List (Ret α × Nat)) (bw : List ρ × Nat)
    (h : specProg sv (mk bw.2) (f.body bw.1) = .error .recursionError) :
    specBranch sv f mk (.ok sofar) bw = .ok (sofar ++ [(.hist f.sentinel, bw.2)]) := by
  simp [specBranch, h]

end Dyce
