import Dyce.GuardModel
import Mathlib.Tactic.Common
/-!
# C19 — Invalid arguments are rejected, never turned into a wrong histogram

> Negative counts, non-integral counts, negative or non-integral repetition counts, parity tests on
> non-integral outcomes, out-of-range or non-index selection positions, inverted within() bounds,
> simultaneous max_depth and precision_limit, illegal recursion limits, and None-valued roll outcomes
> without sources raise the documented exception (ValueError, TypeError or IndexError; the
> type-checker's violation error when runtime type-checking is on) instead of returning a result. A
> rejected call leaves every existing object unchanged and usable, and integral values supplied in
> another numeric type (2.0, Fraction(2), numpy integers, True) are accepted and treated as the
> integer they equal.

Each guard is decision logic over `PyArg` (int, bool, numpy integer, finite float, nan, ±inf,
Fraction, str, None).  With runtime type-checking on, beartype may reject arguments of a wrong CLASS
before these guards run (the correspondence accepts either rejection there).

| clause | theorem |
|---|---|
| `as_int` accepts exactly the arguments whose value is an integer, and returns that integer | `C19_asInt_iff` |
| counts: negative ⇒ ValueError, non-integral ⇒ TypeError, integral in any numeric type accepted | `C19_count` |
| repetition counts likewise | `C19_repeat` |
| parity on non-integral outcomes ⇒ TypeError | `C19_parity` |
| positions: genuine integer types only (else TypeError), in range (else IndexError) | `C19_position` |
| inverted `within` bounds / both limits / `RollOutcome(None)` without sources ⇒ ValueError | `C19_within`, `C19_both_limits`, `C19_roll_outcome` |
| recursion limits: exactly the documented set is accepted; integral types are whole-number limits, Fractions / floats fractional | `C19_limit_int`, `C19_limit_fractional`, `C19_limit_nonfinite` |
| a rejected call changes nothing | C15 (`pureOrFail` steps of `C15_frame_history`) + snapshots in the correspondence |
-/
namespace Dyce.Guard

/-- `as_int` succeeds with `n` exactly when the argument has a value and that value is the integer `n` -/
theorem C19_asInt_iff (a : PyArg) (n : Int) : asInt a = .ok n ↔ valueOf a = some (n, 1) := by
  cases a <;> simp [asInt, valueOf]
  · rename_i num den
    constructor
    · intro h; split at h <;> simp_all
    · intro ⟨h1, h2⟩; simp [h1, h2]
  · rename_i num den
    constructor
    · intro h; split at h <;> simp_all
    · intro ⟨h1, h2⟩; simp [h1, h2]

theorem C19_count (a : PyArg) :
    (∀ n, asInt a = .ok n → n < 0 → countGuard a = .error .valueError) ∧
    (∀ n, asInt a = .ok n → 0 ≤ n → countGuard a = .ok n.toNat) ∧
    (∀ e, asInt a = .error e → countGuard a = .error .typeError) := by
  refine ⟨?_, ?_, ?_⟩
  · intro n h hn; simp [countGuard, h, hn]
  · intro n h hn; have : ¬ n < 0 := by omega
    simp [countGuard, h, this]
  · intro e h
    have he : e = .typeError := by
      cases a <;> simp [asInt] at h <;> first | exact h.symm | (split at h <;> simp_all)
    simp [countGuard, h, he]

theorem C19_repeat (a : PyArg) :
    (∀ n, asInt a = .ok n → n < 0 → repeatGuard a = .error .valueError) ∧
    (∀ n, asInt a = .ok n → 0 ≤ n → repeatGuard a = .ok n.toNat) ∧
    (∀ e, asInt a = .error e → repeatGuard a = .error .typeError) := by
  refine ⟨?_, ?_, ?_⟩
  · intro n h hn; simp [repeatGuard, h, hn]
  · intro n h hn; have : ¬ n < 0 := by omega
    simp [repeatGuard, h, this]
  · intro e h; simp [repeatGuard, h]

theorem C19_parity (a : PyArg) :
    (∀ n, asInt a = .ok n → parityGuard a = .ok (n % 2 = 0)) ∧
    (∀ e, asInt a = .error e → ∃ e', parityGuard a = .error e') := by
  constructor
  · intro n h; simp [parityGuard, h]
  · intro e h; exact ⟨e, by simp [parityGuard, h]⟩

theorem C19_position (n : Nat) (a : PyArg) :
    (∀ e, asIndex a = .error e → positionGuard n a = .error .typeError) ∧
    (∀ i, asIndex a = .ok i → (-(n : Int) ≤ i ∧ i < n) → ∃ j, positionGuard n a = .ok j ∧ j < n) ∧
    (∀ i, asIndex a = .ok i → ¬ (-(n : Int) ≤ i ∧ i < n) → positionGuard n a = .error .indexError) := by
  refine ⟨?_, ?_, ?_⟩
  · intro e h
    have he : e = .typeError := by cases a <;> simp [asIndex] at h <;> exact h.symm
    simp [positionGuard, h, he]
  · intro i h hr
    simp only [positionGuard, h]
    by_cases hi : i < 0
    · have : 0 ≤ i + n ∧ i + (n : Int) < n := by omega
      simp only [hi, if_true, this, and_self]
      exact ⟨(i + n).toNat, rfl, by omega⟩
    · have : 0 ≤ i ∧ i < (n : Int) := by omega
      simp only [hi, if_false, this, and_self, if_true]
      exact ⟨i.toNat, rfl, by omega⟩
  · intro i h hr
    simp only [positionGuard, h]
    by_cases hi : i < 0
    · have : ¬ (0 ≤ i + n ∧ i + (n : Int) < n) := by omega
      simp [hi, this]
    · have : ¬ (0 ≤ i ∧ i < (n : Int)) := by omega
      simp [hi, this]

/-- floats and Fractions are never positions, whatever their value -/
theorem C19_position_float (n : Nat) (num : Int) (den : Nat) :
    positionGuard n (.float num den) = .error .typeError ∧ positionGuard n (.frac num den) = .error .typeError := by
  simp [positionGuard, asIndex]

theorem C19_within (lo hi : Int) : (lo > hi → withinGuard lo hi = .error .valueError) ∧ (lo ≤ hi → withinGuard lo hi = .ok ()) := by
  constructor <;> intro h <;> simp [withinGuard, h]

theorem C19_both_limits : bothLimitsGuard true true = .error .valueError ∧ bothLimitsGuard true false = .ok () ∧
    bothLimitsGuard false true = .ok () ∧ bothLimitsGuard false false = .ok () := by decide

theorem C19_roll_outcome (n : Nat) :
    rollOutcomeGuard true 0 = .error .valueError ∧ rollOutcomeGuard true (n + 1) = .ok () ∧ rollOutcomeGuard false n = .ok () := by
  simp [rollOutcomeGuard]

theorem C19_limit_int (v : Int) :
    (v = -1 → limitGuard (.int v) = .ok (some (.int maxsize))) ∧
    (v < -1 → limitGuard (.int v) = .error .valueError) ∧
    (0 ≤ v → limitGuard (.int v) = .ok (some (.int v.toNat))) := by
  refine ⟨?_, ?_, ?_⟩ <;> intro h <;> simp only [limitGuard, normalizeLimit]
  · simp [h, Except.mapError]
  · have h1 : v ≠ -1 := by omega
    have h2 : v < 0 := by omega
    simp [h1, h2, Except.mapError]
  · have h1 : v ≠ -1 := by omega
    have h2 : ¬ v < 0 := by omega
    simp [h1, h2, Except.mapError]

/-- a Fraction or a float is a fractional limit: accepted exactly in the open interval (0, 1) —
so `2.0` or `Fraction(2)` are rejected although they "equal an integer" (the type selects the meaning) -/
theorem C19_limit_fractional (p : Int) (q : Nat) :
    ((p ≤ 0 ∨ p ≥ q) → limitGuard (.frac p q) = .error .valueError ∧ limitGuard (.float p q) = .error .valueError) ∧
    ((0 < p ∧ p < q) → limitGuard (.frac p q) = .ok (some (.frac p.toNat q)) ∧
        limitGuard (.float p q) = .ok (some (.frac p.toNat q))) := by
  constructor <;> intro h <;> simp only [limitGuard, normalizeLimit]
  · simp [h, Except.mapError]
  · have : ¬ (p ≤ 0 ∨ p ≥ (q : Int)) := by omega
    simp [this, Except.mapError]

theorem C19_limit_nonfinite :
    limitGuard .nan = .error .valueError ∧ limitGuard .posInf = .error .valueError ∧
    limitGuard .negInf = .error .valueError ∧ limitGuard .str = .error .typeError := by
  simp [limitGuard]

end Dyce.Guard
