import Dyce.RollerProofs
import Dyce.RollProofs
/-!
# C11 — Roller trees produce exactly the distribution their expression denotes

> For any roller tree built from value, pool, repeat, arithmetic/comparison, selection, filter and
> substitution rollers, the exact distribution (over all random choices) of the tuple of outcomes
> of r.roll() equals the one obtained by evaluating the same expression by enumeration with
> histograms and pools. Leaves draw afresh and independently at every place they occur, binary and
> unary nodes apply their operator to the sums of their sources' outcomes, selection indexes the
> ascending-sorted pooled outcomes in the order requested, filters keep the satisfying outcomes in
> order, dropped outcomes never contribute, and substitution re-rolls at most max_depth times,
> replacing or appending as configured.

`rollW` mirrors each `roll()` method (records and all) in the weighted-list monad; `den` is the
compositional, record-free denotation that is literally the sentences above.

| clause | theorem |
|---|---|
| for every tree, path by path, the outcome tuple of the record semantics is the denotation — also for substitution (re-roll a roller, REPLACE / APPEND, any max_depth; or relabel with a fresh outcome) | `C11_values_fusion` (+ `C11_values_fusion_pinned` for the pinned constructor) |
| leaves: weighted choice among positive-count faces | `C11_leaf` (C10) |
| pool / repeat: independent concatenation, `n` fresh repetitions | `C11_pool`, `C11_repeat` |
| binary / unary: operator on the SUMS of the sources' outcomes | `C11_binary`, `C11_unary` |
| selection: positions of the ascending-sorted pooled outcomes, in the order requested | `C11_selection` |
| filter: satisfying outcomes in order | `C11_filter` |
| substitution: at most `max_depth` nested re-rolls, replaced or appended | `C11_substitution`, `C11_substitution_depth_zero` |
| pool leaves = `P.roll` = `rolls_with_counts` distribution | `C10_proll_matches_rolls_with_counts` |
-/
namespace Dyce
open List

theorem C11_values_fusion (r : RTree) : mapW RollRec.values (rollW mkRollDeep r) = den r :=
  values_rollW mkRollDeep keepsValues_deep r

theorem C11_values_fusion_pinned (r : RTree) : mapW RollRec.values (rollW mkRollTop r) = den r :=
  values_rollW mkRollTop keepsValues_top r

theorem C11_leaf (h : Hist Int) : den (.value (.hist h)) = (do let v ← rollHist h; pure [v]) := by
  rw [den]

theorem C11_pool (s : RTree) (ss : List RTree) :
    den (.pool (s :: ss)) = (do let a ← den s; let b ← den (.pool ss); pure (a ++ b)) := by
  rw [den, denAll, den]

theorem C11_repeat (n : Nat) (src : RTree) :
    den (.rep n src) = (do let rs ← replicateW n (den src); pure rs.flatten) := by
  rw [den]

theorem C11_binary (op : Int → Int → Int) (l r : RTree) :
    den (.bin op l r) = (do let a ← den l; let b ← den r; pure [op a.sum b.sum]) := by
  rw [den]

theorem C11_unary (op : Int → Int) (s : RTree) :
    den (.un op s) = (do let a ← den s; pure [op a.sum]) := by
  rw [den]

/-- a custom operator that combines RollOutcome operations in several steps applies their composition
to the sum of the source's outcomes -/
theorem C11_custom_chain (ops : List (Int → Int)) (s : RTree) :
    den (.unChain ops s) = (do let a ← den s; pure [ops.foldl (fun v f => f v) a.sum]) := by
  rw [den]

theorem C11_filter (p : Int → Bool) (srcs : List RTree) :
    den (.filt p srcs) = (do let vs ← den (.pool srcs); pure (vs.filter p)) := by
  rw [den, den]

theorem C11_selection (which : List Sel) (srcs : List RTree) :
    den (.sel which srcs) = (do
      let vs ← den (.pool srcs)
      let sorted := sortI vs
      match resolve sorted.length which with
      | .error _ => pure []
      | .ok idxs => pure (idxs.filterMap fun j => sorted[j]?)) := by
  rw [den, den]; rfl

theorem C11_substitution (p : Int → Bool) (e : RTree) (replace : Bool) (maxDepth : Nat) (src : RTree) :
    den (.subst p e replace maxDepth src) = (do let vs ← den src; denExpand p (den e) replace maxDepth vs) := by
  rw [den]

/-- with no depth left nothing is substituted -/
theorem C11_substitution_depth_zero (p : Int → Bool) (denE : W (List Int)) (replace : Bool) (vs : List Int) :
    denExpand p denE replace 0 vs = pure vs := by
  rw [denExpand]

/-- one level: an outcome satisfying the predicate is replaced by (or followed by) a fresh roll of the
expansion roller, itself expanded with one level less; any other outcome is kept -/
theorem C11_substitution_step (p : Int → Bool) (denE : W (List Int)) (replace : Bool) (k : Nat) (vs : List Int) :
    denExpand p denE replace (k + 1) vs
      = vs.foldl
          (fun acc v => do
            let outs ← acc
            if p v then do
              let ev ← denE
              let sub ← denExpand p denE replace k ev
              pure (outs ++ (if replace then [] else [v]) ++ sub)
            else pure (outs ++ [v]))
          (pure []) := by
  rw [denExpand]

/-- the sortedness used by selection is a genuine sort of the pooled outcomes -/
theorem C11_sortI_perm (l : List Int) : (sortI l).Perm l := by
  induction l with
  | nil => exact List.Perm.refl _
  | cons x l ih =>
    have hfold : sortI (x :: l) = insertI x (sortI l) := rfl
    rw [hfold]
    have hins : ∀ (y : Int) (m : List Int), (insertI y m).Perm (y :: m) := by
      intro y m
      induction m with
      | nil => exact List.Perm.refl _
      | cons z m ihm =>
        unfold insertI
        split
        · exact List.Perm.refl _
        · exact (List.Perm.cons z ihm).trans (List.Perm.swap y z m)
    exact (hins x (sortI l)).trans (List.Perm.cons x ih)

/-! non-vacuity -/
example : den (.bin (· + ·) (.rep 2 (.value (.hist [(1, 1), (2, 1)]))) (.value (.scalar 1)))
    = [([3], 1), ([4], 1), ([4], 1), ([5], 1)] := by decide

end Dyce
