import Dyce.Agg
import Dyce.EvalNonrec
import Dyce.HistProofs
/-!
# C06 — Dependent-term evaluation computes the exact weighted mixture

> foreach, or an @expandable function, called on independent sources returns in lowest terms
> exactly the mixture: the sum over the Cartesian product of source results of the product of their
> probabilities times the callback's returned outcome or normalised histogram, where a branch
> returning the empty histogram is dropped and the rest renormalised (a source without any positive
> count therefore gives the empty histogram). Pool sources present each ascending-sorted roll
> weighted by its exact count, each callback parameter receives the result of the source passed in
> that position or keyword together with that source, and aggregate_weighted and the deprecated
> H.foreach/P.foreach compute the same mixture.

| clause | theorem |
|---|---|
| evaluation = `aggregate_weighted` over the Cartesian product of the presented results (counts multiplied), lowest terms at top level, context untouched | `C06_evaluation_is_aggregate` |
| `aggregate_weighted`: every count is `S · Σ cntᵢ · Pᵢ(z)` with `S > 0` | `C06_aggregate_count` |
| total `S · Σ cntᵢ · keptᵢ` | `C06_aggregate_total` |
| probability of `z` = renormalised mixture, empty branches dropped | `C06_aggregate_mixture` |
| everything dropped ⇒ empty histogram | `C06_all_dropped` |
| what pool sources present | `C02_noargs`, `C02_selection` |
| parameter `j` receives the result of source `j` | by construction of `branches` (`C06_branches_positions`) + checked by identity in the harness |
-/
namespace Dyce
open List

variable {α ρ : Type}

theorem C06_evaluation_is_aggregate (env : Nat → Fn α ρ) (agg : List (Ret α × Nat) → Hist α)
    (lowest : Hist α → Hist α) (fuel fn : Nat) (srcs : List (Src ρ)) (lim : Option Limit) (c : Cell)
    (g : List ρ → Ret α) (hbody : ∀ ids, (env fn).body ids = .ret (g ids))
    (hcut : cutNow ((lim.orElse fun _ => (c.getD ⟨none, 0, 1, 1⟩).limit).getD (.int 1))
      (c.getD ⟨none, 0, 1, 1⟩) = false) :
    evalFn env agg lowest (fuel + 1) fn srcs lim c
      = (.ok ((if (c.getD ⟨none, 0, 1, 1⟩).depth = 0 then lowest else id)
          (agg ((branches srcs).map fun bw => (g bw.1, bw.2)))), c) :=
  evalFn_nonrec env agg lowest fuel fn srcs lim c g hbody hcut

/-- a fresh interpreter with the default limit is never cut at the top level -/
theorem C06_toplevel_not_cut : cutNow (((none : Option Limit).orElse fun _ => ((none : Cell).getD ⟨none, 0, 1, 1⟩).limit).getD (.int 1))
    ((none : Cell).getD ⟨none, 0, 1, 1⟩) = false := by decide

/-- every branch lists one result per source, in source order, with the product of the counts -/
theorem C06_branches_positions (s : Src ρ) (ss : List (Src ρ)) :
    branches (s :: ss) = s.results.flatMap fun rc => (branches ss).map fun bw => (rc.1 :: bw.1, rc.2 * bw.2) := rfl

variable [DecidableEq α]

theorem C06_aggregate_count (brs : List (Ret α × Nat)) (z : α) :
    0 < (aggregate brs).1 ∧
    (countOf z (aggregate brs).2 : ℚ)
      = (aggregate brs).1 * (brs.map fun b => (b.2 : ℚ) * brProb z b.1).sum :=
  aggregate_count brs z

theorem C06_aggregate_total (brs : List (Ret α × Nat)) :
    (total (aggregate brs).2 : ℚ)
      = (aggregate brs).1 * (brs.map fun b => (b.2 : ℚ) * brKept b.1).sum :=
  aggregate_total brs

theorem C06_aggregate_mixture (brs : List (Ret α × Nat)) (z : α)
    (hw : (brs.map fun b => (b.2 : ℚ) * brKept b.1).sum ≠ 0) :
    (countOf z (aggregate brs).2 : ℚ) / (total (aggregate brs).2 : ℚ)
      = (brs.map fun b => (b.2 : ℚ) * brProb z b.1).sum
          / (brs.map fun b => (b.2 : ℚ) * brKept b.1).sum :=
  aggregate_mixture brs z hw

theorem C06_all_dropped (brs : List (Ret α × Nat))
    (hall : ∀ b ∈ brs, ∃ h, b.1 = Ret.hist h ∧ total h = 0) : (aggregate brs).2 = [] :=
  aggregate_all_dropped brs hall

/-- the constructor applied to the accumulated pairs does not change any count -/
theorem C06_aggregateWeighted_count (le : α → α → Bool) (brs : List (Ret α × Nat)) (z : α) :
    countOf z (aggregateWeighted le brs) = countOf z (aggregate brs).2 := by
  unfold aggregateWeighted; exact countOf_ofItems le _ z

/-! non-vacuity -/
example : ((([(Ret.out (1 : Int), 2), (Ret.hist [(1, 1), (2, 3)], 1), (Ret.hist [], 5)] : List (Ret Int × Nat)).map
    fun b => (b.2 : ℚ) * brKept b.1).sum) ≠ 0 := by
  simp [brKept, total]; norm_num

end Dyce
