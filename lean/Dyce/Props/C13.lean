import Dyce.Memo
import Dyce.Model
/-!
# C13 — Results never depend on what was computed earlier (cache transparency)

> The result of any histogram or pool query (selection sums, roll enumeration, order statistics,
> appearances, equality, hashing, reduction) is determined by its receiver and arguments alone. In
> any sequence of queries over any mix of objects - including distinct objects that compare equal
> (scaled counts, zero-count padding, equal-valued outcomes of a different numeric type) - each
> answer is identical (same outcomes, of the same types, with the same positive counts) to the answer
> the same query gives in a fresh interpreter.

dyce memoizes (a) the partial-selection distributions in a process-wide `functools.cache`, and (b)
per instance: order-statistic functions by `n`, `lowest_terms`, `hash`, `total`.  `memoRun` is any such
memo: a table from keys to stored values, hit → stored value, miss → compute and store.

| clause | theorem |
|---|---|
| any memo whose key determines the observable of the computed value answers EVERY history of queries exactly like cold computations | `C13_memo_transparent` |
| a key that is the whole argument (what the repaired selection memo uses: the histogram's exact items with the outcomes' types, `n`, `k`, direction; and the per-instance caches, whose receiver is fixed) is always sound | `C13_exact_key_sound`, `C13_selection_memo_history` |
| the pinned key (histogram up to `==`: scale-, padding- and TYPE-blind) is not: same key, different observable | `C13_pinned_key_unsound` |
| the stateless model functions (`rollsWithCounts`, `poolH`, `orderStat`, `appearances`, `eqH`, `lowestTerms`) ARE the cold answers | C02, C03, C05, C09 theorems; correspondence warm vs cold vs model |
-/
namespace Dyce

variable {A κ ν O : Type} [DecidableEq κ]

theorem C13_memo_transparent (key : A → κ) (f : A → ν) (Obs : ν → O)
    (hkey : ∀ a b, key a = key b → Obs (f a) = Obs (f b)) (as : List A) :
    (memoRun key f [] as).2.map Obs = as.map (fun a => Obs (f a)) :=
  memo_transparent key f Obs hkey [] (memoInv_nil key f) as

/-- keying on everything the function reads is sound for every observation -/
theorem C13_exact_key_sound [DecidableEq A] (f : A → ν) (Obs : ν → O) (as : List A) :
    (memoRun (fun a => a) f [] as).2.map Obs = as.map (fun a => Obs (f a)) :=
  C13_memo_transparent (fun a => a) f Obs (fun a b h => by rw [h]) as

/-- the argument of the partial-selection memo after the repair: exact items (outcomes carry their
type tag), number of dice, number selected, direction -/
abbrev SelArg (α : Type) := Hist α × Nat × Nat × Bool

/-- the memoized computation: the probability-domain Karonen recursion from either end -/
def selMemoFn {α : Type} (a : SelArg α) : List (List α × Nat × Nat) :=
  if a.2.2.2 then selCoreR a.1.reverse a.2.1 a.2.2.1 else selCore a.1 a.2.1 a.2.2.1

/-- **any history of pool queries**: with the exact key every memoized answer, in every order of
queries over any mix of histograms, is the cold answer -/
theorem C13_selection_memo_history {α : Type} [DecidableEq α] (as : List (SelArg α)) :
    (memoRun (fun a => a) selMemoFn [] as).2 = as.map selMemoFn := by
  have := C13_exact_key_sound (A := SelArg α) selMemoFn (fun v => v) as
  simpa using this

/-- numeric type tags of outcomes -/
inductive NumTag where | int | float | fraction | bool
  deriving DecidableEq, Repr

/-- the pinned key: outcomes compared by value only (`1 == 1.0 == True`) -/
def pinnedKey (h : Hist (Int × NumTag)) : Hist Int := h.map fun oc => (oc.1.1, oc.2)

/-- **the pinned memo key was unsound** (defect F7): two histograms with the same key whose rolls
carry outcomes of different types -/
theorem C13_pinned_key_unsound :
    ∃ a b : Hist (Int × NumTag), pinnedKey a = pinnedKey b ∧
      (selCore a 1 1).map (·.1) ≠ (selCore b 1 1).map (·.1) := by
  refine ⟨[((1, .int), 1), ((2, .int), 1)], [((1, .float), 1), ((2, .float), 1)], by decide, by decide⟩

end Dyce
