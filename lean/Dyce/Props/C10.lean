import Dyce.RollProofs
import Dyce.RollState
import Dyce.Props.C02
/-!
# C10 — H.roll and P.roll sample exactly the encoded distribution

> Treating the random source as a fair chooser, h.roll() returns outcome o with probability exactly
> h[o]/h.total (never an outcome whose count is zero; 0 for an empty or zero-total histogram) and
> p.roll() returns each ascending-sorted roll with exactly the probability count/total enumerated by
> rolls_with_counts, using one independent draw per die. The generator installed as dyce.rng.RNG at
> the time of the call is the only source of randomness, so installing an equally seeded generator
> reproduces the same rolls.

`rollHist` / `rollPoolW` are `H.roll` / `P.roll` in the weighted-list monad: the list of everything
the call can return, each with the weight of the choice the library asks the generator to make
(`choices(population=outcomes, weights=counts, k=1)`).  `pickIdx` is CPython's `choices` for integer
weights (cumulative weights + bisect of `random()·total`).

| clause | theorem |
|---|---|
| fair chooser: index `i` is picked for exactly `weights[i]` of the `total` equally likely integer parts — never a zero-weight entry | `C10_choices_fair` |
| `h.roll()`: weight of `o` is `h[o]` (out of `h.total`) | `C10_hroll_distribution` |
| never a zero-count outcome; `0` for a zero-total histogram | `C10_hroll_never_zero_count`, `C10_hroll_zero_total` |
| `p.roll()`: weight of each sorted roll = its weight in the Cartesian product = its `rolls_with_counts()` count (C02) | `C10_proll_distribution`, `C10_proll_matches_rolls_with_counts` |
| one independent draw per die, in pool order | `C10_one_draw_per_die` |
| the generator's answers are the only input besides the dice: one answer per die, in pool order, the rest of the stream handed on untouched; equal answer streams reproduce the roll | `C10_stream_only_source`, `C10_stream_one_answer_per_die`, `C10_equal_streams_reproduce`, `C10_stream_answers_consumed`, `C10_stream_zero_total` (zero-total dice take no answer and roll `0`) |
| the stream view has the encoded distribution (of the `total` equally likely answers exactly `h[o]` return `o`; never a zero-count face) and agrees with the weighted-list model | `C10_stream_distribution`, `C10_stream_never_zero_count`, `C10_stream_matches_weighted`; for pools, over all `∏ total` answer sequences: `C10_stream_pool_distribution`, `C10_stream_answer_sequences` |
| that the generator consulted is the one installed as `dyce.rng.RNG` *at the time of the call* | correspondence (scripted generators swapped between calls, request log) |

Partial: fairness of the real bit generator and the floating-point product `random()*total` inside
CPython's `choices` are outside the proof.
-/
namespace Dyce
open List

theorem C10_choices_fair (ws : List Nat) (i : Nat) (hi : i < ws.length) :
    ((List.range ws.sum).filter fun u => pickIdx ws u = i).length = ws[i] := pickIdx_count ws i hi

theorem C10_hroll_distribution (h : Hist Int) (hT : total h ≠ 0) (o : Int) :
    countOf o (rollHist h) = countOf o h := wsum_rollHist h hT _

theorem C10_hroll_total (h : Hist Int) (hT : total h ≠ 0) :
    wsum (rollHist h) (fun _ => 1) = total h := by
  rw [wsum_rollHist h hT, ← total_eq_wsum]

theorem C10_hroll_never_zero_count (h : Hist Int) (hT : total h ≠ 0) :
    ∀ e ∈ rollHist h, e ∈ h ∧ e.2 ≠ 0 := rollHist_never_zero_count h hT

theorem C10_hroll_zero_total (h : Hist Int) (hT : total h = 0) : rollHist h = [(0, 1)] :=
  rollHist_zero_total h hT

theorem C10_proll_distribution (hs : List (Hist Int)) (hpos : ∀ h ∈ hs, total h ≠ 0) (r : List Int) :
    countOf r (rollPoolW hs)
      = wsum (poolTuples hs) (fun t => if (t.mergeSort fun a b => decide (a ≤ b)) = r then 1 else 0) :=
  wsum_rollPoolW hs hpos _

/-- the probability `P.roll` gives a sorted roll is the count `rolls_with_counts()` reports for it -/
theorem C10_proll_matches_rolls_with_counts (hle : TotalOrderB (fun a b : Int => decide (a ≤ b)))
    (hs : List (Hist Int)) (hd : DiceOK (fun a b : Int => decide (a ≤ b)) hs) (hne : hs ≠ []) (r : List Int) :
    ∃ L, rollsWithCounts (fun a b : Int => decide (a ≤ b)) hs [] = .ok L ∧
      countOf (r.map some) L = countOf r (rollPoolW hs) := by
  obtain ⟨L, hL, hc⟩ := C02_noargs hle hs hd
  refine ⟨L, hL, ?_⟩
  rw [hc (r.map some), if_neg hne, C10_proll_distribution hs (fun h hh => by have := (hd h hh).2; omega)]
  unfold specRWC
  apply wsum_congr'
  intro tw htw
  have hlen : tw.1.length = hs.length := mem_poolTuples_length htw
  have : takeIdxs ((sortBy (fun a b : Int => decide (a ≤ b)) tw.1).map some) (List.range hs.length)
      = (sortBy (fun a b : Int => decide (a ≤ b)) tw.1).map some := by
    apply takeIdxs_range_opt
    rw [List.length_map, (sortBy_perm _ tw.1).length_eq, hlen]
  rw [this]
  unfold sortBy
  by_cases h : (tw.1.mergeSort fun a b => decide (a ≤ b)) = r
  · simp [h]
  · have : ¬ (List.map some (tw.1.mergeSort fun a b => decide (a ≤ b)) = List.map some r) := by
      intro hh; exact h (List.map_injective_iff.mpr (Option.some_injective _) hh)
    simp [h, this]

/-- `P.roll` asks for exactly one weighted choice per die, in pool order -/
theorem C10_one_draw_per_die (h : Hist Int) (hs : List (Hist Int)) :
    rollDiceW (h :: hs) = (do let v ← rollHist h; let r ← rollDiceW hs; pure (v :: r)) := rfl

/-! ### the generator-threading view (`Dyce/RollState.lean`) -/

/-- of the `total` equally likely generator answers exactly `h[o]` make `h.roll()` return `o` -/
theorem C10_stream_distribution (h : Hist Int) (o : Int) :
    ((List.range (total h)).filter fun u => (rollHistS h [u]).1 = o).length = countOf o h := by
  by_cases hT : total h = 0
  · have : countOf o h = 0 := by rw [← faceAt_count, hT]; simp
    simp [hT, this]
  · simp only [rollHistS, if_neg hT]; exact faceAt_count h o

theorem C10_stream_never_zero_count (h : Hist Int) (u : Nat) (hu : u < total h) (rest : List Nat) :
    countOf (rollHistS h (u :: rest)).1 h ≠ 0 := by
  have hT : total h ≠ 0 := by omega
  simp only [rollHistS, if_neg hT]; exact faceAt_never_zero_count h u hu

/-- the stream view and the weighted-list model (the one run against the real code) agree -/
theorem C10_stream_matches_weighted (h : Hist Int) (hT : total h ≠ 0) (o : Int) :
    ((List.range (total h)).filter fun u => (rollHistS h [u]).1 = o).length = countOf o (rollHist h) := by
  rw [C10_stream_distribution, C10_hroll_distribution h hT]

/-- `p.roll()` reads one answer per die and hands the rest of the stream on untouched: the roll is a
function of the dice and those answers alone -/
theorem C10_stream_only_source (hs : List (Hist Int)) (hpos : ∀ h ∈ hs, total h ≠ 0)
    (pre rest : List Nat) (hlen : pre.length = hs.length) :
    rollPoolS hs (pre ++ rest) = ((rollPoolS hs pre).1, rest) := rollPoolS_append hs hpos pre rest hlen

/-- the `i`-th die's face is decided by the `i`-th answer alone; the roll is the sorted tuple -/
theorem C10_stream_one_answer_per_die (hs : List (Hist Int)) (hpos : ∀ h ∈ hs, total h ≠ 0)
    (pre : List Nat) (hlen : pre.length = hs.length) :
    (rollPoolS hs pre).1
      = ((hs.zip pre).map fun hu => faceAt hu.1 hu.2).mergeSort fun a b => decide (a ≤ b) := by
  unfold rollPoolS; simp only [rollDiceS_eq_zip hs hpos pre hlen]

/-- two generators that give the same answers to the pool's draws (equally seeded) give the same
roll, whatever either would answer afterwards -/
theorem C10_equal_streams_reproduce (hs : List (Hist Int)) (hpos : ∀ h ∈ hs, total h ≠ 0)
    (pre rest₁ rest₂ : List Nat) (hlen : pre.length = hs.length) :
    (rollPoolS hs (pre ++ rest₁)).1 = (rollPoolS hs (pre ++ rest₂)).1 := by
  rw [C10_stream_only_source hs hpos pre rest₁ hlen, C10_stream_only_source hs hpos pre rest₂ hlen]

/-- **the whole distribution from the generator's side**: over all `∏ total` equally likely answer
sequences (one in-range answer per die), the number that make `p.roll()` return `r` is the weight
`P.roll` has in the weighted-list model — i.e. (by `C10_proll_matches_rolls_with_counts`) the count
`rolls_with_counts()` reports for `r` -/
theorem C10_stream_pool_distribution (hs : List (Hist Int)) (hpos : ∀ h ∈ hs, total h ≠ 0) (r : List Int) :
    ((allAnswers hs).filter fun us => (rollPoolS hs us).1 = r).length = countOf r (rollPoolW hs) := by
  rw [C10_proll_distribution hs hpos r, ← sum_rollDiceS hs hpos]
  unfold rollPoolS
  induction allAnswers hs with
  | nil => rfl
  | cons us l ih =>
    simp only [List.filter_cons, List.map_cons, List.sum_cons]
    split <;> rename_i hh
    · have : ((rollDiceS hs us).1.mergeSort fun a b => decide (a ≤ b)) = r := by simpa using hh
      rw [List.length_cons, ih, if_pos this]; omega
    · have : ¬ ((rollDiceS hs us).1.mergeSort fun a b => decide (a ≤ b)) = r := by simpa using hh
      rw [ih, if_neg this]; omega

theorem C10_stream_answer_sequences (hs : List (Hist Int)) :
    (allAnswers hs).length = (hs.map total).prod := by
  induction hs with
  | nil => rfl
  | cons h hs ih =>
    have : ∀ (n : Nat), ((List.range n).flatMap fun u => (allAnswers hs).map fun us => u :: us).length
        = n * (allAnswers hs).length := by
      intro n
      induction n with
      | zero => simp
      | succ n ihn => rw [List.range_succ, List.flatMap_append, List.length_append, ihn]; simp [Nat.succ_mul]
    simp only [allAnswers, List.map_cons, List.prod_cons, this, ih]

/-- any pool, zero-total dice included: exactly one answer is taken per die with a positive total and
none for a zero-total die (which yields `0` without asking) -/
theorem C10_stream_answers_consumed (hs : List (Hist Int)) (us : List Nat)
    (hlen : (liveDice hs).length ≤ us.length) :
    (rollPoolS hs us).2 = us.drop (liveDice hs).length := by
  unfold rollPoolS; exact rollDiceS_rest hs us hlen

/-- a zero-total (or empty) histogram rolls `0` and does not consult the generator at all -/
theorem C10_stream_zero_total (h : Hist Int) (hT : total h = 0) (us : List Nat) :
    rollHistS h us = (0, us) := by
  simp [rollHistS, hT]

/-! non-vacuity: 2d{1:1,2:2} with answers 2, 0 (then 7) draws faces 2, 1 in pool order and leaves 7 -/
example : rollDiceS [[(1, 1), (2, 2)], [(1, 1), (2, 2)]] [2, 0, 7] = ([2, 1], [7]) := by decide

end Dyce
