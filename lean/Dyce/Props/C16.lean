import Dyce.StatsProofs
/-!
# C16 — Distribution and summary statistics are consistent with the counts

> distribution() yields every outcome once, in ascending order, with probability exactly
> count/total (summing to exactly 1 whenever total > 0; a custom rational type receives exactly
> (count, total)), and distribution_xy() gives the same values as floats. mean() equals the sum of
> outcome*count over total and variance() equals E[X^2]-E[X]^2 (exactly for rational outcomes, to
> floating-point accuracy otherwise), stdev() is its square root, none of them changes when counts
> are scaled or zero-count outcomes are added, and for independent a and b the mean and variance of
> a+b are the sums of the operands' means and variances.

Outcomes are rationals (`ℚ`, which represents int, bool and Fraction outcomes exactly).  Float
rounding, `sqrt` (stdev) and `distribution_xy`'s conversion to float are outside the proof; the
correspondence check compares them with the exact value to 1e-9.

| clause | theorem |
|---|---|
| every outcome once, in the histogram's (ascending) order | `C16_distribution_outcomes` |
| probability exactly `count / (total or 1)` | `C16_distribution_prob` |
| probabilities sum to exactly 1 | `C16_distribution_sum` |
| mean = Σ outcome·count / total; variance = E[X²] − E[X]² | `C16_mean_def`, `C16_variance_def` |
| variance is the central second moment `Σ count·(x−mean)²/total`, hence never negative: `stdev()` — its square root — is always defined for rational outcomes | `C16_variance_central`, `C16_variance_nonneg` |
| an explicit `mu`: used as given when truthy; a falsy `mu` (`0`, like `None`) is recomputed as the mean; passing the mean itself changes nothing | `C16_variance_mu`, `C16_variance_mu_falsy`, `C16_variance_mu_mean` |
| unchanged by scaling the counts / by zero-count outcomes | `C16_mean_scale`, `C16_variance_scale`, `C16_mean_zero_pad`, `C16_variance_zero_pad` |
| additivity for independent operands | `C16_mean_add`, `C16_variance_add` |
| zero-total conventions (`total or 1`) | `C16_zero_total` |
-/
namespace Dyce
open List
variable {α : Type}

theorem C16_distribution_outcomes (h : Hist α) : (distribution h).map Prod.fst = h.map Prod.fst :=
  distribution_keys h

theorem C16_distribution_prob (h : Hist α) :
    (distribution h).map Prod.snd = h.map fun oc => (oc.2 : ℚ) / (tot1 h : ℚ) := distribution_prob h

theorem C16_distribution_sum (h : Hist α) (hT : 0 < total h) :
    ((distribution h).map Prod.snd).sum = 1 := distribution_sum h hT

theorem C16_mean_def (h : Hist ℚ) : meanH h = rsum h (fun x => x) / (tot1 h : ℚ) := rfl

theorem C16_variance_def (h : Hist ℚ) :
    varianceH h none = rsum h (fun x => x * x) / (tot1 h : ℚ) - meanH h * meanH h := rfl

theorem C16_variance_central (h : Hist ℚ) (hT : 0 < total h) :
    varianceH h none = rsum h (fun x => (x - meanH h) * (x - meanH h)) / (tot1 h : ℚ) :=
  variance_central h hT

theorem C16_variance_nonneg (h : Hist ℚ) : 0 ≤ varianceH h none := variance_nonneg h

theorem C16_variance_mu (h : Hist ℚ) (v : ℚ) (hv : v ≠ 0) :
    varianceH h (some v) = rsum h (fun x => x * x) / (tot1 h : ℚ) - v * v := by
  show _ / _ - (if v = 0 then meanH h else v) * (if v = 0 then meanH h else v) = _
  rw [if_neg hv]; rfl

theorem C16_variance_mu_falsy (h : Hist ℚ) : varianceH h (some 0) = varianceH h none := by
  show _ / _ - (if (0 : ℚ) = 0 then meanH h else 0) * (if (0 : ℚ) = 0 then meanH h else 0) = _
  rw [if_pos rfl]; rfl

theorem C16_variance_mu_mean (h : Hist ℚ) : varianceH h (some (meanH h)) = varianceH h none := by
  by_cases hv : meanH h = 0
  · rw [hv]; exact C16_variance_mu_falsy h
  · rw [C16_variance_mu h _ hv, C16_variance_def]

theorem C16_mean_scale (k : Nat) (hk : 0 < k) (h : Hist ℚ) : meanH (scaleH k h) = meanH h :=
  mean_scale k hk h

theorem C16_variance_scale (k : Nat) (hk : 0 < k) (h : Hist ℚ) :
    varianceH (scaleH k h) none = varianceH h none := variance_scale k hk h

theorem C16_mean_zero_pad (a b : Hist ℚ) (x : ℚ) : meanH (a ++ (x, 0) :: b) = meanH (a ++ b) :=
  mean_zero_pad a b x

theorem C16_variance_zero_pad (a b : Hist ℚ) (x : ℚ) :
    varianceH (a ++ (x, 0) :: b) none = varianceH (a ++ b) none := variance_zero_pad a b x

theorem C16_mean_add (le : ℚ → ℚ → Bool) (a b : Hist ℚ) (ha : 0 < total a) (hb : 0 < total b) :
    meanH (mapH le (· + ·) a b) = meanH a + meanH b := mean_add le a b ha hb

theorem C16_variance_add (le : ℚ → ℚ → Bool) (a b : Hist ℚ) (ha : 0 < total a) (hb : 0 < total b) :
    varianceH (mapH le (· + ·) a b) none = varianceH a none + varianceH b none :=
  variance_add le a b ha hb

/-- a histogram without positive counts has mean 0 and variance 0 (the `total or 1` convention) -/
theorem C16_zero_total (h : Hist ℚ) (h0 : total h = 0) : meanH h = 0 ∧ varianceH h none = 0 := by
  have hm : meanH h = 0 := by rw [meanH_eq, rsum_eq_zero_of_total_zero h h0]; simp
  refine ⟨hm, ?_⟩
  rw [varianceH_none, hm, rsum_eq_zero_of_total_zero h h0]; simp

/-! non-vacuity -/
example : 0 < total ([(1, 2), (3, 0), (5, 1)] : Hist ℚ) := by decide

end Dyce
