import Dyce.PoolCtorProofs
import Dyce.HistProofs
/-!
# C04 — Repetition, pooling and totals obey the counting laws

> n@h is the n-fold sum of independent copies of h with total h.total**n (0@h is the empty
> histogram, negative or non-integral n is rejected) and (m+n)@h == m@h + n@h for m, n >= 1.
> n@p holds n copies of every die of p, P(...) flattens nested pools, drops empty (zero-total)
> histograms and ignores argument order (so P(a,b) == P(b,a) and indexing/iteration follow one
> canonical order), P.total is the product of the dice totals (1 for the empty pool), and p.h()
> equals the sum of its dice so that (n@P(h)).h() == n@h.

| clause | theorem |
|---|---|
| `n@h` = n-fold sum, exact counts | `C04_matmul_count` |
| total `h.total**n` | `C04_matmul_total` |
| `0@h = {}` | `C04_matmul_zero` |
| negative `n` rejected | `C04_matmul_negative` (non-integral `n`: C19, `asInt`) |
| `(m+n)@h == m@h + n@h` | `C04_matmul_add` |
| `n@p` holds `n` copies of every die | `C04_pool_matmul` |
| `P(...)` flattens / drops empty / ignores order / canonical order | `C04_pool_flatten`, `C04_pool_drop_empty`, `C04_pool_perm`, `C04_pool_invariant` |
| a slice `p[i:j:k]` is a pool in the same canonical order (any step) | `C04_slice` |
| `P.total` | `C04_pool_total`, `C04_pool_total_empty` |
| `p.h()` = sum of dice; `(n@P(h)).h() == n@h` | `C03_noargs`, `C04_pool_h_matmul` |
-/
namespace Dyce
open List

section
variable {α : Type} [DecidableEq α]

theorem C04_matmul_count (le : α → α → Bool) (zero : α) (add : α → α → α) (n : Nat) (h : Hist α) (z : α) :
    countOf z (matmulH le zero add n h)
      = if n = 0 then 0 else wsum (tuples h n) (fun t => if t.foldl add zero = z then 1 else 0) :=
  countOf_matmulH le zero add n h z

theorem C04_matmul_total (le : α → α → Bool) (zero : α) (add : α → α → α) (n : Nat) (hn : 0 < n)
    (h : Hist α) : total (matmulH le zero add n h) = total h ^ n :=
  total_matmulH le zero add n hn h

theorem C04_matmul_zero (le : α → α → Bool) (zero : α) (add : α → α → α) (h : Hist α) :
    matmulH le zero add 0 h = [] := rfl

/-- `H.__matmul__` after `as_int`: a negative repetition count is a `ValueError` -/
def hMatmul (le : α → α → Bool) (zero : α) (add : α → α → α) (n : Int) (h : Hist α) : Except PyErr (Hist α) :=
  if n < 0 then .error .valueError else .ok (matmulH le zero add n.toNat h)

theorem C04_matmul_negative (le : α → α → Bool) (zero : α) (add : α → α → α) (n : Int) (h : Hist α) :
    (n < 0 → hMatmul le zero add n h = .error .valueError) ∧
    (0 ≤ n → hMatmul le zero add n h = .ok (matmulH le zero add n.toNat h)) := by
  unfold hMatmul
  constructor <;> intro hn
  · simp [hn]
  · have : ¬ n < 0 := by omega
    simp [this]

variable {le : α → α → Bool}

theorem C04_pool_perm (hle : TotalOrderB le) {args₁ args₂ : List (PArg α)} (hp : args₁ ~ args₂) :
    mkPool le args₁ = mkPool le args₂ := mkPool_perm hle hp

theorem C04_pool_flatten (hle : TotalOrderB le) (a c b : List (PArg α)) :
    mkPool le (a ++ [PArg.pool (mkPool le b)] ++ c) = mkPool le (a ++ b ++ c) :=
  mkPool_flatten hle a c b

theorem C04_pool_drop_empty (hle : TotalOrderB le) (a c : List (PArg α)) (h : Hist α) (h0 : total h = 0) :
    mkPool le (a ++ [PArg.hist h] ++ c) = mkPool le (a ++ c) :=
  mkPool_drop_empty hle a c h h0

theorem C04_pool_invariant (hle : TotalOrderB le) (args : List (PArg α)) :
    (∀ h ∈ mkPool le args, 0 < total h) ∧ (mkPool le args).Pairwise (fun a b => lexLe le a b = true) :=
  mkPool_invariant hle args

/-- a slice of a pool is a pool again: its dice are in canonical order whatever the order of the selected
positions (negative steps included), all have a positive total, and they are exactly the selected dice -/
theorem C04_slice (hle : TotalOrderB le) (args : List (PArg α)) (idxs : List Nat) :
    (poolSlice le (mkPool le args) idxs).Pairwise (fun a b => lexLe le a b = true) ∧
    (∀ h ∈ poolSlice le (mkPool le args) idxs, 0 < total h) ∧
    poolSlice le (mkPool le args) idxs ~ idxs.filterMap (fun j => (mkPool le args)[j]?) := by
  have hpos : ∀ h ∈ idxs.filterMap (fun j => (mkPool le args)[j]?), 0 < total h := by
    intro h hh
    obtain ⟨j, _, hj⟩ := List.mem_filterMap.mp hh
    exact (mkPool_invariant hle args).1 h (List.mem_of_getElem? hj)
  refine ⟨?_, ?_, ?_⟩
  · exact List.pairwise_mergeSort (fun a b c => (lexLe_order hle).trans a b c)
      (fun a b => (lexLe_order hle).total a b) _
  · intro h hh
    exact hpos h (List.mem_filter.mp ((canonDice_perm_filter (le := le) _).subset hh)).1
  · refine (canonDice_perm_filter (le := le) _).trans ?_
    rw [List.filter_eq_self.mpr]
    intro h hh
    have := hpos h hh
    simp only [ne_eq, decide_eq_true_eq]; omega

theorem C04_pool_total (dice : List (Hist α)) :
    poolTotal dice = wsum (poolTuples dice) (fun _ => 1) := poolTotal_eq dice

theorem C04_pool_total_empty : poolTotal ([] : List (Hist α)) = 1 := rfl

theorem C04_pool_matmul (n : Nat) (dice : List (Hist α)) (hpos : ∀ h ∈ dice, total h ≠ 0) (d : Hist α) :
    (matmulP le n dice).count d = n * dice.count d := matmulP_count n dice hpos d

end

section
variable {α : Type} [DecidableEq α] [AddCommMonoid α]

theorem C04_matmul_add (le : α → α → Bool) (m n : Nat) (hm : 0 < m) (hn : 0 < n) (h : Hist α) (z : α) :
    countOf z (matmulH le 0 (· + ·) (m + n) h)
      = countOf z (mapH le (· + ·) (matmulH le 0 (· + ·) m h) (matmulH le 0 (· + ·) n h)) :=
  matmulH_add le m n hm hn h z

theorem C04_pool_h_matmul (le : α → α → Bool) (n : Nat) (h : Hist α) (h0 : total h ≠ 0) :
    sumH le 0 (· + ·) (matmulP le n (mkPool le [PArg.hist h])) = matmulH le 0 (· + ·) n h :=
  pool_h_matmul le n h h0

end

/-! non-vacuity: hypotheses are satisfiable by concrete data -/
example : ∀ h ∈ ([[(1, 1), (2, 0)], [(0, 2)]] : List (Hist Int)), total h ≠ 0 := by decide
example : ([PArg.hist [(1, 1)], PArg.pool [[(0, 2)]]] : List (PArg Int)) ~ [PArg.pool [[(0, 2)]], PArg.hist [(1, 1)]] :=
  List.Perm.swap _ _ _

end Dyce
