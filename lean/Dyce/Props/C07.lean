import Dyce.EvalRefine
import Dyce.EvalConcrete
import Dyce.EvalFuel
/-!
# C07 — Recursion limits cut expansion exactly where documented

> A recursive @expandable evaluation with whole-number limit L substitutes the sentinel exactly at
> nesting depth L (0 gives the sentinel alone, -1 is unbounded, the default is 1), and with a
> fractional limit e in (0,1) substitutes it exactly on those branches whose probability relative to
> the whole evaluation (the product, along the path and over all sources, of count/total) is <= e.
> Nested calls inherit the limit of the enclosing evaluation, other limits (negative other than -1,
> fractions <= 0 or >= 1) raise ValueError, and the value returned is the exact mixture of the
> expanded and the sentinel branches.

The implementation keeps depth, precision and limit in a context variable that it sets around every
callback invocation and resets in a `finally`.  `specEval` is the *stateless* reading of the
documentation: depth, precision and inherited limit are explicit arguments.  Callbacks are arbitrary
interaction trees (`Prog`): return, raise, or evaluate any decorated function on any sources with any
limit and continue with any function of its result.

| clause | theorem |
|---|---|
| the ContextVar implementation computes exactly the stateless rule, for every callback, fuel, sources, limit, starting cell | `C07_refines_spec` |
| the rule itself: sentinel iff cut, otherwise aggregate of all branches evaluated at depth+1 and precision·count/Πtotals under the same limit | `C07_cut_rule` |
| whole-number limit: cut exactly when depth ≥ L | `C07_cut_int` |
| fractional limit: cut exactly when precision ≤ e | `C07_cut_frac` |
| limit 0 gives the sentinel alone (lowest terms) | `C07_limit_zero` |
| default limit 1; nested calls inherit | `C07_default_limit`, `C07_inherit` |
| -1 is unbounded (`sys.maxsize`), other negatives / fractions outside (0,1) are ValueError | `C07_normalize_int`, `C07_normalize_frac` |
| returned value = mixture of expanded and sentinel branches | `C07_cut_rule` + C06 (`agg`) |

| whole-number limits everywhere (top level, inherited, and every nested call any callback can make) `≤ N`: the result does not depend on the fuel once it exceeds `N` — the stand-in for the interpreter stack is not observable | `C07_fuel_independent`, `C07_fuel_independent_impl` |

Fuel stands for the interpreter stack: `specEval 0` is `RecursionError`, which the caller converts
into its sentinel (as documented).  For whole-number limits the two theorems above remove it from the
statement; for fractional limits the depth reached depends on the sources' weights and fuel remains.
-/
namespace Dyce

variable {α ρ : Type}

theorem C07_refines_spec (env : Nat → Fn α ρ) (agg : List (Ret α × Nat) → Hist α)
    (lowest : Hist α → Hist α) (fuel fn : Nat) (srcs : List (Src ρ)) (lim : Option Limit) (c : Cell) :
    evalFn env agg lowest fuel fn srcs lim c
      = (specEval env agg lowest fuel fn srcs lim (c.getD ⟨none, 0, 1, 1⟩), c) :=
  evalFn_refines env agg lowest fuel fn srcs lim c

theorem C07_cut_rule (env : Nat → Fn α ρ) (agg : List (Ret α × Nat) → Hist α) (lowest : Hist α → Hist α)
    (fuel fn : Nat) (srcs : List (Src ρ)) (lim : Option Limit) (cur : Ctx) :
    specEval env agg lowest (fuel + 1) fn srcs lim cur =
      (let newLim : Limit := (lim.orElse fun _ => cur.limit).getD (.int 1)
       let finish (h : Hist α) : Hist α := if cur.depth = 0 then lowest h else h
       if cutNow newLim cur then .ok (finish (env fn).sentinel)
       else
         match (branches srcs).foldl
            (specBranch (specEval env agg lowest fuel) (env fn)
              (fun cc => ⟨some newLim, cur.depth + 1, cur.precNum * cc, cur.precDen * srcTotal srcs⟩))
            (.ok []) with
         | .ok rs => .ok (finish (agg rs))
         | .error e => .error e) := rfl

theorem C07_cut_int (n : Nat) (c : Ctx) : cutNow (.int n) c = true ↔ c.depth ≥ n := by
  simp [cutNow]

/-- precision `precNum/precDen ≤ num/den`, cross-multiplied (all denominators positive) -/
theorem C07_cut_frac (num den : Nat) (c : Ctx) :
    cutNow (.frac num den) c = true ↔ c.precNum * den ≤ num * c.precDen := by
  simp [cutNow]

theorem C07_limit_zero (env : Nat → Fn α ρ) (agg : List (Ret α × Nat) → Hist α) (lowest : Hist α → Hist α)
    (fuel fn : Nat) (srcs : List (Src ρ)) :
    evalFn env agg lowest (fuel + 1) fn srcs (some (.int 0)) none = (.ok (lowest (env fn).sentinel), none) := by
  rw [C07_refines_spec, C07_cut_rule]
  simp [cutNow]

/-- without any limit anywhere the limit is 1: the top level expands, every nested evaluation
(depth ≥ 1) returns its sentinel -/
theorem C07_default_limit (env : Nat → Fn α ρ) (agg : List (Ret α × Nat) → Hist α) (lowest : Hist α → Hist α)
    (fuel fn : Nat) (srcs : List (Src ρ)) (cur : Ctx) (hd : 1 ≤ cur.depth) (hl : cur.limit = some (.int 1)) :
    specEval env agg lowest (fuel + 1) fn srcs none cur = .ok ((env fn).sentinel) := by
  rw [C07_cut_rule]
  have h0 : cur.depth ≠ 0 := by omega
  simp [hl, cutNow, hd, h0]

/-- a nested evaluation without its own limit uses the enclosing evaluation's limit -/
theorem C07_inherit (lim : Limit) (cur : Ctx) (hl : cur.limit = some lim) :
    ((none : Option Limit).orElse fun _ => cur.limit).getD (.int 1) = lim := by
  simp [hl]

theorem C07_normalize_int (n : Int) :
    (n = -1 → normalizeLimit (.int n) = .ok (some (.int maxsize))) ∧
    (n < -1 → normalizeLimit (.int n) = .error .valueError) ∧
    (0 ≤ n → normalizeLimit (.int n) = .ok (some (.int n.toNat))) := by
  refine ⟨?_, ?_, ?_⟩ <;> intro h <;> unfold normalizeLimit
  · simp [h]
  · have h1 : n ≠ -1 := by omega
    have h2 : n < 0 := by omega
    simp [h1, h2]
  · have h1 : n ≠ -1 := by omega
    have h2 : ¬ n < 0 := by omega
    simp [h1, h2]

theorem C07_normalize_frac (p q : Int) :
    ((p ≤ 0 ∨ p ≥ q) → normalizeLimit (.frac p q) = .error .valueError) ∧
    ((0 < p ∧ p < q) → normalizeLimit (.frac p q) = .ok (some (.frac p.toNat q.toNat))) := by
  constructor <;> intro h <;> unfold normalizeLimit
  · simp [h]
  · have : ¬ (p ≤ 0 ∨ p ≥ q) := by omega
    simp [this]

/-- with whole-number limits `≤ N` everywhere, any fuel `> N` gives the same answer (stateless rule) -/
theorem C07_fuel_independent (env : Nat → Fn α ρ) (agg : List (Ret α × Nat) → Hist α)
    (lowest : Hist α → Hist α) (N : Nat) (hN : 1 ≤ N)
    (henv : ∀ fn args, ((env fn).body args).LimBounded N)
    (fuel₁ fuel₂ fn : Nat) (srcs : List (Src ρ)) (lim : Option Limit) (hlim : LimOK N lim)
    (h₁ : N < fuel₁) (h₂ : N < fuel₂) :
    specEval env agg lowest fuel₁ fn srcs lim ⟨none, 0, 1, 1⟩
      = specEval env agg lowest fuel₂ fn srcs lim ⟨none, 0, 1, 1⟩ :=
  specEval_fuel_indep env agg lowest N hN henv fuel₁ fuel₂ fn srcs lim _ hlim
    (by intro l hl; simp at hl) ⟨by omega, by simp only; omega⟩ ⟨by omega, by simp only; omega⟩

/-- the same for the ContextVar implementation model started from a fresh interpreter -/
theorem C07_fuel_independent_impl (env : Nat → Fn α ρ) (agg : List (Ret α × Nat) → Hist α)
    (lowest : Hist α → Hist α) (N : Nat) (hN : 1 ≤ N)
    (henv : ∀ fn args, ((env fn).body args).LimBounded N)
    (fuel₁ fuel₂ fn : Nat) (srcs : List (Src ρ)) (lim : Option Limit) (hlim : LimOK N lim)
    (h₁ : N < fuel₁) (h₂ : N < fuel₂) :
    evalFn env agg lowest fuel₁ fn srcs lim none = evalFn env agg lowest fuel₂ fn srcs lim none := by
  rw [C07_refines_spec, C07_refines_spec]
  simp only [Option.getD_none]
  rw [C07_fuel_independent env agg lowest N hN henv fuel₁ fuel₂ fn srcs lim hlim h₁ h₂]

/-- non-vacuity: a callback that re-evaluates itself on its own sources with limit 3 is bounded by 3 -/
example (srcs : List (Src ρ)) :
    (Prog.call 0 srcs (some (.int 3)) fun h => (.ret (.hist h) : Prog α ρ)).LimBounded 3 :=
  .call _ _ _ _ (by intro l hl; simp only [Option.some.injEq] at hl; exact ⟨3, Nat.le_refl _, hl.symm⟩)
    (fun h => .ret _)

/-! non-vacuity: a concrete recursive evaluation that is cut at depth 2 -/
example : cutNow (.int 2) ⟨some (.int 2), 2, 1, 36⟩ = true := by decide
example : cutNow (.frac 1 16) ⟨some (.frac 1 16), 1, 1, 16⟩ = true := by decide
example : cutNow (.frac 1 16) ⟨some (.frac 1 16), 1, 3, 16⟩ = false := by decide

end Dyce
