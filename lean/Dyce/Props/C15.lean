import Dyce.HeapModel
import Mathlib.Tactic.Common
/-!
# C15 — Histograms, pools and rollers are immutable values

> No public operation, successful or failing, changes the observable content (outcomes, their order,
> counts, total, dice and their order, sources, annotation) of any histogram, pool or roller that
> existed before it: operations return new objects, item assignment and deletion are unsupported, and
> objects constructed from other objects (H(h), H(p), P(p, ...), n@p, p[i:j], r.annotate(...)) are
> unaffected by anything done later with their inputs and vice versa.

The model states the WRITE DISCIPLINE of the code: histogram objects point to write-once mapping
cells (`H(h)` shares `h`'s cell), every public operation allocates new cells / objects or allocates
nothing (queries, rejected calls), and none overwrites.  The theorems say what follows from that
discipline; that /repo's code follows it is what the correspondence checks (full snapshots of every
pre-existing object after every operation).  **Partial**: the theorem is about the modelled
discipline, not derived from the Python source.

| clause | theorem |
|---|---|
| no operation changes the content of any pre-existing histogram / pool / roller | `C15_frame_hist`, `C15_frame_pool`, `C15_frame_roller` |
| … along any sequence of operations | `C15_frame_history` |
| `H(h)` shows the content of `h`, now and after anything done later | `C15_alias_content`, `C15_frame_history` |
| well-formedness (objects point to allocated cells) is preserved | `C15_wf_step` |
-/
namespace Dyce
open List

theorem step_alias_some (hp : Heap) (i : Nat) (o : HObj) (h : hp.hs[i]? = some o) :
    hp.step (.aliasH i) = { hp with hs := hp.hs ++ [o] } := by simp [Heap.step, h]

theorem step_alias_none (hp : Heap) (i : Nat) (h : hp.hs[i]? = none) : hp.step (.aliasH i) = hp := by
  simp [Heap.step, h]

theorem step_cells_prefix (hp : Heap) (op : HeapOp) : ∃ l, (hp.step op).cells = hp.cells ++ l := by
  cases op with
  | newH c => exact ⟨[c], rfl⟩
  | aliasH i =>
    cases h : hp.hs[i]? with
    | some o => rw [step_alias_some hp i o h]; exact ⟨[], by simp⟩
    | none => rw [step_alias_none hp i h]; exact ⟨[], by simp⟩
  | newP d => exact ⟨[], by simp [Heap.step]⟩
  | newR s a => exact ⟨[], by simp [Heap.step]⟩
  | pureOrFail => exact ⟨[], by simp [Heap.step]⟩

theorem step_hs_prefix (hp : Heap) (op : HeapOp) : ∃ l, (hp.step op).hs = hp.hs ++ l := by
  cases op with
  | newH c => exact ⟨[⟨hp.cells.length⟩], rfl⟩
  | aliasH i =>
    cases h : hp.hs[i]? with
    | some o => rw [step_alias_some hp i o h]; exact ⟨[o], rfl⟩
    | none => rw [step_alias_none hp i h]; exact ⟨[], by simp⟩
  | newP d => exact ⟨[], by simp [Heap.step]⟩
  | newR s a => exact ⟨[], by simp [Heap.step]⟩
  | pureOrFail => exact ⟨[], by simp [Heap.step]⟩

theorem C15_wf_step (hp : Heap) (op : HeapOp) (hwf : hp.WF) : (hp.step op).WF := by
  cases op with
  | newH c =>
    intro o ho
    simp only [Heap.step, List.mem_append, List.mem_singleton, List.length_append, List.length_singleton] at ho ⊢
    rcases ho with ho | rfl
    · have := hwf o ho; omega
    · simp
  | aliasH i =>
    cases h : hp.hs[i]? with
    | some o =>
      rw [step_alias_some hp i o h]
      intro o' ho'
      simp only [List.mem_append, List.mem_singleton] at ho'
      rcases ho' with ho' | rfl
      · exact hwf o' ho'
      · exact hwf _ (List.mem_of_getElem? h)
    | none => rw [step_alias_none hp i h]; exact hwf
  | newP d => exact hwf
  | newR s a => exact hwf
  | pureOrFail => exact hwf

/-- **frame, histograms**: whatever the operation, a histogram object that existed before shows the
same content afterwards -/
theorem C15_frame_hist (hp : Heap) (hwf : hp.WF) (op : HeapOp) (i : Nat) (hi : i < hp.hs.length) :
    (hp.step op).observeH i = hp.observeH i := by
  obtain ⟨lc, hc⟩ := step_cells_prefix hp op
  obtain ⟨lh, hh⟩ := step_hs_prefix hp op
  unfold Heap.observeH
  rw [hh, List.getElem?_append_left hi]
  have ho : hp.hs[i]? = some hp.hs[i] := List.getElem?_eq_getElem hi
  rw [ho]
  simp only
  rw [hc, List.getElem?_append_left (hwf _ (List.getElem_mem hi))]

theorem C15_frame_pool (hp : Heap) (hwf : hp.WF) (op : HeapOp) (j : Nat) (hj : j < hp.ps.length)
    (hdice : ∀ d ∈ hp.ps[j], d < hp.hs.length) :
    (hp.step op).observeP j = hp.observeP j := by
  have hps : ∃ l, (hp.step op).ps = hp.ps ++ l := by
    cases op with
    | newH c => exact ⟨[], by simp [Heap.step]⟩
    | aliasH i =>
      cases h : hp.hs[i]? with
      | some o => rw [step_alias_some hp i o h]; exact ⟨[], by simp⟩
      | none => rw [step_alias_none hp i h]; exact ⟨[], by simp⟩
    | newP d => exact ⟨[d], rfl⟩
    | newR s a => exact ⟨[], by simp [Heap.step]⟩
    | pureOrFail => exact ⟨[], by simp [Heap.step]⟩
  obtain ⟨l, hl⟩ := hps
  unfold Heap.observeP
  rw [hl, List.getElem?_append_left hj, List.getElem?_eq_getElem hj]
  simp only [Option.map_some, Option.some.injEq]
  apply List.map_congr_left
  intro d hd
  exact C15_frame_hist hp hwf op d (hdice d hd)

theorem C15_frame_roller (hp : Heap) (op : HeapOp) (k : Nat) (hk : k < hp.rs.length) :
    (hp.step op).observeR k = hp.observeR k := by
  have hrs : ∃ l, (hp.step op).rs = hp.rs ++ l := by
    cases op with
    | newH c => exact ⟨[], by simp [Heap.step]⟩
    | aliasH i =>
      cases h : hp.hs[i]? with
      | some o => rw [step_alias_some hp i o h]; exact ⟨[], by simp⟩
      | none => rw [step_alias_none hp i h]; exact ⟨[], by simp⟩
    | newP d => exact ⟨[], by simp [Heap.step]⟩
    | newR s a => exact ⟨[(s, a)], rfl⟩
    | pureOrFail => exact ⟨[], by simp [Heap.step]⟩
  obtain ⟨l, hl⟩ := hrs
  unfold Heap.observeR
  rw [hl, List.getElem?_append_left hk]

theorem run_wf (hp : Heap) (hwf : hp.WF) (ops : List HeapOp) : (hp.run ops).WF := by
  induction ops generalizing hp with
  | nil => exact hwf
  | cons op ops ih => exact ih (hp.step op) (C15_wf_step hp op hwf)

theorem run_hs_length (hp : Heap) (ops : List HeapOp) : hp.hs.length ≤ (hp.run ops).hs.length := by
  induction ops generalizing hp with
  | nil => exact Nat.le_refl _
  | cons op ops ih =>
    obtain ⟨l, hl⟩ := step_hs_prefix hp op
    have := ih (hp.step op)
    have h2 : hp.hs.length ≤ (hp.step op).hs.length := by rw [hl]; simp
    exact Nat.le_trans h2 this

/-- **frame, any history**: after any sequence of operations — successful or failing, on this object,
on its aliases or on anything else — a histogram object shows the content it had -/
theorem C15_frame_history (hp : Heap) (hwf : hp.WF) (ops : List HeapOp) (i : Nat) (hi : i < hp.hs.length) :
    (hp.run ops).observeH i = hp.observeH i := by
  induction ops generalizing hp with
  | nil => rfl
  | cons op ops ih =>
    have hwf' := C15_wf_step hp op hwf
    obtain ⟨l, hl⟩ := step_hs_prefix hp op
    have hi' : i < (hp.step op).hs.length := by rw [hl]; simp; omega
    have := ih (hp.step op) hwf' hi'
    simp only [Heap.run, List.foldl_cons] at this ⊢
    rw [this, C15_frame_hist hp hwf op i hi]

/-- `H(h)` has the content of `h` -/
theorem C15_alias_content (hp : Heap) (i : Nat) (hi : i < hp.hs.length) :
    (hp.step (.aliasH i)).observeH hp.hs.length = hp.observeH i := by
  have ho : hp.hs[i]? = some hp.hs[i] := List.getElem?_eq_getElem hi
  rw [step_alias_some hp i _ ho]
  unfold Heap.observeH
  simp [ho]

/-! non-vacuity -/
example : (Heap.empty.run [.newH [(1, 1)], .aliasH 0, .newH [(2, 1)], .pureOrFail]).observeH 1 = some [(1, 1)] := by
  decide

end Dyce
