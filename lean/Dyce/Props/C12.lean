import Dyce.RollerOwn
import Dyce.RollerAccount
import Dyce.RollerShape
/-!
# C12 — Rolls are complete, consistent records of how results were produced

> In every roll produced by any roller tree, roll.r is the producing roller, its source rolls were
> produced in order by that roller's sources (n times over for n@r, once per expansion for
> substitution), each derived outcome's value equals the node's operation applied to the values
> recorded in its source outcomes, and outcomes()/total() report exactly the non-dropped values.
> Every live (non-tombstone) outcome of every source roll is accounted for in the parent roll -
> kept, used as a source of a derived outcome, or represented by a tombstone (value None) whose
> source it is - and every outcome reachable through `sources` is associated with a roll, so its
> source_roll, r and annotation are available.

The model `rollW` produces, for a roller tree, the weighted list of ALL roll records (one per random
choice path) — outcome objects with value / sources / "associated with a roll" flag, and source
rolls — through the same steps as each `roll()` method.  `mkRollDeep` is the repaired
`Roll.__init__` (fix commit 7c6d2a7), `mkRollTop` the pinned one.

| clause | theorem |
|---|---|
| every outcome reachable through `sources`, in the roll and all its source rolls, is associated with a roll — every tree, every path | `C12_all_reachable_owned` |
| … which the pinned `Roll.__init__` violated (`2@R.from_value(H(2)) + 1`) | `C12_pinned_counterexample` |
| `outcomes()` / `total()` are exactly the values of the non-tombstone outcomes | `C12_outcomes_are_live_values` |
| derived values = the node's operation on the recorded source values (whole tuple, path by path) | `C12_values_follow_denotation` |
| number of source rolls: one per source, `n` for `n@r`, 2 / 1 for binary / unary nodes | `C12_source_rolls_count` |
| every live outcome of every source roll is kept, a source (possibly through an implicit sum) of a derived outcome, or the source of a tombstone — every node kind, every path | `C12_live_sources_accounted`, `C12_live_sources_accounted_subst` |
| source rolls were produced, in order, by the node's sources: one per source for pool / filter / selection, `n` rolls of the source for `n@r`, left then right for binary nodes, the source's roll followed by one (re-wrapped) roll of the expansion roller per substitution — every tree, every path; "produced by" = is one of the rolls of that source, so the statement applies again to each source roll | `C12_source_rolls_in_order` |
| `roll.r` (object identity) | model by construction (the record of a node is built by that node's clause) + identity checks on the real record in the correspondence |
-/
namespace Dyce
open List

theorem C12_all_reachable_owned (r : RTree) :
    AllW (fun rec => rec.wellOwned = true) (rollW mkRollDeep r) := rollW_wellOwned r

theorem C12_pinned_counterexample :
    ∃ e ∈ rollW mkRollTop
        (.bin (· + ·) (.rep 2 (.value (.hist [(1, 1), (2, 1)]))) (.value (.scalar 1))),
      e.1.wellOwned = false := pinned_unowned_witness

/-- associating only the outcomes and their direct sources is not enough either: a three-step custom
operator leaves an intermediate outcome without a roll -/
theorem C12_one_hop_counterexample :
    ∃ e ∈ rollW mkRollOneHop
        (.unChain [(· - 4), (fun a => (a.natAbs : Int)), (· * 2)] (.value (.hist [(1, 1), (2, 1)]))),
      e.1.wellOwned = false := oneHop_unowned_witness

theorem C12_outcomes_are_live_values (outs : List RO) (srs : List RollRec) :
    (mkRollDeep outs srs).values = outs.filterMap RO.value := keepsValues_deep outs srs

theorem C12_values_follow_denotation (r : RTree) :
    mapW RollRec.values (rollW mkRollDeep r) = den r := values_rollW mkRollDeep keepsValues_deep r

/-- reachable = the outcome itself or anything below it through `sources` -/
theorem C12_live_sources_accounted (t : RTree) (hns : ∀ p e rep md src, t ≠ .subst p e rep md src)
    (hsel : SelResolves t) : AllW Accounted (rollW mkRollDeep t) := rollW_accounted t hns hsel

theorem C12_live_sources_accounted_subst (p : Int → Bool) (e : RTree) (replace : Bool) (md : Nat) (src : RTree) :
    AllW Accounted (rollW mkRollDeep (.subst p e replace md src)) := rollW_accounted_subst p e replace md src

/-- the recorded source rolls are, in order, rolls of the node's sources (see `SrcShape`) -/
theorem C12_source_rolls_in_order (t : RTree) :
    AllW (fun rec => SrcShape t rec.sourceRolls) (rollW mkRollDeep t) := rollW_srcShape t

/-- non-vacuity: `2@d2` records two source rolls, each a roll of the d2 -/
example : SrcShape (.rep 2 (.value (.hist [(1, 1), (2, 1)])))
    [mkRollDeep [.mk (some 1) [] false] [], mkRollDeep [.mk (some 2) [] false] []] := by
  refine ⟨rfl, ?_⟩
  intro r hr
  simp only [List.mem_cons, List.not_mem_nil, or_false] at hr
  have hp : ∀ {β} (b : β), (b, 1) ∈ (pure b : W β) := fun b => List.mem_singleton.mpr rfl
  rcases hr with rfl | rfl
  · refine ⟨1, ?_⟩
    rw [rollW, W.bind_def, List.mem_flatMap]
    exact ⟨(1, 1), by simp [rollHist, total], by simpa using hp _⟩
  · refine ⟨1, ?_⟩
    rw [rollW, W.bind_def, List.mem_flatMap]
    exact ⟨(2, 1), by simp [rollHist, total], by simpa using hp _⟩

/-- how many source rolls a node records (substitution: one per expansion, not fixed) -/
def expectedSrcRolls : RTree → Option Nat
  | .value _ => some 0
  | .pool srcs => some srcs.length
  | .rep n _ => some n
  | .bin _ _ _ => some 2
  | .un _ _ => some 1
  | .unChain _ _ => some 1
  | .filt _ srcs => some srcs.length
  | .sel _ srcs => some srcs.length
  | .substMap _ _ _ _ => some 1
  | .subst _ _ _ _ _ => none

theorem rollAllW_length : ∀ (srcs : List RTree),
    AllW (fun l => l.length = srcs.length) (rollAllW mkRollDeep srcs)
  | [] => AllW_pure _ _ rfl
  | s :: ss => by
    rw [rollAllW]
    refine AllW_bind (fun _ => True) _ _ _ (AllW_true _) (fun r _ => ?_)
    refine AllW_bind _ _ _ _ (rollAllW_length ss) (fun l hl => ?_)
    exact AllW_pure _ _ (by simp [hl])

theorem replicateW_length {β} (n : Nat) (x : W β) : AllW (fun l => l.length = n) (replicateW n x) := by
  induction n with
  | zero => exact AllW_pure _ _ rfl
  | succ n ih =>
    simp only [replicateW]
    refine AllW_bind (fun _ => True) _ _ _ (AllW_true _) (fun a _ => ?_)
    refine AllW_bind _ _ _ _ ih (fun l hl => ?_)
    exact AllW_pure _ _ (by simp [hl])

theorem C12_source_rolls_count (t : RTree) (n : Nat) (h : expectedSrcRolls t = some n) :
    AllW (fun rec => rec.sourceRolls.length = n) (rollW mkRollDeep t) := by
  cases t with
  | value l =>
    simp only [expectedSrcRolls, Option.some.injEq] at h; subst h
    cases l with
    | scalar v => rw [rollW]; exact AllW_pure _ _ rfl
    | hist hh =>
      rw [rollW]
      exact AllW_bind (fun _ => True) _ _ _ (AllW_true _) (fun v _ => AllW_pure _ _ rfl)
    | pool hs =>
      rw [rollW]
      exact AllW_bind (fun _ => True) _ _ _ (AllW_true _) (fun v _ => AllW_pure _ _ rfl)
  | pool srcs =>
    simp only [expectedSrcRolls, Option.some.injEq] at h; subst h
    rw [rollW]
    exact AllW_bind _ _ _ _ (rollAllW_length srcs) (fun rs hrs => AllW_pure _ _ hrs)
  | rep m src =>
    simp only [expectedSrcRolls, Option.some.injEq] at h; subst h
    rw [rollW]
    exact AllW_bind _ _ _ _ (replicateW_length m _) (fun rs hrs => AllW_pure _ _ hrs)
  | bin op l r =>
    simp only [expectedSrcRolls, Option.some.injEq] at h; subst h
    rw [rollW]
    refine AllW_bind (fun _ => True) _ _ _ (AllW_true _) (fun rl _ => ?_)
    exact AllW_bind (fun _ => True) _ _ _ (AllW_true _) (fun rr _ => AllW_pure _ _ rfl)
  | un op s =>
    simp only [expectedSrcRolls, Option.some.injEq] at h; subst h
    rw [rollW]
    exact AllW_bind (fun _ => True) _ _ _ (AllW_true _) (fun rs _ => AllW_pure _ _ rfl)
  | unChain ops s =>
    simp only [expectedSrcRolls, Option.some.injEq] at h; subst h
    rw [rollW]
    exact AllW_bind (fun _ => True) _ _ _ (AllW_true _) (fun rs _ => AllW_pure _ _ rfl)
  | filt p srcs =>
    simp only [expectedSrcRolls, Option.some.injEq] at h; subst h
    rw [rollW]
    exact AllW_bind _ _ _ _ (rollAllW_length srcs) (fun rs hrs => AllW_pure _ _ hrs)
  | sel which srcs =>
    simp only [expectedSrcRolls, Option.some.injEq] at h; subst h
    rw [rollW]
    refine AllW_bind _ _ _ _ (rollAllW_length srcs) (fun rs hrs => ?_)
    simp only
    split <;> exact AllW_pure _ _ hrs
  | substMap p f md src =>
    simp only [expectedSrcRolls, Option.some.injEq] at h; subst h
    rw [rollW]
    exact AllW_bind (fun _ => True) _ _ _ (AllW_true _) (fun sr _ => AllW_pure _ _ rfl)
  | subst p e rep md src => simp [expectedSrcRolls] at h

end Dyce
