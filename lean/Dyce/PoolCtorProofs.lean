import Dyce.PoolCtorModel
import Dyce.Karonen
import Dyce.PoolHProofs
import Mathlib.Data.List.Perm.Basic
import Mathlib.Data.List.Count

namespace Dyce
open List

variable {α : Type} [DecidableEq α] {le : α → α → Bool}

theorem lexLe_refl (hle : TotalOrderB le) : ∀ a : Hist α, lexLe le a a = true
  | [] => rfl
  | (a, c) :: as => by simp [lexLe, lexLe_refl hle as]

theorem lexLe_total (hle : TotalOrderB le) : ∀ a b : Hist α, (lexLe le a b || lexLe le b a) = true
  | [], _ => by simp [lexLe]
  | _ :: _, [] => by simp [lexLe]
  | (a, c) :: as, (b, d) :: bs => by
    by_cases hab : a = b
    · subst hab
      by_cases hcd : c = d
      · subst hcd; simpa [lexLe] using lexLe_total hle as bs
      · have : d ≠ c := fun h => hcd h.symm
        simp only [lexLe, if_true, hcd, this, if_false, Bool.or_eq_true, decide_eq_true_eq]; omega
    · have hba : ¬ b = a := fun h => hab h.symm
      simp only [lexLe, hab, hba, if_false]
      exact hle.total a b

theorem lexLe_antisymm (hle : TotalOrderB le) : ∀ a b : Hist α, lexLe le a b = true → lexLe le b a = true → a = b
  | [], [], _, _ => rfl
  | [], _ :: _, _, h => by simp [lexLe] at h
  | _ :: _, [], h, _ => by simp [lexLe] at h
  | (a, c) :: as, (b, d) :: bs, h₁, h₂ => by
    by_cases hab : a = b
    · subst hab
      by_cases hcd : c = d
      · subst hcd
        simp only [lexLe, if_true] at h₁ h₂
        rw [lexLe_antisymm hle as bs h₁ h₂]
      · have : d ≠ c := fun h => hcd h.symm
        simp only [lexLe, if_true, hcd, this, if_false, decide_eq_true_eq] at h₁ h₂; omega
    · have hba : ¬ b = a := fun h => hab h.symm
      simp only [lexLe, hab, hba, if_false] at h₁ h₂
      exact absurd (hle.antisymm a b h₁ h₂) hab

theorem lexLe_trans (hle : TotalOrderB le) : ∀ a b c : Hist α,
    lexLe le a b = true → lexLe le b c = true → lexLe le a c = true
  | [], _, _, _, _ => by simp [lexLe]
  | _ :: _, [], _, h, _ => by simp [lexLe] at h
  | _ :: _, _ :: _, [], _, h => by simp [lexLe] at h
  | (a, x) :: as, (b, y) :: bs, (c, z) :: cs, h₁, h₂ => by
    by_cases hab : a = b
    · subst hab
      by_cases hbc : a = c
      · subst hbc
        simp only [lexLe, if_true] at h₁ h₂ ⊢
        by_cases hxy : x = y
        · subst hxy
          simp only [if_true] at h₁
          by_cases hxz : x = z
          · subst hxz; simp only [if_true] at h₂ ⊢; exact lexLe_trans hle as bs cs h₁ h₂
          · simp only [hxz, if_false] at h₂ ⊢; exact h₂
        · simp only [hxy, if_false, decide_eq_true_eq] at h₁
          by_cases hyz : y = z
          · subst hyz; simp only [hxy, if_false, decide_eq_true_eq]; exact h₁
          · simp only [hyz, if_false, decide_eq_true_eq] at h₂
            have : x ≠ z := by omega
            simp only [this, if_false, decide_eq_true_eq]; omega
      · simp only [lexLe, if_true, hbc, if_false] at h₁ h₂ ⊢; exact h₂
    · by_cases hbc : b = c
      · subst hbc
        simp only [lexLe, hab, if_false] at h₁ ⊢; exact h₁
      · simp only [lexLe, hab, hbc, if_false] at h₁ h₂
        have hac := hle.trans a b c h₁ h₂
        by_cases hac' : a = c
        · subst hac'
          exact absurd (hle.antisymm a b h₁ h₂) hab
        · simp only [lexLe, hac', if_false]; exact hac

theorem lexLe_order (hle : TotalOrderB le) : TotalOrderB (lexLe (α := α) le) where
  refl := lexLe_refl hle
  trans := lexLe_trans hle
  total := lexLe_total hle
  antisymm := lexLe_antisymm hle

/-- sorting is canonical: permuted inputs sort to the same list -/
theorem sort_perm_eq {β : Type} {r : β → β → Bool} (hr : TotalOrderB r) {l₁ l₂ : List β} (hp : l₁ ~ l₂) :
    l₁.mergeSort r = l₂.mergeSort r := by
  have h1 : (l₁.mergeSort r).Pairwise (fun a b => r a b = true) :=
    List.pairwise_mergeSort (le := r) hr.trans hr.total l₁
  have h2 : (l₂.mergeSort r).Pairwise (fun a b => r a b = true) :=
    List.pairwise_mergeSort (le := r) hr.trans hr.total l₂
  have hperm : l₁.mergeSort r ~ l₂.mergeSort r :=
    (List.mergeSort_perm l₁ r).trans (hp.trans (List.mergeSort_perm l₂ r).symm)
  exact List.Perm.eq_of_pairwise (fun a b _ _ hab hba => hr.antisymm a b hab hba) h1 h2 hperm

theorem canonDice_perm (hle : TotalOrderB le) {hs₁ hs₂ : List (Hist α)} (hp : hs₁ ~ hs₂) :
    canonDice le hs₁ = canonDice le hs₂ :=
  sort_perm_eq (lexLe_order hle) (hp.filter _)

/-- **C04**: `P(...)` ignores the order of its arguments -/
theorem mkPool_perm (hle : TotalOrderB le) {args₁ args₂ : List (PArg α)} (hp : args₁ ~ args₂) :
    mkPool le args₁ = mkPool le args₂ :=
  canonDice_perm hle (hp.flatMap_right _)

theorem canonDice_perm_filter (hs : List (Hist α)) :
    canonDice le hs ~ hs.filter (fun h => total h ≠ 0) := List.mergeSort_perm _ _

theorem canonDice_idem (hle : TotalOrderB le) (hs : List (Hist α)) :
    canonDice le (canonDice le hs) = canonDice le hs := by
  apply sort_perm_eq (lexLe_order hle)
  have := (canonDice_perm_filter (le := le) hs).filter (fun h => total h ≠ 0)
  simpa using this

/-- **C04**: nested pools are flattened: `P(a…, P(b…), c…) = P(a…, b…, c…)` -/
theorem mkPool_flatten (hle : TotalOrderB le) (a c : List (PArg α)) (b : List (PArg α)) :
    mkPool le (a ++ [PArg.pool (mkPool le b)] ++ c) = mkPool le (a ++ b ++ c) := by
  unfold mkPool
  apply sort_perm_eq (lexLe_order hle)
  simp only [List.flatMap_append, List.flatMap_cons, List.flatMap_nil, List.append_nil, PArg.dice,
    List.filter_append]
  refine (List.Perm.append_right _ (List.Perm.append_left _ ?_))
  have := (canonDice_perm_filter (le := le) (b.flatMap PArg.dice)).filter (fun h => total h ≠ 0)
  simpa using this

/-- **C04**: empty (zero-total) histograms are dropped -/
theorem mkPool_drop_empty (hle : TotalOrderB le) (a c : List (PArg α)) (h : Hist α) (h0 : total h = 0) :
    mkPool le (a ++ [PArg.hist h] ++ c) = mkPool le (a ++ c) := by
  unfold mkPool canonDice
  simp [List.flatMap_append, PArg.dice, List.filter_append, h0]

/-- every die of a pool has a positive total, and the dice are in canonical order -/
theorem mkPool_invariant (hle : TotalOrderB le) (args : List (PArg α)) :
    (∀ h ∈ mkPool le args, 0 < total h) ∧ (mkPool le args).Pairwise (fun a b => lexLe le a b = true) := by
  constructor
  · intro h hh
    have := (List.mergeSort_perm _ _).mem_iff.mp hh
    simp only [List.mem_filter, decide_eq_true_eq] at this
    omega
  · exact List.pairwise_mergeSort (le := lexLe le) (lexLe_trans hle) (lexLe_total hle) _

/-- **C04**: `P.total` is the total weight of the Cartesian product (1 for the empty pool) -/
theorem poolTotal_eq (dice : List (Hist α)) :
    poolTotal dice = wsum (poolTuples dice) (fun _ => 1) := by
  induction dice with
  | nil => simp [poolTotal, poolTuples, wsum]
  | cons h ds ih =>
    rw [wsum_poolTuples_cons]
    simp only [poolTotal, List.map_cons, List.prod_cons] at ih ⊢
    rw [← ih]
    clear ih
    induction h with
    | nil => simp [total, wsum]
    | cons e h ih2 => simp only [total_cons, wsum_cons, ih2, Nat.add_mul]

theorem poolTotal_nil : poolTotal ([] : List (Hist α)) = 1 := rfl

/-- **C04**: `n @ p` holds exactly `n` copies of every die of `p` -/
theorem matmulP_count (n : Nat) (dice : List (Hist α)) (hpos : ∀ h ∈ dice, total h ≠ 0) (d : Hist α) :
    (matmulP le n dice).count d = n * dice.count d := by
  unfold matmulP
  rw [(canonDice_perm_filter (le := le) _).count_eq]
  have hall : ∀ h ∈ (List.replicate n dice).flatten, total h ≠ 0 := by
    intro h hh
    simp only [List.mem_flatten, List.mem_replicate] at hh
    obtain ⟨l, ⟨_, rfl⟩, hl⟩ := hh
    exact hpos h hl
  rw [List.filter_eq_self.mpr (by intro h hh; simpa using hall h hh)]
  induction n with
  | zero => simp
  | succ n ih =>
    rw [List.replicate_succ, List.flatten_cons, List.count_append]
    rw [ih (by
      intro h hh
      apply hall
      rw [List.replicate_succ, List.flatten_cons]
      exact List.mem_append_right _ hh)]
    ring

/-- a sorted permutation of `replicate n h` is `replicate n h` -/
theorem canonDice_replicate (n : Nat) (h : Hist α) (h0 : total h ≠ 0) :
    canonDice le (List.replicate n h) = List.replicate n h := by
  have hp := canonDice_perm_filter (le := le) (List.replicate n h)
  rw [List.filter_eq_self.mpr (by intro x hx; rw [List.eq_of_mem_replicate hx]; simpa using h0)] at hp
  exact List.eq_replicate_of_mem (fun x hx => List.eq_of_mem_replicate (hp.mem_iff.mp hx)) ▸
    (by rw [hp.length_eq, List.length_replicate])

end Dyce

namespace Dyce
open List

section
variable {α : Type} [DecidableEq α] [AddCommMonoid α]

/-- **C04**: `(m+n) @ h` has the counts of `m@h + n@h` (`m, n ≥ 1`) -/
theorem matmulH_add (le : α → α → Bool) (m n : Nat) (hm : 0 < m) (hn : 0 < n) (h : Hist α) (z : α) :
    countOf z (matmulH le 0 (· + ·) (m + n) h)
      = countOf z (mapH le (· + ·) (matmulH le 0 (· + ·) m h) (matmulH le 0 (· + ·) n h)) := by
  rw [countOf_matmulH, countOf_mapH, wsum_matmulH]
  have h1 : m + n ≠ 0 := by omega
  have h2 : m ≠ 0 := by omega
  have h3 : n ≠ 0 := by omega
  simp only [h1, h2, if_false]
  rw [← poolTuples_replicate h (m + n), List.replicate_add, wsum_poolTuples_append,
    poolTuples_replicate, poolTuples_replicate]
  apply wsum_congr; intro t1 _
  rw [wsum_matmulH]
  simp only [h3, if_false]
  apply wsum_congr; intro t2 _
  simp only [foldl_add_eq_sum, List.sum_append]

/-- **C04**: `(n @ P(h)).h() = n @ h` (for a histogram with a positive count) -/
theorem pool_h_matmul (le : α → α → Bool) (n : Nat) (h : Hist α) (h0 : total h ≠ 0) :
    sumH le 0 (· + ·) (matmulP le n (mkPool le [PArg.hist h])) = matmulH le 0 (· + ·) n h := by
  have h1 : mkPool le [PArg.hist h] = [h] := by
    simp [mkPool, canonDice, PArg.dice, h0]
  rw [h1]
  unfold matmulP
  have : (List.replicate n [h]).flatten = List.replicate n h := by
    induction n with
    | zero => rfl
    | succ n ih => simp [List.replicate_succ, ih]
  rw [this, canonDice_replicate n h h0]
  rfl

end
end Dyce
