import Dyce.OrderStatModel
import Dyce.PoolModel
/-! Import-free model of `P.appearances_in_rolls(outcome)`: one binomial histogram per group of
identical dice, summed. -/
namespace Dyce

variable {α : Type}

def appearances [DecidableEq α] (dice : List (Hist α)) (o : α) : Hist Nat :=
  sumH natLe 0 (· + ·)
    ((groupsOf dice).map fun g =>
      ofItems natLe ((List.range (g.2 + 1)).map fun k => (k, exactlyK g.1 o g.2 k)))

end Dyce
