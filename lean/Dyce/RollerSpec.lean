import Dyce.RollerModel
/-! Compositional denotation of a roller tree: the weighted list of outcome tuples, with no roll
records at all. -/
namespace Dyce

def insertI (x : Int) : List Int → List Int
  | [] => [x]
  | y :: ys => if x ≤ y then x :: y :: ys else y :: insertI x ys
def sortI (l : List Int) : List Int := l.foldr insertI []

/-- values-only reading of the substitution loop -/
def denExpand (p : Int → Bool) (denE : W (List Int)) (replace : Bool) : Nat → List Int → W (List Int)
  | 0, vs => pure vs
  | k + 1, vs =>
    vs.foldl
      (fun acc v => do
        let outs ← acc
        if p v then do
          let ev ← denE
          let sub ← denExpand p denE replace k ev
          pure (outs ++ (if replace then [] else [v]) ++ sub)
        else pure (outs ++ [v]))
      (pure [])

mutual
def denAll : List RTree → W (List Int)
  | [] => pure []
  | s :: ss => do
    let a ← den s
    let b ← denAll ss
    pure (a ++ b)

def den : RTree → W (List Int)
  | .value (.scalar v) => pure [v]
  | .value (.hist h) => do
    let v ← rollHist h
    pure [v]
  | .value (.pool hs) => do
    let vs ← hs.foldr (fun h acc => do let v ← rollHist h; let r ← acc; pure (v :: r)) (pure [])
    pure (vs.mergeSort fun a b => decide (a ≤ b))
  | .pool srcs => denAll srcs
  | .rep n src => do
    let rs ← replicateW n (den src)
    pure rs.flatten
  | .bin op l r => do
    let a ← den l
    let b ← den r
    pure [op a.sum b.sum]
  | .un op s => do
    let a ← den s
    pure [op a.sum]
  | .unChain ops s => do
    let a ← den s
    pure [ops.foldl (fun v f => f v) a.sum]
  | .filt p srcs => do
    let vs ← denAll srcs
    pure (vs.filter p)
  | .sel which srcs => do
    let vs ← denAll srcs
    let sorted := sortI vs
    match resolve sorted.length which with
    | .error _ => pure []
    | .ok idxs => pure (idxs.filterMap fun j => sorted[j]?)
  | .subst p e replace maxDepth src => do
    let vs ← den src
    denExpand p (den e) replace maxDepth vs
  | .substMap p f maxDepth src => do
    let vs ← den src
    pure (if maxDepth = 0 then vs else vs.map fun v => if p v then f v else v)
end

end Dyce
