import Dyce.RollerModel
/-! Compositional denotation of a roller tree: the weighted list of outcome tuples, with no roll
records at all. -/
namespace Dyce

def insertI (x : Int) : List Int → List Int
  | [] => [x]
  | y :: ys => if x < y then x :: y :: ys else y :: insertI x ys
def sortI (l : List Int) : List Int := l.foldr insertI []

mutual
def denAll : List RTree → W (List Int)
  | [] => pure []
  | s :: ss => do
    let a ← den s
    let b ← denAll ss
    pure (a ++ b)

def den : RTree → W (List Int)
  | .value (.scalar v) => pure [v]
  | .value (.hist h) => do
    let v ← rollHist h
    pure [v]
  | .value (.pool hs) => do
    let vs ← hs.foldr (fun h acc => do let v ← rollHist h; let r ← acc; pure (v :: r)) (pure [])
    pure (vs.mergeSort fun a b => decide (a ≤ b))
  | .pool srcs => denAll srcs
  | .rep n src => do
    let rs ← replicateW n (den src)
    pure rs.flatten
  | .bin op l r => do
    let a ← den l
    let b ← den r
    pure [op a.sum b.sum]
  | .un op s => do
    let a ← den s
    pure [op a.sum]
  | .filt p srcs => do
    let vs ← denAll srcs
    pure (vs.filter p)
  | .sel which srcs => do
    let vs ← denAll srcs
    let sorted := sortI vs
    match resolve sorted.length which with
    | .error _ => pure []
    | .ok idxs => pure (idxs.filterMap fun j => sorted[j]?)
end

end Dyce
