import Dyce.Model
import Dyce.SelectModel
/-! Import-free model of `P.rolls_with_counts` (dispatch, homogeneous / heterogeneous strategies,
padding, final `getitems`). Rolls are `List (Option α)`; `none` is a padding slot (`fill=0` /
`±inf` in Python) that a correct selection never reads. -/
namespace Dyce

variable {α : Type}

/-- Cartesian product of a list of dice with multiplied counts -/
def poolTuples : List (Hist α) → List (List α × Nat)
  | [] => [([], 1)]
  | h :: ds => h.flatMap fun xc => (poolTuples ds).map fun tw => (xc.1 :: tw.1, xc.2 * tw.2)

/-- `getitems(roll, which)` on already resolved positions -/
def takeIdxs (roll : List (Option α)) (idxs : List Nat) : List (Option α) :=
  idxs.map fun j => match roll[j]? with
    | some (some x) => some x
    | _ => none

/-- `_rwc_homogeneous_n_h_using_partial_selection(n, h, k)` without fill -/
def rwcHomogRaw (n : Nat) (h : Hist α) (k : Int) : List (List α × Nat) :=
  let kk := k.natAbs
  if kk = 0 ∨ kk > n then []
  else if k < 0 then rwcHomogHigh n h kk else rwcHomogLow n h kk

/-- the same with `fill`: non-selected positions are padding -/
def rwcHomogFill (n : Nat) (h : Hist α) (k : Int) : List (List (Option α) × Nat) :=
  let kk := k.natAbs
  (rwcHomogRaw n h k).map fun e =>
    (if k < 0 then List.replicate (n - kk) none ++ e.1.map some
     else e.1.map some ++ List.replicate (n - kk) none, e.2)

/-- consecutive identical dice, with multiplicities (`groupby`) -/
def groupsOf [DecidableEq α] : List (Hist α) → List (Hist α × Nat)
  | [] => []
  | h :: ds =>
    match groupsOf ds with
    | (h', n) :: gs => if h = h' then (h, n + 1) :: gs else (h, 1) :: (h', n) :: gs
    | [] => [(h, 1)]

/-- `itertools.product` over the per-group enumerations: concatenated rolls, multiplied counts -/
def combos : List (List (List α × Nat)) → List (List α × Nat)
  | [] => [([], 1)]
  | g :: gs => g.flatMap fun e => (combos gs).map fun f => (e.1 ++ f.1, e.2 * f.2)

/-- `_rwc_heterogeneous_h_groups(groups, k)` -/
def rwcHetero (le : α → α → Bool) (groups : List (Hist α × Nat)) (k : Option Int) :
    List (List (Option α) × Nat) :=
  let totalN := (groups.map (·.2)).sum
  let per := groups.map fun g =>
    rwcHomogRaw g.2 g.1 (match k with
      | some k' => if k' ≠ 0 ∧ k'.natAbs < g.2 then k' else g.2
      | none => g.2)
  match groups with
  | [] => []
  | _ =>
    (combos per).map fun e =>
      let s := (sortBy le e.1).map some
      (match k with
        | none => s
        | some k' =>
          if k' < 0 then List.replicate (totalN - s.length) none ++ s
          else s ++ List.replicate (totalN - s.length) none, e.2)

/-- the enumeration strategy chosen for analysed selection `i` (before the final `getitems`) -/
def rawRolls [DecidableEq α] (le : α → α → Bool) (dice : List (Hist α)) (i : Option Int) :
    List (List (Option α) × Nat) :=
  let n := dice.length
  match groupsOf dice with
  | [(h, _)] =>
    match i with
    | some i' =>
      if i' ≠ 0 ∧ i'.natAbs < n then rwcHomogFill n h i'
      else (rwcHomogRaw n h n).map fun e => (e.1.map some, e.2)
    | none => (rwcHomogRaw n h n).map fun e => (e.1.map some, e.2)
  | gs => rwcHetero le gs i

/-- the final `getitems(sorted_outcomes_for_roll, which)` -/
def finishRolls (idxs? : Option (List Nat)) (rolls : List (List (Option α) × Nat)) :
    List (List (Option α) × Nat) :=
  rolls.map fun e =>
    (match idxs? with
      | none => e.1
      | some idxs => takeIdxs e.1 idxs, e.2)

/-- `P.rolls_with_counts(*which)` -/
def rollsWithCounts [DecidableEq α] (le : α → α → Bool) (dice : List (Hist α)) (which : List Sel) :
    Except PyErr (List (List (Option α) × Nat)) := do
  let n := dice.length
  let idxs? ← match which with
    | [] => pure none
    | _ => (resolve n which).map some
  let i : Option Int := match idxs? with
    | none => some n
    | some idxs => analyze n idxs
  if i = some 0 ∨ n = 0 then pure []
  else pure (finishRolls idxs? (rawRolls le dice i))

/-- **Specification** (the sentence of C02): enumerate the Cartesian product, sort each result
ascending, pick the selected positions in the order given. -/
def specRWC [DecidableEq α] (le : α → α → Bool) (dice : List (Hist α)) (idxs : List Nat)
    (r : List (Option α)) : Nat :=
  wsum (poolTuples dice) fun t =>
    if takeIdxs ((sortBy le t).map some) idxs = r then 1 else 0

end Dyce
