import Dyce.PoolHModel
import Dyce.PoolMain
import Dyce.HistProofs
import Mathlib.Algebra.BigOperators.Group.List.Basic
import Mathlib.Algebra.Group.Basic
import Mathlib.Tactic.Abel

namespace Dyce
open List

variable {α : Type} [DecidableEq α]

/-! ### `P.h()` without arguments: the sum of the dice -/

theorem wsum_foldl_mapH_dice (le : α → α → Bool) (add : α → α → α) (ds : List (Hist α))
    (A : Hist α) (G : α → Nat) :
    wsum (ds.foldl (fun acc g => mapH le add acc g) A) G
      = wsum A (fun a => wsum (poolTuples ds) (fun t => G (t.foldl add a))) := by
  induction ds generalizing A with
  | nil => simp [poolTuples, wsum]
  | cons d ds ih =>
    rw [List.foldl_cons, ih, wsum_mapH]
    apply wsum_congr
    intro a _
    rw [wsum_poolTuples_cons]
    rfl

/-- **C03/C04**: `p.h()` is the sum of the dice -/
theorem wsum_sumH (le : α → α → Bool) (zero : α) (add : α → α → α) (dice : List (Hist α))
    (G : α → Nat) :
    wsum (sumH le zero add dice) G
      = if dice = [] then 0 else wsum (poolTuples dice) (fun t => G (t.foldl add zero)) := by
  cases dice with
  | nil => simp [sumH]
  | cons d ds =>
    simp only [sumH, List.cons_ne_nil, if_false]
    rw [wsum_foldl_mapH_dice, wsum_umapH, wsum_poolTuples_cons]
    rfl

theorem sumH_replicate (le : α → α → Bool) (zero : α) (add : α → α → α) (n : Nat) (h : Hist α) :
    sumH le zero add (List.replicate n h) = matmulH le zero add n h := rfl

/-! ### the enumeration path -/

/-- the sum of the selected positions of the sorted roll -/
def selSum (le : α → α → Bool) (zero : α) (add : α → α → α) (idxs : List Nat) (t : List α) : α :=
  sumRoll zero add (takeIdxs ((sortBy le t).map some) idxs)

theorem viaRolls_count {le : α → α → Bool} (zero : α) (add : α → α → α)
    (dice : List (Hist α)) (idxs : List Nat) (L : List (List (Option α) × Nat))
    (hL : ∀ r, countOf r L = if idxs = [] ∨ dice = [] then 0 else specRWC le dice idxs r)
    (z : α) :
    countOf z (ofItems le (L.map fun e => (sumRoll zero add e.1, e.2)))
      = if idxs = [] ∨ dice = [] then 0
        else wsum (poolTuples dice) (fun t => if selSum le zero add idxs t = z then 1 else 0) := by
  rw [countOf_ofItems, countOf_map_key]
  by_cases h0 : idxs = [] ∨ dice = []
  · simp only [h0, if_true] at hL ⊢
    -- every aggregated count is zero, so the weighted sum is zero
    have hz : ∀ e ∈ L, e.2 = 0 := by
      intro e he
      have := hL e.1
      unfold countOf at this
      by_contra hne
      have hpos : 0 < wsum L (fun b => if b = e.1 then 1 else 0) := by
        clear this hL
        induction L with
        | nil => simp at he
        | cons b L ih =>
          simp only [List.mem_cons] at he
          rcases he with rfl | he
          · simp only [wsum_cons, if_true]; omega
          · have := ih he; simp only [wsum_cons]; omega
      omega
    have : ∀ (L' : List (List (Option α) × Nat)), (∀ e ∈ L', e.2 = 0) → ∀ F, wsum L' F = 0 := by
      intro L'
      induction L' with
      | nil => intros; rfl
      | cons b L' ih =>
        intro hb F
        simp only [wsum_cons]
        rw [hb b (by simp), ih (fun e he => hb e (by simp [he]))]
        simp
    exact this L hz _
  · simp only [h0, if_false] at hL ⊢
    symm
    exact wsum_pushforward (poolTuples dice)
      (fun t => takeIdxs ((sortBy le t).map some) idxs) L hL
      (fun r => if sumRoll zero add r = z then 1 else 0)

end Dyce

namespace Dyce
open List

variable {α : Type} [DecidableEq α] [AddCommMonoid α]

theorem sumRoll_eq_sum (l : List α) : sumRoll (0 : α) (· + ·) (l.map some) = l.sum := by
  unfold sumRoll
  rw [List.foldl_map]
  have : ∀ (acc : α), l.foldl (fun acc x => acc + x) acc = acc + l.sum := by
    induction l with
    | nil => intro acc; simp
    | cons x l ih => intro acc; simp [ih, add_assoc]
  simpa using this 0

theorem foldl_add_eq_sum (t : List α) : t.foldl (· + ·) (0 : α) = t.sum := by
  have : ∀ (acc : α), t.foldl (· + ·) acc = acc + t.sum := by
    induction t with
    | nil => intro acc; simp
    | cons x l ih => intro acc; simp [ih, add_assoc]
  simpa using this 0

/-- reading each of the `n` positions exactly `c` times sums to `c` times the whole roll -/
theorem sum_takeIdxs_uniform (s : List α) (idxs : List Nat) (c : Nat)
    (hlt : ∀ j ∈ idxs, j < s.length) (hc : ∀ p, p < s.length → idxs.count p = c) :
    sumRoll (0 : α) (· + ·) (takeIdxs (s.map some) idxs) = c • s.sum := by
  -- all positions are in range, so the read-out is `idxs.map s[·]`
  have hread : takeIdxs (s.map some) idxs = (idxs.map fun j => s.getD j 0).map some := by
    unfold takeIdxs
    rw [List.map_map]
    apply List.map_congr_left
    intro j hj
    have := hlt j hj
    simp [List.getElem?_map, List.getElem?_eq_getElem this, List.getD_eq_getElem?_getD]
  rw [hread, sumRoll_eq_sum]
  -- Σ_{j ∈ idxs} s[j] = Σ_p count(p) • s[p]
  have key : ∀ (idxs : List Nat), (∀ j ∈ idxs, j < s.length) →
      (idxs.map fun j => s.getD j 0).sum
        = ((List.range s.length).map fun p => idxs.count p • s.getD p 0).sum := by
    intro idxs
    induction idxs with
    | nil => intro _; simp
    | cons j js ih =>
      intro h
      have hj : j < s.length := h j (by simp)
      rw [List.map_cons, List.sum_cons, ih (fun x hx => h x (by simp [hx]))]
      have : ∀ (n : Nat), j < n →
          ((List.range n).map fun p => (j :: js).count p • s.getD p 0).sum
            = s.getD j 0 + ((List.range n).map fun p => js.count p • s.getD p 0).sum := by
        intro n
        induction n with
        | zero => intro h0; omega
        | succ n ihn =>
          intro hjn
          rw [List.range_succ, List.map_append, List.sum_append, List.map_append, List.sum_append]
          simp only [List.map_cons, List.map_nil, List.sum_cons, List.sum_nil, add_zero]
          by_cases hjn' : j = n
          · subst hjn'
            have hz : ((List.range j).map fun p => (j :: js).count p • s.getD p 0)
                = (List.range j).map fun p => js.count p • s.getD p 0 := by
              apply List.map_congr_left
              intro p hp
              have : p ≠ j := by have := List.mem_range.mp hp; omega
              simp [List.count_cons, this.symm]
            rw [hz]
            simp only [List.count_cons_self, succ_nsmul]
            abel
          · have hlt' : j < n := by omega
            rw [ihn hlt']
            have : (j :: js).count n = js.count n := by
              simp [List.count_cons, hjn']
            rw [this]
            abel
      rw [this s.length hj]
  rw [key idxs hlt]
  have : ((List.range s.length).map fun p => idxs.count p • s.getD p 0)
      = (List.range s.length).map fun p => c • s.getD p 0 := by
    apply List.map_congr_left
    intro p hp
    rw [hc p (List.mem_range.mp hp)]
  rw [this]
  have hsum : ((List.range s.length).map fun p => c • s.getD p 0).sum
      = c • ((List.range s.length).map fun p => s.getD p 0).sum := by
    induction (List.range s.length) with
    | nil => simp
    | cons a l ih => rw [List.map_cons, List.sum_cons, List.map_cons, List.sum_cons, nsmul_add, ih]
  rw [hsum]
  congr 1
  have : (List.range s.length).map (fun p => s.getD p 0) = s := by
    apply List.ext_getElem
    · simp
    · intro i h1 h2
      simp [List.getD_eq_getElem?_getD, List.getElem?_eq_getElem h2]
  rw [this]

end Dyce

namespace Dyce
open List

variable {α : Type} [DecidableEq α] [AddCommMonoid α] {le : α → α → Bool}

/-- **C03, no selection** -/
theorem poolH_nosel (dice : List (Hist α)) (smul : Nat → α → α) (z : α) :
    ∃ H, poolH le 0 (· + ·) smul dice [] = .ok H ∧
      countOf z H = if dice = [] then 0
        else wsum (poolTuples dice) (fun t => if t.sum = z then 1 else 0) := by
  refine ⟨sumH le 0 (· + ·) dice, rfl, ?_⟩
  unfold countOf
  rw [wsum_sumH]
  by_cases h : dice = []
  · simp [h]
  · simp only [h, if_false]
    apply wsum_congr
    intro tw _
    apply ite_one_zero_congr
    rw [foldl_add_eq_sum]

/-- **C03, with a selection**: `P.h(*which)` — short-circuit and enumeration paths alike — is the
histogram of the sum of the selected positions of the ascending-sorted roll over all rolls, with
exact counts. -/
theorem poolH_sel (hle : TotalOrderB le) (dice : List (Hist α)) (hd : DiceOK le dice)
    (s : Sel) (ss : List Sel) :
    (∀ e, resolve dice.length (s :: ss) = .error e →
        poolH le 0 (· + ·) (fun m x => m • x) dice (s :: ss) = .error e) ∧
    (∀ idxs, resolve dice.length (s :: ss) = .ok idxs →
      ∃ H, poolH le 0 (· + ·) (fun m x => m • x) dice (s :: ss) = .ok H ∧
        ∀ z, countOf z H =
          if idxs = [] ∨ dice = [] then 0
          else wsum (poolTuples dice)
            (fun t => if selSum le 0 (· + ·) idxs t = z then 1 else 0)) := by
  constructor
  · intro e he
    unfold poolH
    simp only [he, bind, Except.bind]
  · intro idxs hres
    have hlt := resolve_lt dice.length (s :: ss) idxs hres
    obtain ⟨L, hL, hLc⟩ := (rollsWithCounts_sel hle dice hd s ss).2 idxs hres
    have hvia : ∀ z, countOf z (ofItems le (L.map fun e => (sumRoll 0 (· + ·) e.1, e.2)))
        = if idxs = [] ∨ dice = [] then 0
          else wsum (poolTuples dice)
            (fun t => if selSum le 0 (· + ·) idxs t = z then 1 else 0) :=
      fun z => viaRolls_count 0 (· + ·) dice idxs L hLc z
    unfold poolH viaRolls
    simp only [hres, hL, bind, Except.bind, pure, Except.pure]
    cases hi : analyze dice.length idxs with
    | none => exact ⟨_, rfl, hvia⟩
    | some i =>
      simp only
      by_cases hshort : i ≠ 0 ∧ i ≥ (dice.length : Int)
      · -- every position selected the same number of times
        rw [if_pos hshort]
        refine ⟨_, rfl, ?_⟩
        intro z
        have hidx : idxs ≠ [] := by
          intro h; subst h
          simp [analyze] at hi
          exact hshort.1 hi.symm
        obtain ⟨c, hc0, hic, hcnt⟩ := (analyze_sound dice.length idxs hlt i hi).2.2.2 hshort.2 hidx
        have hn : 0 < dice.length := by
          cases idxs with
          | nil => exact absurd rfl hidx
          | cons j js => have := hlt j (by simp); omega
        have hne : dice ≠ [] := List.ne_nil_of_length_pos hn
        have hdiv : (i / (dice.length : Int)).toNat = c := by
          rw [hic]
          push_cast
          rw [Int.mul_ediv_cancel_left _ (by omega : (dice.length : Int) ≠ 0)]
          simp
        have hnot : ¬ (idxs = [] ∨ dice = []) := by
          intro hh; rcases hh with hh | hh
          · exact hidx hh
          · exact hne hh
        rw [if_neg hnot, hdiv]
        unfold countOf
        rw [wsum_umapH, wsum_sumH]
        simp only [hne, if_false]
        apply wsum_congr
        intro tw htw
        apply ite_one_zero_congr
        have hl : (sortBy le tw.1).length = dice.length := by
          rw [(sortBy_perm le tw.1).length_eq, mem_poolTuples_length htw]
        unfold selSum
        rw [sum_takeIdxs_uniform (sortBy le tw.1) idxs c (by rw [hl]; exact hlt)
          (by rw [hl]; exact hcnt)]
        rw [(sortBy_perm le tw.1).sum_eq, foldl_add_eq_sum]
      · rw [if_neg hshort]
        exact ⟨_, rfl, hvia⟩

end Dyce

namespace Dyce
open List

variable {α : Type} [DecidableEq α] [AddCommMonoid α] {le : α → α → Bool}

theorem sumRoll_eq_sum_getD (l : List (Option α)) :
    sumRoll (0 : α) (· + ·) l = (l.map fun o => o.getD 0).sum := by
  have key : ∀ (acc : α), l.foldl (fun acc o => match o with | some x => acc + x | none => acc) acc
      = acc + (l.map fun o => o.getD 0).sum := by
    induction l with
    | nil => intro acc; simp
    | cons o l ih =>
      intro acc
      rw [List.foldl_cons, ih, List.map_cons, List.sum_cons]
      cases o with
      | none => simp
      | some x => simp [add_assoc]
  unfold sumRoll
  have := key 0
  rw [zero_add] at this
  exact this

/-- the sum of the selected positions does not depend on the order in which they are listed -/
theorem selSum_perm (t : List α) {idxs₁ idxs₂ : List Nat} (hp : idxs₁ ~ idxs₂) :
    selSum le 0 (· + ·) idxs₁ t = selSum le 0 (· + ·) idxs₂ t := by
  unfold selSum
  rw [sumRoll_eq_sum_getD, sumRoll_eq_sum_getD]
  unfold takeIdxs
  rw [List.map_map, List.map_map]
  exact (hp.map _).sum_eq

end Dyce
