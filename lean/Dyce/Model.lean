/-! Import-free executable model (prototype) -/
namespace Dyce

abbrev Hist (α : Type) := List (α × Nat)

def total {α} (h : Hist α) : Nat := (h.map Prod.snd).sum

/-- All `n`-tuples of faces, each with weight = product of the face counts. -/
def tuples {α} (h : Hist α) : Nat → List (List α × Nat)
  | 0 => [([], 1)]
  | n+1 => h.flatMap fun xc => (tuples h n).map fun tw => (xc.1 :: tw.1, xc.2 * tw.2)

/-- weighted sum of `f` over a weighted list -/
def wsum {β} (l : List (β × Nat)) (f : β → Nat) : Nat := (l.map fun bw => bw.2 * f bw.1).sum

/-- Python's `sorted` with the outcome order `le` -/
def sortBy {α} (le : α → α → Bool) (t : List α) : List α := t.mergeSort le

/-- aggregated count of `r` in a weighted list -/
def countOf {β} [DecidableEq β] (r : β) (l : List (β × Nat)) : Nat :=
  wsum l (fun b => if b = r then 1 else 0)

/-- `math.comb` -/
def comb : Nat → Nat → Nat
  | _, 0 => 1
  | 0, _+1 => 0
  | n+1, k+1 => comb n k + comb n (k+1)

/-- `H.exactly_k_times_in_n` with the count `c` of the outcome already looked up. -/
def headCount (T c n i : Nat) : Nat := comb n i * c ^ i * (T - c) ^ (n - i)

/-- Count-domain Karonen recursion (low `k` of `n`, `h` ascending). -/
def karonen {α} : Hist α → Nat → Nat → List (List α × Nat)
  | [], n, _ => [([], 0 ^ n)]
  | [(m, c)], n, k => [(List.replicate k m, c ^ n)]
  | (m, c) :: rest, n, k =>
    let T := total ((m, c) :: rest)
    ((List.range k).flatMap fun i =>
        let hc := headCount T c n i
        if hc = 0 then [] else
          (karonen rest (n - i) (k - i)).map fun tw =>
            (List.replicate i m ++ tw.1, comb n i * c ^ i * tw.2))
      ++ [(List.replicate k m, T ^ n - ((List.range k).map (headCount T c n)).sum)]

/-- Probability-domain Karonen recursion exactly as `_selected_distros_memoized` computes it
(low end): entries `(roll, numerator, denominator)`, products unreduced, remainder reduced. -/
def selCore {α} : Hist α → Nat → Nat → List (List α × Nat × Nat)
  | [], _, _ => [([], 1, 1)]
  | [(m, _)], _, k => [(List.replicate k m, 1, 1)]
  | (m, c) :: rest, n, k =>
    let T := total ((m, c) :: rest)
    ((List.range k).flatMap fun i =>
        let hc := headCount T c n i
        if hc = 0 then [] else
          (selCore rest (n - i) (k - i)).map fun e =>
            (List.replicate i m ++ e.1, hc * e.2.1, T ^ n * e.2.2))
      ++ [(List.replicate k m,
            (T ^ n - ((List.range k).map (headCount T c n)).sum)
              / Nat.gcd (T ^ n - ((List.range k).map (headCount T c n)).sum) (T ^ n),
            T ^ n / Nat.gcd (T ^ n - ((List.range k).map (headCount T c n)).sum) (T ^ n))]

/-- The same recursion for the high end (`from_right=True`): `xs` lists the faces in descending
order (`max(h)` first) and the block of extreme faces goes *after* the tail (`tail + head`). -/
def selCoreR {α} : Hist α → Nat → Nat → List (List α × Nat × Nat)
  | [], _, _ => [([], 1, 1)]
  | [(m, _)], _, k => [(List.replicate k m, 1, 1)]
  | (m, c) :: rest, n, k =>
    let T := total ((m, c) :: rest)
    ((List.range k).flatMap fun i =>
        let hc := headCount T c n i
        if hc = 0 then [] else
          (selCoreR rest (n - i) (k - i)).map fun e =>
            (e.1 ++ List.replicate i m, hc * e.2.1, T ^ n * e.2.2))
      ++ [(List.replicate k m,
            (T ^ n - ((List.range k).map (headCount T c n)).sum)
              / Nat.gcd (T ^ n - ((List.range k).map (headCount T c n)).sum) (T ^ n),
            T ^ n / Nat.gcd (T ^ n - ((List.range k).map (headCount T c n)).sum) (T ^ n))]

/-- high end, no fill -/
def rwcHomogHigh {α} (n : Nat) (h : Hist α) (k : Nat) : List (List α × Nat) :=
  (selCoreR h.reverse n k).map fun e => (e.1, total h ^ n * e.2.1 / e.2.2)

/-- `_rwc_homogeneous_n_h_using_partial_selection` (low end, no fill): `T^n * num // den`. -/
def rwcHomogLow {α} (n : Nat) (h : Hist α) (k : Nat) : List (List α × Nat) :=
  (selCore h n k).map fun e => (e.1, total h ^ n * e.2.1 / e.2.2)

end Dyce
