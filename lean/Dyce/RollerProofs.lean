import Dyce.RollerSpec
import Mathlib.Tactic.Common
import Mathlib.Data.List.Basic

namespace Dyce
open List

/-! ### the weighted-list monad -/

def mapW {β γ} (g : β → γ) (x : W β) : W γ := x.map fun e => (g e.1, e.2)

theorem W.bind_def {β γ} (x : W β) (f : β → W γ) :
    (x >>= f) = x.flatMap fun bw => (f bw.1).map fun cw => (cw.1, bw.2 * cw.2) := rfl

theorem W.pure_def {β} (b : β) : (pure b : W β) = [(b, 1)] := rfl

theorem mapW_pure {β γ} (g : β → γ) (b : β) : mapW g (pure b : W β) = pure (g b) := rfl

theorem mapW_bind {β γ δ} (g : γ → δ) (x : W β) (f : β → W γ) :
    mapW g (x >>= f) = x >>= fun a => mapW g (f a) := by
  simp only [W.bind_def, mapW, List.map_flatMap, List.map_map, Function.comp_def]

theorem bind_mapW {β γ δ} (g : β → γ) (x : W β) (f : γ → W δ) :
    (mapW g x >>= f) = x >>= fun a => f (g a) := by
  simp only [W.bind_def, mapW, List.flatMap_map]

theorem bind_pure_mapW {β γ} (g : β → γ) (x : W β) :
    (x >>= fun a => (pure (g a) : W γ)) = mapW g x := by
  have h : (x >>= fun a => (pure (g a) : W γ))
      = x.flatMap fun bw => ([(g bw.1, 1)] : W γ).map fun cw => (cw.1, bw.2 * cw.2) := rfl
  rw [h]
  unfold mapW
  clear h
  induction x with
  | nil => rfl
  | cons e l ih =>
    simp only [List.map_cons, List.map_nil, Nat.mul_one] at ih
    simp only [List.flatMap_cons, List.map_cons, List.map_nil, Nat.mul_one,
      List.singleton_append, ih]

theorem values_single (x : Int) (srcs : List RO) (o : Bool) :
    [RO.mk (some x) srcs o].filterMap RO.value = [x] := rfl

theorem chainRO_value (ops : List (Int → Int)) (a : RO) (v : Int) (ha : a.value = some v) :
    (chainRO ops a).value = some (ops.foldl (fun v f => f v) v) := by
  induction ops generalizing a v with
  | nil => simpa [chainRO] using ha
  | cons f fs ih =>
    rw [chainRO, List.foldl_cons]
    exact ih _ _ (by rw [ha]; rfl)

theorem bind_congr_W {β γ} (x : W β) (f g : β → W γ) (h : ∀ a, f a = g a) :
    (x >>= f) = (x >>= g) := by
  have : f = g := funext h
  rw [this]

/-! ### values of records -/

theorem RO.value_own (ro : RO) : ro.own.value = ro.value := by cases ro; rfl

/-- what the fusion theorem needs from `Roll.__init__`: it does not touch values -/
def KeepsValues (mk : List RO → List RollRec → RollRec) : Prop :=
  ∀ outs srs, (mk outs srs).values = outs.filterMap RO.value

theorem keepsValues_top : KeepsValues mkRollTop := by
  intro outs srs
  simp only [mkRollTop, RollRec.values, RollRec.outcomes, List.filterMap_map, Function.comp_def,
    RO.value_own]

theorem RO.value_ownDeep (ro : RO) : ro.ownDeep.value = ro.value := by
  cases ro with
  | mk v s o => unfold RO.ownDeep; split <;> rfl

theorem filterMap_ownDeepList (l : List RO) :
    (RO.ownDeepList l).filterMap RO.value = l.filterMap RO.value := by
  induction l with
  | nil => rfl
  | cons x l ih => simp only [RO.ownDeepList, List.filterMap_cons, RO.value_ownDeep, ih]

theorem keepsValues_deep : KeepsValues mkRollDeep := by
  intro outs srs
  simp only [mkRollDeep, RollRec.values, RollRec.outcomes, filterMap_ownDeepList]

theorem values_live (rs : List RollRec) :
    (liveOutcomes rs).filterMap RO.value = rs.flatMap RollRec.values := by
  unfold liveOutcomes
  rw [List.filterMap_filter]
  induction rs with
  | nil => rfl
  | cons r rs ih =>
    simp only [List.flatMap_cons, List.filterMap_append, ih, RollRec.values]
    congr 1
    apply List.filterMap_congr
    intro ro _
    cases h : ro.value <;> simp [h]

theorem sumOperand_value (sr : RollRec) : (sumOperand sr).value = some sr.values.sum := by
  unfold sumOperand
  split
  · rename_i ro heq
    split
    · rename_i hsome
      simp only [RollRec.values, heq, List.filterMap_cons, List.filterMap_nil]
      cases hv : ro.value with
      | none => simp [hv] at hsome
      | some v => simp
    · rfl
  · rfl

end Dyce

namespace Dyce
open List

theorem mapW_replicateW {β γ} (g : β → γ) (n : Nat) (x : W β) :
    mapW (fun l => l.map g) (replicateW n x) = replicateW n (mapW g x) := by
  induction n with
  | zero => rfl
  | succ n ih =>
    simp only [replicateW]
    rw [mapW_bind, bind_mapW]
    apply bind_congr_W
    intro a
    rw [mapW_bind, ← ih, bind_mapW]
    rfl

theorem euthanize_value (ro : RO) : (euthanize ro).value = none := rfl

theorem values_filter_map (p : Int → Bool) (l : List RO) (hl : ∀ ro ∈ l, ro.value.isSome) :
    (l.map fun ro => if p (ro.value.getD 0) then ro else euthanize ro).filterMap RO.value
      = (l.filterMap RO.value).filter p := by
  induction l with
  | nil => rfl
  | cons ro l ih =>
    have h1 := hl ro (by simp)
    have ih' := ih (fun r hr => hl r (by simp [hr]))
    cases hv : ro.value with
    | none => simp [hv] at h1
    | some v =>
      simp only [List.map_cons, List.filterMap_cons, hv, Option.getD_some]
      by_cases hp : p v = true
      · simp only [hp, if_true, hv, List.filter_cons_of_pos, ih']
      · have hp' : p v = false := by simpa using hp
        simp only [hp', Bool.false_eq_true, if_false, euthanize_value]
        rw [List.filter_cons_of_neg (by simp [hp']), ih']

theorem live_isSome (rs : List RollRec) : ∀ ro ∈ liveOutcomes rs, ro.value.isSome := by
  intro ro h
  unfold liveOutcomes at h
  exact (List.mem_filter.mp h).2

/-- insertion by value commutes with taking values -/
theorem insertRO_values (x : RO) (l : List RO) (hx : x.value.isSome)
    (hl : ∀ ro ∈ l, ro.value.isSome) :
    (insertRO x l).filterMap RO.value = insertI (x.value.getD 0) (l.filterMap RO.value) := by
  induction l with
  | nil =>
    cases hv : x.value with
    | none => simp [hv] at hx
    | some v => simp [insertRO, insertI, hv]
  | cons y ys ih =>
    have hy := hl y (by simp)
    have ih' := ih (fun r hr => hl r (by simp [hr]))
    cases hvx : x.value with
    | none => simp [hvx] at hx
    | some vx =>
      cases hvy : y.value with
      | none => simp [hvy] at hy
      | some vy =>
        simp only [insertRO, hvx, hvy, Option.getD_some, List.filterMap_cons, insertI]
        by_cases hlt : vx ≤ vy
        · simp [hlt, hvx, hvy]
        · simp only [hlt, if_false, List.filterMap_cons, hvy]
          rw [ih']
          simp [hvx]

theorem insertRO_isSome (x : RO) (l : List RO) (hx : x.value.isSome)
    (hl : ∀ ro ∈ l, ro.value.isSome) : ∀ ro ∈ insertRO x l, ro.value.isSome := by
  induction l with
  | nil => intro ro h; simp [insertRO] at h; subst h; exact hx
  | cons y ys ih =>
    intro ro h
    unfold insertRO at h
    split at h
    · simp only [List.mem_cons] at h
      rcases h with rfl | rfl | h
      · exact hx
      · exact hl _ (by simp)
      · exact hl _ (by simp [h])
    · simp only [List.mem_cons] at h
      rcases h with rfl | h
      · exact hl _ (by simp)
      · exact ih (fun r hr => hl r (by simp [hr])) ro h

theorem sortRO_values (l : List RO) (hl : ∀ ro ∈ l, ro.value.isSome) :
    (sortRO l).filterMap RO.value = sortI (l.filterMap RO.value)
    ∧ ∀ ro ∈ sortRO l, ro.value.isSome := by
  induction l with
  | nil => exact ⟨rfl, by simp [sortRO]⟩
  | cons x l ih =>
    have hx := hl x (by simp)
    obtain ⟨ih1, ih2⟩ := ih (fun r hr => hl r (by simp [hr]))
    constructor
    · have hfold : sortRO (x :: l) = insertRO x (sortRO l) := rfl
      rw [hfold, insertRO_values x _ hx ih2, ih1]
      cases hv : x.value with
      | none => simp [hv] at hx
      | some v => simp [sortI, hv]
    · have hfold : sortRO (x :: l) = insertRO x (sortRO l) := rfl
      rw [hfold]
      exact insertRO_isSome x _ hx ih2

end Dyce

namespace Dyce
open List

theorem filterMap_all_some (l : List RO) (hl : ∀ ro ∈ l, ro.value.isSome) :
    (l.filterMap RO.value).length = l.length ∧
    ∀ j : Nat, (l.filterMap RO.value)[j]? = (l[j]?).bind RO.value := by
  induction l with
  | nil => simp
  | cons x l ih =>
    have hx := hl x (by simp)
    obtain ⟨ih1, ih2⟩ := ih (fun r hr => hl r (by simp [hr]))
    cases hv : x.value with
    | none => simp [hv] at hx
    | some v =>
      simp only [List.filterMap_cons, hv, List.length_cons, ih1, true_and]
      intro j
      cases j with
      | zero => simp [hv]
      | succ j =>
        rw [List.getElem?_cons_succ, List.getElem?_cons_succ]
        exact ih2 j

theorem sel_values (sorted : List RO) (hs : ∀ ro ∈ sorted, ro.value.isSome) (idxs : List Nat)
    (excluded : List Nat) :
    ((idxs.filterMap fun j => sorted[j]?) ++
        excluded.filterMap fun j => (sorted[j]?).map euthanize).filterMap RO.value
      = idxs.filterMap fun j => (sorted.filterMap RO.value)[j]? := by
  rw [List.filterMap_append]
  have h2 : (excluded.filterMap fun j => (sorted[j]?).map euthanize).filterMap RO.value = [] := by
    rw [List.filterMap_eq_nil_iff]
    intro ro hro
    rw [List.mem_filterMap] at hro
    obtain ⟨j, _, hj⟩ := hro
    cases hs' : sorted[j]? with
    | none => simp [hs'] at hj
    | some r => simp [hs'] at hj; subst hj; rfl
  rw [h2, List.append_nil, List.filterMap_filterMap]
  apply List.filterMap_congr
  intro j _
  rw [(filterMap_all_some sorted hs).2 j]

variable (mk : List RO → List RollRec → RollRec) (hmk : KeepsValues mk)
include hmk

/-! ### the substitution loop -/

omit hmk in
theorem RO.value_adoptAppend (o ro : RO) : (RO.adoptAppend o ro).value = ro.value := by
  cases ro; rfl

omit hmk in
theorem filterMap_filter_isSome (l : List RO) :
    (l.filter fun ro => ro.value.isSome).filterMap RO.value = l.filterMap RO.value := by
  induction l with
  | nil => rfl
  | cons a l ih =>
    cases hv : a.value with
    | none => simp [List.filter_cons, hv, ih]
    | some v => simp [List.filter_cons, hv, ih]

omit hmk in
theorem filterMap_adoptAppend (o : RO) (l : List RO) :
    (l.map (RO.adoptAppend o)).filterMap RO.value = l.filterMap RO.value := by
  rw [List.filterMap_map]
  congr 1
  funext ro
  exact RO.value_adoptAppend o ro

omit hmk in
theorem RO.value_mk (v : Option Int) (srcs : List RO) (o : Bool) : (RO.mk v srcs o).value = v := rfl

omit hmk in
theorem filterMap_substMap (p : Int → Bool) (f : Int → Int) (l : List RO) (hl : ∀ o ∈ l, o.value.isSome) :
    (l.map fun o => if p (o.value.getD 0) then RO.mk (some (f (o.value.getD 0))) [o] false else o).filterMap RO.value
      = (l.filterMap RO.value).map fun v => if p v then f v else v := by
  induction l with
  | nil => rfl
  | cons o l ih =>
    have ho := hl o (by simp)
    obtain ⟨v, hv⟩ := Option.isSome_iff_exists.mp ho
    have ih' := ih (fun o' ho' => hl o' (by simp [ho']))
    rw [List.map_cons, List.filterMap_cons, List.filterMap_cons, hv, ih']
    by_cases hp : p v = true
    · simp only [Option.getD_some, hp, if_true, RO.value_mk, List.map_cons]
    · simp only [Option.getD_some, hp, Bool.false_eq_true, if_false, hv, List.map_cons]

/-- what a step of the substitution loop yields, as values -/
def stepVals (res : List RO × List RollRec) : List Int := res.1.filterMap RO.value

/-- **substitution, values**: forgetting the records, `_expanded_roll_outcomes` is `denExpand` -/
theorem values_expandW (p : Int → Bool) (rollE : W RollRec) (denE : W (List Int))
    (hE : mapW RollRec.values rollE = denE) (replace : Bool) :
    ∀ (k : Nat) (roll : RollRec),
      mapW stepVals (expandW mk p rollE replace k roll) = denExpand p denE replace k roll.values := by
  subst hE
  intro k
  induction k with
  | zero =>
    intro roll
    rw [expandW, denExpand, mapW_pure]
    simp only [stepVals, filterMap_filter_isSome]
    rfl
  | succ k ih =>
    intro roll
    rw [expandW, denExpand]
    have hvals : roll.values = (roll.outcomes.filter fun ro => ro.value.isSome).filterMap RO.value := by
      rw [filterMap_filter_isSome]; rfl
    rw [hvals]
    have hlive : ∀ o ∈ (roll.outcomes.filter fun ro => ro.value.isSome), o.value.isSome := by
      intro o ho; simpa using (List.mem_filter.mp ho).2
    generalize (roll.outcomes.filter fun ro => ro.value.isSome) = l at hlive
    -- the fold, for arbitrary accumulators
    have key : ∀ (l : List RO), (∀ o ∈ l, o.value.isSome) →
        ∀ (acc : W (List RO × List RollRec)) (dacc : W (List Int)), mapW stepVals acc = dacc →
        mapW stepVals (l.foldl
          (fun acc o => do
            let st ← acc
            if p (o.value.getD 0) then do
              let er ← rollE
              let adopted := mk (er.outcomes.map (RO.adoptAppend o)) er.sourceRolls
              let sub ← expandW mk p rollE replace k adopted
              pure (st.1 ++ [if replace then euthanize o else o] ++ sub.1, st.2 ++ sub.2)
            else pure (st.1 ++ [o], st.2)) acc)
        = (l.filterMap RO.value).foldl
          (fun acc v => do
            let outs ← acc
            if p v then do
              let ev ← mapW RollRec.values rollE
              let sub ← denExpand p (mapW RollRec.values rollE) replace k ev
              pure (outs ++ (if replace then [] else [v]) ++ sub)
            else pure (outs ++ [v])) dacc := by
      intro l
      induction l with
      | nil => intro _ acc dacc h; simpa using h
      | cons o l ihl =>
        intro hl acc dacc hacc
        have ho : o.value.isSome := hl o (by simp)
        obtain ⟨v, hv⟩ := Option.isSome_iff_exists.mp ho
        rw [List.foldl_cons]
        have hfm : (o :: l).filterMap RO.value = v :: l.filterMap RO.value := by
          simp [List.filterMap_cons, hv]
        rw [hfm, List.foldl_cons]
        apply ihl (fun o' ho' => hl o' (by simp [ho']))
        -- one step
        rw [mapW_bind, ← hacc, bind_mapW]
        apply bind_congr_W
        intro st
        simp only [hv, Option.getD_some]
        by_cases hp : p v = true
        · simp only [hp, if_true]
          rw [mapW_bind, bind_mapW]
          apply bind_congr_W
          intro er
          rw [mapW_bind]
          have hadopt : (mk (er.outcomes.map (RO.adoptAppend o)) er.sourceRolls).values = er.values := by
            rw [hmk, filterMap_adoptAppend]; rfl
          rw [← hadopt, ← ih, bind_mapW]
          apply bind_congr_W
          intro sub
          rw [mapW_pure]
          congr 1
          simp only [stepVals, List.filterMap_append]
          cases replace with
          | true => simp [euthanize, RO.value]
          | false => simp [hv]
        · simp only [hp, Bool.false_eq_true, if_false]
          rw [mapW_pure]
          congr 1
          simp [stepVals, List.filterMap_append, hv]
    exact key l hlive _ _ rfl

mutual
/-- **C11 core (fusion)**: forgetting the records, the roller semantics is the compositional
denotation -/
theorem values_rollAllW : ∀ (rs : List RTree),
    mapW (fun l => l.flatMap RollRec.values) (rollAllW mk rs) = denAll rs
  | [] => rfl
  | s :: ss => by
    rw [rollAllW, denAll, mapW_bind, ← values_rollW s, bind_mapW]
    apply bind_congr_W
    intro r
    rw [mapW_bind, ← values_rollAllW ss, bind_mapW]
    rfl

theorem values_rollW : ∀ (r : RTree), mapW RollRec.values (rollW mk r) = den r
  | .value (.scalar v) => by
    rw [rollW, den, mapW_pure, hmk]
    rfl
  | .value (.hist h) => by
    rw [rollW, den, mapW_bind]
    apply bind_congr_W
    intro v
    rw [mapW_pure, hmk]
    rfl
  | .value (.pool hs) => by
    rw [rollW, den, mapW_bind]
    apply bind_congr_W
    intro vs
    rw [mapW_pure, hmk]
    simp [List.filterMap_map, Function.comp_def, RO.value]
  | .pool srcs => by
    rw [rollW, den, mapW_bind, ← values_rollAllW srcs, ← bind_pure_mapW]
    apply bind_congr_W
    intro rs
    rw [mapW_pure, hmk, values_live]
  | .rep n src => by
    rw [rollW, den, mapW_bind, ← values_rollW src, ← mapW_replicateW, bind_mapW]
    apply bind_congr_W
    intro rs
    rw [mapW_pure, hmk, values_live]
    simp [List.flatMap_def]
  | .bin op l r => by
    rw [rollW, den, mapW_bind, ← values_rollW l, bind_mapW]
    apply bind_congr_W
    intro rl
    rw [mapW_bind, ← values_rollW r, bind_mapW]
    apply bind_congr_W
    intro rr
    rw [mapW_pure, hmk, values_single, sumOperand_value, sumOperand_value]
    rfl
  | .un op s => by
    rw [rollW, den, mapW_bind, ← values_rollW s, bind_mapW]
    apply bind_congr_W
    intro rs
    rw [mapW_pure, hmk, values_single, sumOperand_value]
    rfl
  | .unChain ops s => by
    rw [rollW, den, mapW_bind, ← values_rollW s, bind_mapW]
    apply bind_congr_W
    intro rs
    rw [mapW_pure, hmk]
    have h := chainRO_value ops (sumOperand rs) _ (sumOperand_value rs)
    simp only [List.filterMap_cons, List.filterMap_nil, h]
  | .filt p srcs => by
    rw [rollW, den, mapW_bind, ← values_rollAllW srcs, bind_mapW]
    apply bind_congr_W
    intro rs
    rw [mapW_pure, hmk, values_filter_map p _ (live_isSome rs), values_live]
  | .sel which srcs => by
    rw [rollW, den, mapW_bind, ← values_rollAllW srcs, bind_mapW]
    apply bind_congr_W
    intro rs
    have hsorted := sortRO_values (liveOutcomes rs) (live_isSome rs)
    have hlen : (sortRO (liveOutcomes rs)).length = (sortI (rs.flatMap RollRec.values)).length := by
      rw [← values_live, ← hsorted.1, (filterMap_all_some _ hsorted.2).1]
    simp only [hlen]
    cases resolve (sortI (rs.flatMap RollRec.values)).length which with
    | error e =>
      simp only [mapW_pure]
      rw [hmk]
      rfl
    | ok idxs =>
      simp only [mapW_pure]
      rw [hmk, sel_values _ hsorted.2, hsorted.1, values_live]
  | .subst p e replace maxDepth src => by
    rw [rollW, den, mapW_bind, ← values_rollW src, bind_mapW]
    apply bind_congr_W
    intro sr
    rw [mapW_bind, ← values_expandW mk hmk p (rollW mk e) (den e) (values_rollW e) replace maxDepth sr,
      ← bind_pure_mapW]
    apply bind_congr_W
    intro res
    rw [mapW_pure, hmk]
    rfl
  | .substMap p f maxDepth src => by
    rw [rollW, den, mapW_bind, ← values_rollW src, bind_mapW]
    apply bind_congr_W
    intro sr
    rw [mapW_pure, hmk]
    congr 1
    by_cases hm : maxDepth = 0
    · simp only [hm, if_true, filterMap_filter_isSome]; rfl
    · simp only [hm, if_false]
      have hvals : sr.values = (sr.outcomes.filter fun ro => ro.value.isSome).filterMap RO.value := by
        rw [filterMap_filter_isSome]; rfl
      rw [hvals]
      have hlive : ∀ o ∈ (sr.outcomes.filter fun ro => ro.value.isSome), o.value.isSome := by
        intro o ho; simpa using (List.mem_filter.mp ho).2
      exact filterMap_substMap p f _ hlive
end

end Dyce
