import Dyce.EvalSpec
/-! Fuel independence for whole-number limits: when every limit in play is a whole number `≤ N`,
the nesting depth never exceeds `N`, so any two fuels that leave room for `N + 1` nested evaluations
give the same result — the fuel (standing for the interpreter stack) is then not observable. -/
namespace Dyce

variable {α ρ : Type}

/-- a limit argument (or inherited limit) that is absent or a whole number `≤ N` -/
def LimOK (N : Nat) (lim : Option Limit) : Prop := ∀ l, lim = some l → ∃ n, n ≤ N ∧ l = .int n

/-- every nested evaluation a callback program can request carries an absent or whole-number limit `≤ N` -/
inductive Prog.LimBounded (N : Nat) : Prog α ρ → Prop where
  | ret (r : Ret α) : Prog.LimBounded N (.ret r)
  | throw (e : Err) : Prog.LimBounded N (.throw e)
  | call (fn : Nat) (srcs : List (Src ρ)) (lim : Option Limit) (k : Hist α → Prog α ρ)
      (hl : LimOK N lim) (hk : ∀ h, Prog.LimBounded N (k h)) : Prog.LimBounded N (.call fn srcs lim k)

theorem specProg_congr (N : Nat) (sv₁ sv₂ : Nat → List (Src ρ) → Option Limit → Ctx → Except Err (Hist α))
    (ctx : Ctx) (hsv : ∀ fn srcs lim, LimOK N lim → sv₁ fn srcs lim ctx = sv₂ fn srcs lim ctx)
    (p : Prog α ρ) (hp : p.LimBounded N) : specProg sv₁ ctx p = specProg sv₂ ctx p := by
  induction hp with
  | ret r => rfl
  | throw e => rfl
  | call fn srcs lim k hl _ ih =>
    simp only [specProg, hsv fn srcs lim hl]
    split
    · exact ih _
    · rfl

theorem specBranch_foldl_congr (N : Nat)
    (sv₁ sv₂ : Nat → List (Src ρ) → Option Limit → Ctx → Except Err (Hist α)) (f : Fn α ρ)
    (hf : ∀ args, (f.body args).LimBounded N) (mkCtx : Nat → Ctx)
    (hsv : ∀ cc fn srcs lim, LimOK N lim → sv₁ fn srcs lim (mkCtx cc) = sv₂ fn srcs lim (mkCtx cc))
    (bs : List (List ρ × Nat)) (acc : Except Err (List (Ret α × Nat))) :
    bs.foldl (specBranch sv₁ f mkCtx) acc = bs.foldl (specBranch sv₂ f mkCtx) acc := by
  induction bs generalizing acc with
  | nil => rfl
  | cons b bs ih =>
    simp only [List.foldl_cons]
    have : specBranch sv₁ f mkCtx acc b = specBranch sv₂ f mkCtx acc b := by
      unfold specBranch
      cases acc with
      | error e => rfl
      | ok sofar =>
        simp only
        rw [specProg_congr N sv₁ sv₂ (mkCtx b.2) (hsv b.2) _ (hf b.1)]
    rw [this, ih]

/-- **fuel independence**: all limits whole numbers `≤ N` ⇒ the result does not depend on the fuel,
as long as it leaves room for the `N + 1 - depth` nested evaluations that can still happen -/
theorem specEval_fuel_indep (env : Nat → Fn α ρ) (agg : List (Ret α × Nat) → Hist α)
    (lowest : Hist α → Hist α) (N : Nat) (hN : 1 ≤ N)
    (henv : ∀ fn args, ((env fn).body args).LimBounded N)
    (fuel₁ fuel₂ fn : Nat) (srcs : List (Src ρ)) (lim : Option Limit) (cur : Ctx)
    (hlim : LimOK N lim) (hcur : LimOK N cur.limit)
    (h₁ : 1 ≤ fuel₁ ∧ N + 1 ≤ fuel₁ + cur.depth) (h₂ : 1 ≤ fuel₂ ∧ N + 1 ≤ fuel₂ + cur.depth) :
    specEval env agg lowest fuel₁ fn srcs lim cur = specEval env agg lowest fuel₂ fn srcs lim cur := by
  induction fuel₁ generalizing fuel₂ fn srcs lim cur with
  | zero => omega
  | succ f₁ ih =>
    obtain ⟨f₂, rfl⟩ : ∃ f₂, fuel₂ = f₂ + 1 := ⟨fuel₂ - 1, by omega⟩
    -- the limit in force is a whole number ≤ N
    obtain ⟨n, hn, hnl⟩ : ∃ n, n ≤ N ∧ (lim.orElse fun _ => cur.limit).getD (.int 1) = .int n := by
      cases lim with
      | some l =>
        obtain ⟨n, hn, rfl⟩ := hlim l rfl
        exact ⟨n, hn, rfl⟩
      | none =>
        cases hc : cur.limit with
        | some l =>
          obtain ⟨n, hn, rfl⟩ := hcur l hc
          exact ⟨n, hn, by simp [Option.orElse]⟩
        | none => exact ⟨1, hN, by simp [Option.orElse]⟩
    simp only [specEval, hnl]
    by_cases hcut : cutNow (.int n) cur = true
    · simp only [hcut, if_true]
    · simp only [hcut]
      have hd : cur.depth < n := by
        simp only [cutNow, decide_eq_true_eq] at hcut; omega
      have hcong := specBranch_foldl_congr N (specEval env agg lowest f₁) (specEval env agg lowest f₂) (env fn)
        (henv fn)
        (fun cc => (⟨some (.int n), cur.depth + 1, cur.precNum * cc, cur.precDen * srcTotal srcs⟩ : Ctx))
        (by
          intro cc fn' srcs' lim' hl'
          apply ih
          · exact hl'
          · intro l hl; simp only [Option.some.injEq] at hl; exact ⟨n, hn, hl.symm⟩
          · simp only; omega
          · simp only; omega)
        (branches srcs) (.ok [])
      simp only [Bool.false_eq_true, if_false] at hcong ⊢
      rw [hcong]

end Dyce
