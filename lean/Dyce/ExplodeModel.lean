import Dyce.EvalConcrete
import Dyce.EvalSpec
/-! Import-free model of `evaluation.explode(h, predicate, limit)` as an instance of the evaluator,
and the truncated re-roll process it is supposed to compute. -/
namespace Dyce

/-- a histogram as an evaluation source: its items are the results, each face once -/
def srcOfHist (h : Hist Int) : Src Int := ⟨h, total h⟩

/-- the decorated `_explode` callback: `_explode(h_result.h) + outcome` if the predicate holds for
the face, else the face; the sentinel is `h` -/
def explodeFn (h : Hist Int) (pred : Int → Bool) : Fn Int Int :=
  ⟨fun ids =>
      match ids with
      | [f] =>
        if pred f then .call 0 [srcOfHist h] none fun r => .ret (.hist (umapH leInt (· + f) r))
        else .ret (.out f)
      | _ => .throw .typeError,
    h⟩

/-- `explode(h, pred, limit)` run on the evaluator model -/
def explodeEval (fuel : Nat) (h : Hist Int) (pred : Int → Bool) (lim : Option Limit) (cell : Cell) :
    Except Err (Hist Int) × Cell :=
  evalFn (fun _ => explodeFn h pred) (aggregateWeighted leInt) (lowestTerms leInt) fuel 0 [srcOfHist h] lim cell

/-- **the truncated re-roll process**: with `k` re-rolls still allowed, roll `h`; a face satisfying
the predicate is added to the (recursively) re-rolled total, any other face is kept; with no
re-roll left the roll is kept as is -/
def explodeSpec (h : Hist Int) (pred : Int → Bool) : Nat → Hist Int
  | 0 => h
  | k + 1 =>
    aggregateWeighted leInt
      (h.map fun fc =>
        (if pred fc.1 then Ret.hist (umapH leInt (· + fc.1) (explodeSpec h pred k)) else Ret.out fc.1, fc.2))

end Dyce
