import Dyce.EvalConcrete
import Dyce.EvalSpec
/-! Import-free model of `evaluation.explode(h, predicate, limit)` as an instance of the evaluator,
and the truncated re-roll process it is supposed to compute. -/
namespace Dyce

/-- a histogram as an evaluation source: its items are the results, each face once -/
def srcOfHist (h : Hist Int) : Src Int := ⟨h, total h⟩

/-- the decorated `_explode` callback: `_explode(h_result.h) + outcome` if the predicate holds for
the face, else the face; the sentinel is `h` -/
def explodeFn (h : Hist Int) (pred : Int → Bool) : Fn Int Int :=
  ⟨fun ids =>
      match ids with
      | [f] =>
        if pred f then .call 0 [srcOfHist h] none fun r => .ret (.hist (umapH leInt (· + f) r))
        else .ret (.out f)
      | _ => .throw .typeError,
    h⟩

/-- `explode(h, pred, limit)` run on the evaluator model -/
def explodeEval (fuel : Nat) (h : Hist Int) (pred : Int → Bool) (lim : Option Limit) (cell : Cell) :
    Except Err (Hist Int) × Cell :=
  evalFn (fun _ => explodeFn h pred) (aggregateWeighted leInt) (lowestTerms leInt) fuel 0 [srcOfHist h] lim cell

/-- **the truncated re-roll process**: with `k` re-rolls still allowed, roll `h`; a face satisfying
the predicate is added to the (recursively) re-rolled total, any other face is kept; with no
re-roll left the roll is kept as is -/
def explodeSpec (h : Hist Int) (pred : Int → Bool) : Nat → Hist Int
  | 0 => h
  | k + 1 =>
    aggregateWeighted leInt
      (h.map fun fc =>
        (if pred fc.1 then Ret.hist (umapH leInt (· + fc.1) (explodeSpec h pred k)) else Ret.out fc.1, fc.2))

end Dyce

namespace Dyce

/-- what `expand(h, outcome)` answers in `H.substitute`: a replacement outcome, or (the index of) a
histogram of a finite family to recurse into -/
inductive SubAct where
  | out (o : Int)
  | hist (i : Nat)
  deriving Repr

/-- `coalesce(expanded, outcome)`: `coalesce_replace` keeps the expanded histogram, `operator.__add__`
adds the outcome that was expanded -/
def coalesceH (add : Bool) (f : Int) (r : Hist Int) : Hist Int := if add then umapH leInt (· + f) r else r

/-- the decorated `_expand` callback of `fam[start].substitute(expand, coalesce, …)`, specialised to
the family member `j` it is evaluating; the sentinel is the histogram `substitute` was called on -/
def substFn (fam : List (Hist Int)) (tbl : Nat → Int → SubAct) (add : Bool) (start j : Nat) : Fn Int Int :=
  ⟨fun ids =>
      match ids with
      | [f] =>
        match tbl j f with
        | .out o => .ret (.out o)
        | .hist i => .call i [srcOfHist (fam.getD i [])] none fun r => .ret (.hist (coalesceH add f r))
      | _ => .throw .typeError,
    fam.getD start []⟩

/-- `fam[start].substitute(expand, coalesce, max_depth=n)` run on the evaluator model -/
def substEval (fuel : Nat) (fam : List (Hist Int)) (tbl : Nat → Int → SubAct) (add : Bool) (start : Nat)
    (lim : Option Limit) (cell : Cell) : Except Err (Hist Int) × Cell :=
  evalFn (substFn fam tbl add start) (aggregateWeighted leInt) (lowestTerms leInt) fuel start
    [srcOfHist (fam.getD start [])] lim cell

/-- **the bounded recursion** `substitute` is supposed to compute: with `k` levels left, every face of
family member `j` is replaced by what `expand` says — an outcome, or the coalesced (recursively
substituted) histogram; with no level left, the histogram `substitute` was called on -/
def substSpec (fam : List (Hist Int)) (tbl : Nat → Int → SubAct) (add : Bool) (start : Nat) : Nat → Nat → Hist Int
  | 0, _ => fam.getD start []
  | k + 1, j =>
    aggregateWeighted leInt
      ((fam.getD j []).map fun fc =>
        (match tbl j fc.1 with
          | .out o => Ret.out o
          | .hist i => Ret.hist (coalesceH add fc.1 (substSpec fam tbl add start k i)), fc.2))

end Dyce
