import Dyce.HistOpsModel
import Dyce.HistProofs
import Mathlib.Data.Rat.Defs
import Mathlib.Tactic.Ring
import Mathlib.Tactic.FieldSimp
import Mathlib.Tactic.Linarith
import Mathlib.Algebra.Order.Field.Basic
import Mathlib.Data.Rat.Cast.Order

/-! Proofs about `distribution`, `mean`, `variance` over `ℚ` (C16). -/
namespace Dyce
open List

variable {α : Type}

/-- rational-valued weighted sum `Σ G(o)·count` -/
def rsum (l : List (α × Nat)) (G : α → ℚ) : ℚ := (l.map fun oc => G oc.1 * (oc.2 : ℚ)).sum

@[simp] theorem rsum_nil (G : α → ℚ) : rsum ([] : List (α × Nat)) G = 0 := rfl
@[simp] theorem rsum_cons (e : α × Nat) (l : List (α × Nat)) (G : α → ℚ) :
    rsum (e :: l) G = G e.1 * (e.2 : ℚ) + rsum l G := by simp [rsum]
@[simp] theorem rsum_append (l₁ l₂ : List (α × Nat)) (G : α → ℚ) :
    rsum (l₁ ++ l₂) G = rsum l₁ G + rsum l₂ G := by simp [rsum]

theorem rsum_perm {l₁ l₂ : List (α × Nat)} (hp : l₁ ~ l₂) (G : α → ℚ) : rsum l₁ G = rsum l₂ G := by
  unfold rsum; exact (hp.map _).sum_eq

theorem rsum_one (l : List (α × Nat)) : rsum l (fun _ => 1) = (total l : ℚ) := by
  induction l with
  | nil => simp [total]
  | cons e l ih => rw [rsum_cons, ih, total_cons]; push_cast; ring

theorem rsum_add (l : List (α × Nat)) (F G : α → ℚ) : rsum l (fun x => F x + G x) = rsum l F + rsum l G := by
  induction l with
  | nil => simp
  | cons e l ih => simp only [rsum_cons, ih]; ring

theorem rsum_mul_left (l : List (α × Nat)) (c : ℚ) (G : α → ℚ) : rsum l (fun x => c * G x) = c * rsum l G := by
  induction l with
  | nil => simp
  | cons e l ih => simp only [rsum_cons, ih]; ring

theorem rsum_mul_right (l : List (α × Nat)) (c : ℚ) (G : α → ℚ) : rsum l (fun x => G x * c) = rsum l G * c := by
  induction l with
  | nil => simp
  | cons e l ih => simp only [rsum_cons, ih]; ring

theorem rsum_const (l : List (α × Nat)) (c : ℚ) : rsum l (fun _ => c) = c * (total l : ℚ) := by
  have := rsum_mul_left l c (fun _ => 1)
  simp only [mul_one] at this
  rw [this, rsum_one]

section
variable [DecidableEq α]

theorem rsum_insertAdd (acc : Hist α) (o : α) (c : Nat) (G : α → ℚ) :
    rsum (insertAdd acc o c) G = rsum acc G + G o * (c : ℚ) := by
  induction acc with
  | nil => simp [insertAdd]
  | cons b acc ih =>
    obtain ⟨o', c'⟩ := b
    unfold insertAdd
    by_cases h : o' = o
    · subst h; simp only [if_true, rsum_cons]; push_cast; ring
    · simp only [h, if_false, rsum_cons, ih]; ring

/-- rational moments do not see the constructor's sorting and merging -/
theorem rsum_ofItems (le : α → α → Bool) (items : List (α × Nat)) (G : α → ℚ) :
    rsum (ofItems le items) G = rsum items G := by
  unfold ofItems
  have : ∀ (l : List (α × Nat)) (acc : Hist α),
      rsum (l.foldl (fun acc oc => insertAdd acc oc.1 oc.2) acc) G = rsum acc G + rsum l G := by
    intro l
    induction l with
    | nil => intro acc; simp
    | cons b l ih => intro acc; simp only [List.foldl_cons, ih, rsum_insertAdd, rsum_cons]; ring
  rw [this, rsum_nil, zero_add]
  exact rsum_perm (List.mergeSort_perm _ _) G

theorem rsum_map_scale {β γ : Type} (b : List (β × Nat)) (g : β → γ) (c : Nat) (G : γ → ℚ) :
    rsum (b.map fun yc => (g yc.1, c * yc.2)) G = rsum b (fun y => G (g y)) * (c : ℚ) := by
  induction b with
  | nil => simp
  | cons yc b ihb => simp only [List.map_cons, rsum_cons, ihb]; push_cast; ring

/-- moments of a convolution -/
theorem rsum_mapH {β γ : Type} [DecidableEq γ] (le : γ → γ → Bool) (op : α → β → γ) (a : Hist α) (b : Hist β)
    (G : γ → ℚ) :
    rsum (mapH le op a b) G = rsum a (fun x => rsum b (fun y => G (op x y))) := by
  unfold mapH
  rw [rsum_ofItems]
  induction a with
  | nil => simp
  | cons xc a ih =>
    simp only [List.flatMap_cons, rsum_append, ih, rsum_cons]
    congr 1
    exact rsum_map_scale b (fun y => op xc.1 y) xc.2 G

end

/-- the denominator Python uses: `total or 1` -/
def tot1 (h : Hist α) : Nat := if total h = 0 then 1 else total h

theorem tot1_pos (h : Hist α) : (0 : ℚ) < (tot1 h : ℚ) := by
  unfold tot1; split
  · norm_num
  · rename_i h0; exact_mod_cast Nat.pos_of_ne_zero h0

theorem meanH_eq (h : Hist ℚ) : meanH h = rsum h (fun x => x) / (tot1 h : ℚ) := rfl

theorem varianceH_none (h : Hist ℚ) :
    varianceH h none = rsum h (fun x => x * x) / (tot1 h : ℚ) - meanH h * meanH h := rfl

/-! ### distribution -/

theorem distribution_keys (h : Hist α) : (distribution h).map Prod.fst = h.map Prod.fst := by
  simp [distribution, List.map_map, Function.comp_def]

theorem distribution_prob (h : Hist α) :
    (distribution h).map Prod.snd = h.map fun oc => (oc.2 : ℚ) / (tot1 h : ℚ) := by
  simp [distribution, tot1, List.map_map, Function.comp_def]

theorem sum_div_const (h : Hist α) (t : ℚ) :
    (h.map fun oc => (oc.2 : ℚ) / t).sum = (total h : ℚ) / t := by
  induction h with
  | nil => simp [total]
  | cons e h ih => simp only [List.map_cons, List.sum_cons, total_cons, ih]; push_cast; ring

/-- **C16**: the probabilities sum to exactly 1 whenever the total is positive -/
theorem distribution_sum (h : Hist α) (hT : 0 < total h) : ((distribution h).map Prod.snd).sum = 1 := by
  rw [distribution_prob, sum_div_const]
  have : tot1 h = total h := by unfold tot1; rw [if_neg (by omega)]
  rw [this]
  have hne : (total h : ℚ) ≠ 0 := by exact_mod_cast (by omega : total h ≠ 0)
  exact div_self hne

end Dyce

namespace Dyce
open List
variable {α : Type}

/-! ### invariance under scaling and zero padding -/

theorem rsum_scaleH (k : Nat) (h : Hist α) (G : α → ℚ) : rsum (scaleH k h) G = (k : ℚ) * rsum h G := by
  induction h with
  | nil => simp [scaleH]
  | cons e h ih =>
    have : scaleH k (e :: h) = (e.1, k * e.2) :: scaleH k h := rfl
    rw [this, rsum_cons, rsum_cons, ih]; push_cast; ring

theorem total_scaleH (k : Nat) (h : Hist α) : total (scaleH k h) = k * total h := by
  induction h with
  | nil => simp [scaleH, total]
  | cons e h ih =>
    have : scaleH k (e :: h) = (e.1, k * e.2) :: scaleH k h := rfl
    rw [this, total_cons, total_cons, ih]; ring

theorem rsum_eq_zero_of_total_zero (h : Hist α) (h0 : total h = 0) (G : α → ℚ) : rsum h G = 0 := by
  induction h with
  | nil => simp
  | cons e h ih =>
    rw [total_cons] at h0
    have h1 : e.2 = 0 := by omega
    have h2 : total h = 0 := by omega
    rw [rsum_cons, ih h2, h1]; simp

/-- a ratio of moments is unchanged by scaling the counts -/
theorem ratio_scale (k : Nat) (hk : 0 < k) (h : Hist α) (G : α → ℚ) :
    rsum (scaleH k h) G / (tot1 (scaleH k h) : ℚ) = rsum h G / (tot1 h : ℚ) := by
  by_cases h0 : total h = 0
  · rw [rsum_eq_zero_of_total_zero h h0, rsum_eq_zero_of_total_zero (scaleH k h) (by rw [total_scaleH, h0]; simp)]
    simp
  · have h1 : tot1 h = total h := by unfold tot1; rw [if_neg h0]
    have h2 : tot1 (scaleH k h) = k * total h := by
      unfold tot1; rw [total_scaleH, if_neg (by
        intro hh; rcases Nat.mul_eq_zero.mp hh with hh | hh <;> omega)]
    rw [h1, h2, rsum_scaleH]
    have hkq : (k : ℚ) ≠ 0 := by exact_mod_cast (by omega : k ≠ 0)
    have htq : (total h : ℚ) ≠ 0 := by exact_mod_cast h0
    push_cast
    field_simp

theorem mean_scale (k : Nat) (hk : 0 < k) (h : Hist ℚ) : meanH (scaleH k h) = meanH h := by
  rw [meanH_eq, meanH_eq]; exact ratio_scale k hk h _

theorem variance_scale (k : Nat) (hk : 0 < k) (h : Hist ℚ) :
    varianceH (scaleH k h) none = varianceH h none := by
  rw [varianceH_none, varianceH_none, mean_scale k hk, ratio_scale k hk]

theorem total_zero_pad (a b : Hist α) (x : α) : total (a ++ (x, 0) :: b) = total (a ++ b) := by
  simp [total]

theorem ratio_zero_pad (a b : Hist α) (x : α) (G : α → ℚ) :
    rsum (a ++ (x, 0) :: b) G / (tot1 (a ++ (x, 0) :: b) : ℚ) = rsum (a ++ b) G / (tot1 (a ++ b) : ℚ) := by
  have : tot1 (a ++ (x, 0) :: b) = tot1 (a ++ b) := by unfold tot1; rw [total_zero_pad]
  rw [this]; simp

theorem mean_zero_pad (a b : Hist ℚ) (x : ℚ) : meanH (a ++ (x, 0) :: b) = meanH (a ++ b) := by
  rw [meanH_eq, meanH_eq]; exact ratio_zero_pad a b x _

theorem variance_zero_pad (a b : Hist ℚ) (x : ℚ) :
    varianceH (a ++ (x, 0) :: b) none = varianceH (a ++ b) none := by
  rw [varianceH_none, varianceH_none, mean_zero_pad, ratio_zero_pad]

/-! ### additivity for independent summands -/

theorem tot1_of_pos (h : Hist α) (hT : 0 < total h) : tot1 h = total h := by
  unfold tot1; rw [if_neg (by omega)]

theorem mean_add (le : ℚ → ℚ → Bool) (a b : Hist ℚ) (ha : 0 < total a) (hb : 0 < total b) :
    meanH (mapH le (· + ·) a b) = meanH a + meanH b := by
  rw [meanH_eq, meanH_eq, meanH_eq, rsum_mapH]
  have hT : total (mapH le (· + ·) a b) = total a * total b := total_mapH le _ a b
  rw [tot1_of_pos _ (by rw [hT]; exact Nat.mul_pos ha hb), hT, tot1_of_pos a ha, tot1_of_pos b hb]
  have h1 : ∀ x : ℚ, rsum b (fun y => x + y) = x * (total b : ℚ) + rsum b (fun y => y) := by
    intro x; rw [rsum_add, rsum_const]
  simp only [h1]
  rw [rsum_add, rsum_mul_right, rsum_const]
  have haq : (total a : ℚ) ≠ 0 := by exact_mod_cast (by omega : total a ≠ 0)
  have hbq : (total b : ℚ) ≠ 0 := by exact_mod_cast (by omega : total b ≠ 0)
  push_cast
  field_simp

theorem variance_add (le : ℚ → ℚ → Bool) (a b : Hist ℚ) (ha : 0 < total a) (hb : 0 < total b) :
    varianceH (mapH le (· + ·) a b) none = varianceH a none + varianceH b none := by
  rw [varianceH_none, varianceH_none, varianceH_none, mean_add le a b ha hb]
  rw [meanH_eq, meanH_eq, rsum_mapH]
  have hT : total (mapH le (· + ·) a b) = total a * total b := total_mapH le _ a b
  rw [tot1_of_pos _ (by rw [hT]; exact Nat.mul_pos ha hb), hT, tot1_of_pos a ha, tot1_of_pos b hb]
  have h1 : ∀ x : ℚ, rsum b (fun y => (x + y) * (x + y))
      = x * x * (total b : ℚ) + 2 * x * rsum b (fun y => y) + rsum b (fun y => y * y) := by
    intro x
    have : (fun y : ℚ => (x + y) * (x + y)) = fun y => (x * x + 2 * x * y) + y * y := by
      funext y; ring
    rw [this, rsum_add, rsum_add, rsum_const, rsum_mul_left]
  simp only [h1]
  rw [rsum_add, rsum_add, rsum_mul_right, rsum_const]
  have h2 : rsum a (fun x => 2 * x * rsum b fun y => y) = 2 * rsum a (fun x => x) * rsum b (fun y => y) := by
    have : (fun x : ℚ => 2 * x * rsum b fun y => y) = fun x => (2 * rsum b fun y => y) * x := by
      funext x; ring
    rw [this, rsum_mul_left]; ring
  rw [h2]
  have haq : (total a : ℚ) ≠ 0 := by exact_mod_cast (by omega : total a ≠ 0)
  have hbq : (total b : ℚ) ≠ 0 := by exact_mod_cast (by omega : total b ≠ 0)
  push_cast
  field_simp
  ring

/-! ### variance is a central moment, hence non-negative (so `stdev` is defined) -/

theorem rsum_nonneg {α : Type} (l : List (α × Nat)) (G : α → ℚ) (hG : ∀ x, 0 ≤ G x) : 0 ≤ rsum l G := by
  induction l with
  | nil => simp
  | cons e l ih =>
    rw [rsum_cons]
    have : 0 ≤ G e.1 * (e.2 : ℚ) := mul_nonneg (hG _) (by exact_mod_cast Nat.zero_le _)
    linarith

/-- central-moment form: `variance = Σ count·(x − mean)² / total` -/
theorem variance_central (h : Hist ℚ) (hT : 0 < total h) :
    varianceH h none = rsum h (fun x => (x - meanH h) * (x - meanH h)) / (tot1 h : ℚ) := by
  have hpos := tot1_pos h
  have ht : (tot1 h : ℚ) = (total h : ℚ) := by rw [tot1_of_pos h hT]
  have e : (fun x : ℚ => (x - meanH h) * (x - meanH h))
      = fun x => (x * x + (-2 * meanH h) * x) + meanH h * meanH h := by funext x; ring
  have hm : rsum h (fun x => x) = meanH h * (tot1 h : ℚ) := by
    rw [meanH_eq]; field_simp
  rw [varianceH_none, e, rsum_add, rsum_add, rsum_mul_left, rsum_const, hm, ← ht]
  field_simp
  ring

theorem variance_nonneg (h : Hist ℚ) : 0 ≤ varianceH h none := by
  by_cases hT : 0 < total h
  · rw [variance_central h hT]
    exact div_nonneg (rsum_nonneg h _ fun x => mul_self_nonneg _) (le_of_lt (tot1_pos h))
  · have h0 : total h = 0 := by omega
    rw [varianceH_none, meanH_eq, rsum_eq_zero_of_total_zero h h0, rsum_eq_zero_of_total_zero h h0]
    simp

end Dyce
