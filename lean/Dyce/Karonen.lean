import Dyce.Model
import Dyce.LemmaA
import Mathlib.Order.Basic
import Mathlib.Order.Defs.LinearOrder
import Mathlib.Data.List.Basic

namespace Dyce
open Finset List

variable {α : Type}

/-! ### basic facts -/

theorem comb_eq_choose (n k : Nat) : comb n k = n.choose k := by
  induction n generalizing k with
  | zero => cases k <;> simp [comb]
  | succ n ih => cases k <;> simp [comb, ih, Nat.choose_succ_succ]

theorem total_cons (xc : α × Nat) (h : Hist α) : total (xc :: h) = xc.2 + total h := by
  simp [total]

theorem wsum_tuples_one (h : Hist α) (n : Nat) :
    wsum (tuples h n) (fun _ => 1) = total h ^ n := by
  induction n with
  | zero => simp [tuples, wsum]
  | succ n ih =>
    have : ∀ (l : Hist α) (T : List (List α × Nat)),
        wsum (l.flatMap fun xc => T.map fun tw => (xc.1 :: tw.1, xc.2 * tw.2)) (fun _ => 1)
          = total l * wsum T (fun _ => 1) := by
      intro l T
      induction l with
      | nil => simp [total]
      | cons xc l ihl =>
        simp only [List.flatMap_cons, wsum_append, ihl, total_cons]
        rw [wsum_map_scale]; ring
    rw [tuples, this, ih]; ring

theorem mem_tuples {h : Hist α} {n : Nat} {tw : List α × Nat} (htw : tw ∈ tuples h n) :
    tw.1.length = n ∧ ∀ x ∈ tw.1, x ∈ h.map Prod.fst := by
  induction n generalizing tw with
  | zero => simp [tuples] at htw; subst htw; simp
  | succ n ih =>
    simp only [tuples, List.mem_flatMap, List.mem_map] at htw
    obtain ⟨xc, hxc, tw', htw', rfl⟩ := htw
    obtain ⟨hl, hm⟩ := ih htw'
    refine ⟨by simp [hl], ?_⟩
    intro x hx
    simp only [List.mem_cons] at hx
    rcases hx with rfl | hx
    · exact List.mem_map_of_mem (f := Prod.fst) hxc
    · exact hm x hx

theorem wsum_congr' {β} (l : List (β × Nat)) (f g : β → Nat)
    (h : ∀ b ∈ l, f b.1 = g b.1) : wsum l f = wsum l g := wsum_congr l f g h

theorem wsum_le_of_le_one {β} (l : List (β × Nat)) (f : β → Nat) (hf : ∀ b, f b ≤ 1) :
    wsum l f ≤ wsum l (fun _ => 1) := by
  induction l with
  | nil => simp
  | cons b l ih =>
    simp only [wsum_cons]
    have := hf b.1
    nlinarith [ih]

/-- `le` is a (Bool-valued) total order: the assumption under which Python's `sorted`,
`min` and `max` behave as the model says (ints, bools, Fractions, finite floats). -/
structure TotalOrderB {α : Type} (le : α → α → Bool) : Prop where
  refl : ∀ a, le a a = true
  trans : ∀ a b c, le a b = true → le b c = true → le a c = true
  total : ∀ a b, (le a b || le b a) = true
  antisymm : ∀ a b, le a b = true → le b a = true → a = b

section order
variable [DecidableEq α] {le : α → α → Bool}

theorem sortBy_pairwise (hle : TotalOrderB le) (t : List α) :
    (sortBy le t).Pairwise (fun a b => le a b = true) :=
  List.pairwise_mergeSort (le := le) hle.trans hle.total t

theorem sortBy_perm (le : α → α → Bool) (t : List α) : sortBy le t ~ t := List.mergeSort_perm t le

/-- **Lemma B**: if `m` is a lower bound of `t`, sorting puts all the `m`s first. -/
theorem sortBy_of_lower_bound (hle : TotalOrderB le) (m : α) (t : List α)
    (hm : ∀ x ∈ t, le m x = true) :
    sortBy le t = List.replicate (t.count m) m ++ sortBy le (t.filter (· ≠ m)) := by
  apply List.Perm.eq_of_pairwise (le := fun a b => le a b = true)
  · intro a b _ _ hab hba; exact hle.antisymm a b hab hba
  · exact sortBy_pairwise hle t
  · rw [List.pairwise_append]
    refine ⟨?_, sortBy_pairwise hle _, ?_⟩
    · rw [List.pairwise_replicate]; right; exact hle.refl m
    · intro a ha b hb
      rw [List.eq_of_mem_replicate ha]
      have : b ∈ t.filter (· ≠ m) := (List.mem_mergeSort).mp hb
      exact hm b (List.mem_filter.mp this).1
  · have h1 : sortBy le t ~ t := sortBy_perm le t
    have h2 : sortBy le (t.filter (· ≠ m)) ~ t.filter (· ≠ m) := sortBy_perm le _
    have h3 : List.replicate (t.count m) m = t.filter (· == m) := by
      rw [List.filter_beq]
    refine h1.trans (List.Perm.symm ?_)
    rw [h3]
    refine (List.Perm.append_left _ h2).trans ?_
    have := List.filter_append_perm (fun x => x == m) t
    have e : (t.filter fun x => !(x == m)) = t.filter (· ≠ m) := by
      congr 1; funext x; simp [_root_.beq_eq_decide]
    rw [e] at this; exact this

end order

end Dyce
