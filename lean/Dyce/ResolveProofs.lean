import Dyce.SelectModel
import Mathlib.Tactic.Common
import Mathlib.Tactic.Linarith
import Mathlib.Data.List.Basic

namespace Dyce

theorem mem_pyRange {start stop step : Int} {fuel : Nat} {x : Int}
    (hx : x ∈ pyRange start stop step fuel) :
    (step > 0 → start ≤ x ∧ x < stop) ∧ (step < 0 → stop < x ∧ x ≤ start) := by
  induction fuel generalizing start with
  | zero => simp [pyRange] at hx
  | succ fuel ih =>
    rw [pyRange] at hx
    split at hx
    · rename_i hc
      simp only [List.mem_cons] at hx
      rcases hx with rfl | hx
      · constructor
        · intro hp; rcases hc with ⟨_, h⟩ | ⟨h, _⟩ <;> omega
        · intro hn; rcases hc with ⟨h, _⟩ | ⟨_, h⟩ <;> omega
      · have := ih hx
        constructor
        · intro hp; have := this.1 hp; omega
        · intro hn; have := this.2 hn; omega
    · simp at hx

theorem sliceIndices_lt (n : Nat) (a b c : Option Int) (l : List Nat)
    (h : sliceIndices n a b c = .ok l) : ∀ j ∈ l, j < n := by
  unfold sliceIndices at h
  simp only at h
  split at h
  · simp at h
  · rename_i hst
    simp only [Except.ok.injEq] at h
    subst h
    intro j hj
    rw [List.mem_map] at hj
    obtain ⟨x, hx, rfl⟩ := hj
    have hm := mem_pyRange hx
    by_cases hpos : c.getD 1 > 0
    · have := hm.1 hpos
      simp only [hpos, if_true] at this
      have hneg : ¬ (c.getD 1 < 0) := by omega
      simp only [hneg, if_false] at this
      obtain ⟨h1, h2⟩ := this
      have hs0 : (0 : Int) ≤ x := by
        refine le_trans ?_ h1
        cases a with
        | none => simp
        | some v => simp only; split <;> omega
      have hxn : x < n := by
        refine lt_of_lt_of_le h2 ?_
        cases b with
        | none => simp
        | some v => simp only; split <;> omega
      omega
    · have hneg : c.getD 1 < 0 := by omega
      have := hm.2 hneg
      simp only [hpos, if_false, hneg, if_true] at this
      obtain ⟨h1, h2⟩ := this
      have hs0 : (0 : Int) ≤ x := by
        cases b with
        | none => dsimp only at h1; omega
        | some v => (try dsimp only at h1); split at h1 <;> omega
      have hxn : x < n := by
        cases a with
        | none => dsimp only at h2; omega
        | some v => (try dsimp only at h2); split at h2 <;> omega
      omega

theorem resolveOne_lt (n : Nat) (s : Sel) (l : List Nat) (h : resolveOne n s = .ok l) :
    ∀ j ∈ l, j < n := by
  cases s with
  | idx i =>
    have hdef : resolveOne n (.idx i)
        = if 0 ≤ (if i < 0 then i + n else i) ∧ (if i < 0 then i + n else i) < n
          then .ok [(if i < 0 then i + (n : Int) else i).toNat] else .error .indexError := rfl
    rw [hdef] at h
    by_cases hc : 0 ≤ (if i < 0 then i + n else i) ∧ (if i < 0 then i + (n : Int) else i) < n
    · rw [if_pos hc] at h
      injection h with h
      subst h
      intro j hj
      simp only [List.mem_singleton] at hj
      subst hj
      omega
    · rw [if_neg hc] at h
      exact absurd h (by simp)
  | slc a b c => exact sliceIndices_lt n a b c l h

theorem resolve_lt (n : Nat) (which : List Sel) (l : List Nat) (h : resolve n which = .ok l) :
    ∀ j ∈ l, j < n := by
  induction which generalizing l with
  | nil => simp [resolve] at h; subst h; simp
  | cons s ss ih =>
    simp only [resolve, bind, Except.bind] at h
    split at h
    · simp at h
    · rename_i a ha
      split at h
      · simp at h
      · rename_i b hb
        simp only [pure, Except.pure, Except.ok.injEq] at h
        subst h
        intro j hj
        rw [List.mem_append] at hj
        rcases hj with hj | hj
        · exact resolveOne_lt n s a ha j hj
        · exact ih b hb j hj

end Dyce
