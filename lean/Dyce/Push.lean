import Dyce.KaronenMain
import Mathlib.Algebra.BigOperators.Group.Finset.Basic
import Mathlib.Algebra.BigOperators.Ring.Finset
import Mathlib.Data.Finset.Basic

/-! Pushforward of weighted lists: if `K` has, for every value, the same aggregated weight as the
image of `L` under `g`, then weighted sums over `L` of `F ∘ g` equal weighted sums over `K` of `F`. -/
namespace Dyce
open Finset

variable {β γ : Type} [DecidableEq γ]

/-- weighted sum as a sum over any finite set of values covering the keys -/
theorem wsum_eq_sum_countOf (K : List (γ × Nat)) (F : γ → Nat) (S : Finset γ)
    (hS : ∀ e ∈ K, e.1 ∈ S) :
    wsum K F = ∑ r ∈ S, countOf r K * F r := by
  induction K with
  | nil => simp
  | cons e K ih =>
    have he : e.1 ∈ S := hS e (by simp)
    have ih' := ih (fun e' h' => hS e' (by simp [h']))
    simp only [wsum_cons, countOf_cons, add_mul, Finset.sum_add_distrib, ih']
    congr 1
    rw [Finset.sum_eq_single e.1]
    · simp
    · intro b _ hb
      have : ¬ e.1 = b := fun h => hb h.symm
      simp [this]
    · intro h; exact absurd he h

theorem wsum_comp_eq_sum (L : List (β × Nat)) (g : β → γ) (F : γ → Nat) (S : Finset γ)
    (hS : ∀ e ∈ L, g e.1 ∈ S) :
    wsum L (fun b => F (g b)) = ∑ r ∈ S, wsum L (fun b => if g b = r then 1 else 0) * F r := by
  induction L with
  | nil => simp
  | cons e L ih =>
    have he : g e.1 ∈ S := hS e (by simp)
    have ih' := ih (fun e' h' => hS e' (by simp [h']))
    simp only [wsum_cons, add_mul, Finset.sum_add_distrib, ih']
    congr 1
    rw [Finset.sum_eq_single (g e.1)]
    · simp
    · intro b _ hb
      have : ¬ g e.1 = b := fun h => hb h.symm
      simp [this]
    · intro h; exact absurd he h

/-- **pushforward** -/
theorem wsum_pushforward (L : List (β × Nat)) (g : β → γ) (K : List (γ × Nat))
    (hK : ∀ r, countOf r K = wsum L (fun b => if g b = r then 1 else 0)) (F : γ → Nat) :
    wsum L (fun b => F (g b)) = wsum K F := by
  classical
  set S : Finset γ := (K.map Prod.fst).toFinset ∪ (L.map (fun e => g e.1)).toFinset with hSdef
  have h1 : ∀ e ∈ K, e.1 ∈ S := by
    intro e he
    simp only [hSdef, Finset.mem_union, List.mem_toFinset, List.mem_map]
    exact Or.inl ⟨e, he, rfl⟩
  have h2 : ∀ e ∈ L, g e.1 ∈ S := by
    intro e he
    simp only [hSdef, Finset.mem_union, List.mem_toFinset, List.mem_map]
    exact Or.inr ⟨e, he, rfl⟩
  rw [wsum_eq_sum_countOf K F S h1, wsum_comp_eq_sum L g F S h2]
  refine Finset.sum_congr rfl fun r _ => ?_
  rw [hK r]

omit [DecidableEq γ] in
/-- relabelling the keys of a weighted list -/
theorem countOf_map_key {δ : Type} [DecidableEq δ] (K : List (γ × Nat)) (g : γ → δ) (r : δ) :
    countOf r (K.map fun e => (g e.1, e.2)) = wsum K (fun s => if g s = r then 1 else 0) := by
  induction K with
  | nil => simp
  | cons e K ih => simp [ih]

end Dyce
