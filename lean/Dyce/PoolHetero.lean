import Dyce.PoolHomog
import Dyce.Merge

namespace Dyce
open List

variable {α : Type} [DecidableEq α]

/-! ### product structure of the Cartesian product and of `itertools.product` -/

theorem wsum_poolTuples_cons (h : Hist α) (ds : List (Hist α)) (F : List α → Nat) :
    wsum (poolTuples (h :: ds)) F
      = wsum h (fun x => wsum (poolTuples ds) (fun t => F (x :: t))) := by
  rw [poolTuples, wsum_flatMap_cons]

theorem wsum_poolTuples_append (d₁ d₂ : List (Hist α)) (F : List α → Nat) :
    wsum (poolTuples (d₁ ++ d₂)) F
      = wsum (poolTuples d₁) (fun t₁ => wsum (poolTuples d₂) (fun t₂ => F (t₁ ++ t₂))) := by
  induction d₁ generalizing F with
  | nil => simp [poolTuples, wsum]
  | cons h ds ih =>
    rw [List.cons_append, wsum_poolTuples_cons, wsum_poolTuples_cons]
    apply wsum_congr
    intro b _
    rw [ih]
    rfl

theorem wsum_combos_cons (g : List (List α × Nat)) (gs : List (List (List α × Nat)))
    (F : List α → Nat) :
    wsum (combos (g :: gs)) F = wsum g (fun s => wsum (combos gs) (fun u => F (s ++ u))) := by
  rw [combos]
  induction g with
  | nil => simp
  | cons e g ih =>
    simp only [List.flatMap_cons, wsum_append, wsum_cons, ih]
    congr 1
    have : (combos gs).map (fun f => (e.1 ++ f.1, e.2 * f.2))
        = (combos gs).map (fun tw => ((fun u => e.1 ++ u) tw.1, e.2 * tw.2)) := rfl
    rw [this, wsum_map_scale]

/-- expansion of groups back into the list of dice -/
def expand (groups : List (Hist α × Nat)) : List (Hist α) :=
  groups.flatMap fun g => List.replicate g.2 g.1

theorem expand_groupsOf (dice : List (Hist α)) : expand (groupsOf dice) = dice := by
  induction dice with
  | nil => rfl
  | cons h ds ih =>
    rw [groupsOf]
    split
    · rename_i h' n gs heq
      rw [heq] at ih
      split
      · rename_i hh
        subst hh
        simp only [expand, List.flatMap_cons] at ih ⊢
        rw [List.replicate_succ, List.cons_append, ih]
      · simp only [expand, List.flatMap_cons] at ih ⊢
        rw [← ih]; simp
    · rename_i heq
      rw [heq] at ih
      simp only [expand, List.flatMap_nil] at ih
      subst ih
      simp [expand]

/-! ### the `k` lowest of a concatenation only depend on the `k` lowest of each part -/

variable {le : α → α → Bool}

theorem sortBy_append_eq_merge (hle : TotalOrderB le) (a b : List α) :
    sortBy le (a ++ b) = merge (sortBy le a) (sortBy le b) le := by
  apply List.Perm.eq_of_pairwise (le := fun a b => le a b = true)
  · intro x y _ _ hxy hyx; exact hle.antisymm x y hxy hyx
  · exact sortBy_pairwise hle _
  · exact List.pairwise_merge (le := le) hle.trans hle.total _ _ (sortBy_pairwise hle a) (sortBy_pairwise hle b)
  · refine (sortBy_perm le _).trans ?_
    refine List.Perm.trans ?_ (List.merge_perm_append (le := le)).symm
    exact ((sortBy_perm le a).append (sortBy_perm le b)).symm

theorem sortBy_of_sorted {t : List α} (ht : t.Pairwise (fun a b => le a b = true)) :
    sortBy le t = t := List.mergeSort_of_pairwise ht

theorem sortBy_congr_perm (hle : TotalOrderB le) {a b : List α} (hp : a ~ b) :
    sortBy le a = sortBy le b := by
  apply List.Perm.eq_of_pairwise (le := fun a b => le a b = true)
  · intro x y _ _ hxy hyx; exact hle.antisymm x y hxy hyx
  · exact sortBy_pairwise hle _
  · exact sortBy_pairwise hle _
  · exact (sortBy_perm le a).trans (hp.trans (sortBy_perm le b).symm)

/-- the `k` lowest -/
def lowK (le : α → α → Bool) (k : Nat) (t : List α) : List α := (sortBy le t).take k

theorem lowK_sorted (hle : TotalOrderB le) (k : Nat) (t : List α) :
    (lowK le k t).Pairwise (fun a b => le a b = true) :=
  (sortBy_pairwise hle t).sublist (List.take_sublist _ _)

theorem lowK_append (hle : TotalOrderB le) (k : Nat) (a b : List α) :
    lowK le k (a ++ b) = lowK le k (lowK le k a ++ lowK le k b) := by
  unfold lowK
  rw [sortBy_append_eq_merge hle, sortBy_append_eq_merge hle]
  have h1 : sortBy le ((sortBy le a).take k) = (sortBy le a).take k :=
    sortBy_of_sorted (lowK_sorted hle k a)
  have h2 : sortBy le ((sortBy le b).take k) = (sortBy le b).take k :=
    sortBy_of_sorted (lowK_sorted hle k b)
  rw [h1, h2]
  exact merge_take le k _ _ k k (le_refl k) (le_refl k)

theorem lowK_idem (hle : TotalOrderB le) (k : Nat) (t : List α) :
    lowK le k (lowK le k t) = lowK le k t := by
  have := sortBy_of_sorted (lowK_sorted hle k t)
  unfold lowK at this ⊢
  rw [this, List.take_take, Nat.min_self]

theorem lowK_append_left (hle : TotalOrderB le) (k : Nat) (a b : List α) :
    lowK le k (lowK le k a ++ b) = lowK le k (a ++ b) := by
  rw [lowK_append hle k (lowK le k a) b, lowK_idem hle, ← lowK_append hle]

theorem lowK_append_right (hle : TotalOrderB le) (k : Nat) (a b : List α) :
    lowK le k (a ++ lowK le k b) = lowK le k (a ++ b) := by
  rw [lowK_append hle k a (lowK le k b), lowK_idem hle, ← lowK_append hle]

end Dyce

namespace Dyce
open List

variable {α : Type} [DecidableEq α]

/-- **Abstract heterogeneous step.** If every group's enumeration `K g` presents `pre t` with the
right weights, and the final read-out `sel` cannot tell `pre t` from `t` inside a concatenation,
then enumerating per group and concatenating is the same as enumerating the whole Cartesian
product. -/
theorem hetero_push (K : Hist α × Nat → List (List α × Nat)) (pre sel : List α → List α)
    (hA : ∀ a t u, sel (a ++ (pre t ++ u)) = sel (a ++ (t ++ u)))
    (gs : List (Hist α × Nat))
    (hB : ∀ g ∈ gs, ∀ H : List α → Nat,
      wsum (K g) H = wsum (tuples g.1 g.2) (fun t => H (pre t)))
    (Θ : List α → Nat) (a : List α) :
    wsum (combos (gs.map K)) (fun s => Θ (sel (a ++ s)))
      = wsum (poolTuples (expand gs)) (fun t => Θ (sel (a ++ t))) := by
  induction gs generalizing a with
  | nil => simp [combos, expand, poolTuples]
  | cons g gs ih =>
    rw [List.map_cons, wsum_combos_cons]
    have hexp : expand (g :: gs) = List.replicate g.2 g.1 ++ expand gs := by
      simp [expand]
    rw [hexp, wsum_poolTuples_append, poolTuples_replicate]
    rw [hB g (by simp)]
    apply wsum_congr
    intro tw _
    have ih' := ih (fun g' hg' => hB g' (by simp [hg'])) (a ++ pre tw.1)
    simp only [List.append_assoc] at ih'
    rw [ih']
    apply wsum_congr
    intro uw _
    rw [hA]

end Dyce

namespace Dyce
open List

variable {α : Type} [DecidableEq α] {le : α → α → Bool}

/-- a group is well formed: at least one die, keys strictly ascending, positive total -/
def GroupOK (le : α → α → Bool) (g : Hist α × Nat) : Prop :=
  0 < g.2 ∧ g.1.Pairwise (fun a b => le a.1 b.1 = true ∧ a.1 ≠ b.1) ∧ 0 < total g.1

theorem rwcHomogRaw_full (n : Nat) (h : Hist α) (hn : 0 < n) :
    rwcHomogRaw n h (n : Int) = rwcHomogLow n h n := by
  unfold rwcHomogRaw
  have h2 : ¬ ((n : Int) < 0) := by omega
  have h3 : ¬ (n = 0 ∨ n > n) := by omega
  simp only [h2, if_false, Int.natAbs_natCast, h3]

theorem group_full_push (hle : TotalOrderB le) (g : Hist α × Nat) (hg : GroupOK le g)
    (H : List α → Nat) :
    wsum (rwcHomogRaw g.2 g.1 (g.2 : Int)) H
      = wsum (tuples g.1 g.2) (fun t => H (sortBy le t)) := by
  obtain ⟨hn, hs, hT⟩ := hg
  rw [rwcHomogRaw_full _ _ hn, homog_low_push hle g.1 hs hT g.2 g.2 (le_refl _)]
  apply wsum_congr
  intro tw htw
  have hl : (sortBy le tw.1).length = g.2 := by
    rw [(sortBy_perm le tw.1).length_eq, (mem_tuples htw).1]
  rw [List.take_of_length_le (by omega)]

theorem sortBy_middle (hle : TotalOrderB le) (a t u : List α) :
    sortBy le (a ++ (sortBy le t ++ u)) = sortBy le (a ++ (t ++ u)) :=
  sortBy_congr_perm hle (((sortBy_perm le t).append_right u).append_left a)

theorem lowK_middle (hle : TotalOrderB le) (k : Nat) (a t u : List α) :
    lowK le k (a ++ (lowK le k t ++ u)) = lowK le k (a ++ (t ++ u)) := by
  rw [← lowK_append_right hle k a (lowK le k t ++ u), lowK_append_left hle,
    lowK_append_right hle]

theorem group_low_push (hle : TotalOrderB le) (k : Nat) (hk : 0 < k) (g : Hist α × Nat)
    (hg : GroupOK le g) (H : List α → Nat) :
    wsum (rwcHomogRaw g.2 g.1 (if ((k : Int) ≠ 0 ∧ (k : Int).natAbs < g.2) then (k : Int) else g.2)) H
      = wsum (tuples g.1 g.2) (fun t => H (lowK le k t)) := by
  obtain ⟨hn, hs, hT⟩ := hg
  by_cases hkn : k < g.2
  · have hc : ((k : Int) ≠ 0 ∧ (k : Int).natAbs < g.2) := ⟨by omega, by simpa using hkn⟩
    rw [if_pos hc]
    have : rwcHomogRaw g.2 g.1 (k : Int) = rwcHomogLow g.2 g.1 k := by
      unfold rwcHomogRaw
      have h2 : ¬ ((k : Int) < 0) := by omega
      have h3 : ¬ (k = 0 ∨ k > g.2) := by omega
      simp only [h2, if_false, Int.natAbs_natCast, h3]
    rw [this, homog_low_push hle g.1 hs hT g.2 k (by omega)]
    rfl
  · have hc : ¬ ((k : Int) ≠ 0 ∧ (k : Int).natAbs < g.2) := by
      intro hh; apply hkn; simpa using hh.2
    rw [if_neg hc, group_full_push hle g ⟨hn, hs, hT⟩]
    apply wsum_congr
    intro tw htw
    have hl : (sortBy le tw.1).length = g.2 := by
      rw [(sortBy_perm le tw.1).length_eq, (mem_tuples htw).1]
    unfold lowK
    rw [List.take_of_length_le (by omega)]

/-- the `k` highest -/
def highK (le : α → α → Bool) (k : Nat) (t : List α) : List α :=
  (sortBy le t).drop (t.length - k)

theorem highK_eq_reverse_lowK (hle : TotalOrderB le) (k : Nat) (t : List α) :
    highK le k t = (lowK (fun a b => le b a) k t).reverse := by
  unfold highK lowK
  rw [sortBy_flip hle, List.take_reverse, List.reverse_reverse, (sortBy_perm le t).length_eq]

theorem lowK_congr_perm (hle : TotalOrderB le) (k : Nat) {a b : List α} (hp : a ~ b) :
    lowK le k a = lowK le k b := by
  unfold lowK; rw [sortBy_congr_perm hle hp]

theorem highK_middle (hle : TotalOrderB le) (k : Nat) (a t u : List α) :
    highK le k (a ++ (highK le k t ++ u)) = highK le k (a ++ (t ++ u)) := by
  rw [highK_eq_reverse_lowK hle, highK_eq_reverse_lowK hle, highK_eq_reverse_lowK hle]
  congr 1
  have hp : a ++ ((lowK (fun a b => le b a) k t).reverse ++ u)
      ~ a ++ (lowK (fun a b => le b a) k t ++ u) :=
    ((List.reverse_perm _).append_right u).append_left a
  rw [lowK_congr_perm hle.flip k hp, lowK_middle hle.flip]

theorem group_high_push (hle : TotalOrderB le) (k : Nat) (hk : 0 < k) (g : Hist α × Nat)
    (hg : GroupOK le g) (H : List α → Nat) :
    wsum (rwcHomogRaw g.2 g.1
        (if (-(k : Int) ≠ 0 ∧ (-(k : Int)).natAbs < g.2) then -(k : Int) else g.2)) H
      = wsum (tuples g.1 g.2) (fun t => H (highK le k t)) := by
  obtain ⟨hn, hs, hT⟩ := hg
  by_cases hkn : k < g.2
  · have hc : (-(k : Int) ≠ 0 ∧ (-(k : Int)).natAbs < g.2) := ⟨by omega, by simpa using hkn⟩
    rw [if_pos hc]
    have : rwcHomogRaw g.2 g.1 (-(k : Int)) = rwcHomogHigh g.2 g.1 k := by
      unfold rwcHomogRaw
      have h2 : (-(k : Int) < 0) := by omega
      have h3 : ¬ (k = 0 ∨ k > g.2) := by omega
      simp only [h2, if_true, Int.natAbs_neg, Int.natAbs_natCast, h3, if_false]
    rw [this, homog_high_push hle g.1 hs hT g.2 k (by omega)]
    apply wsum_congr
    intro tw htw
    unfold highK
    rw [(mem_tuples htw).1]
  · have hc : ¬ (-(k : Int) ≠ 0 ∧ (-(k : Int)).natAbs < g.2) := by
      intro hh; apply hkn; simpa using hh.2
    rw [if_neg hc, group_full_push hle g ⟨hn, hs, hT⟩]
    apply wsum_congr
    intro tw htw
    unfold highK
    have : tw.1.length - k = 0 := by rw [(mem_tuples htw).1]; omega
    rw [this, List.drop_zero]

end Dyce
