import Dyce.PoolHeteroMain
import Dyce.ResolveProofs

namespace Dyce
open List

variable {α : Type} [DecidableEq α] {le : α → α → Bool}

/-- what `P.__init__` guarantees about every die of a pool (after F1/F2's repairs nothing else is
needed): keys strictly ascending and a positive total -/
def DiceOK (le : α → α → Bool) (dice : List (Hist α)) : Prop :=
  ∀ h ∈ dice, h.Pairwise (fun a b => le a.1 b.1 = true ∧ a.1 ≠ b.1) ∧ 0 < total h

theorem groupsOf_mem (dice : List (Hist α)) :
    ∀ g ∈ groupsOf dice, 0 < g.2 ∧ g.1 ∈ dice := by
  induction dice with
  | nil => simp [groupsOf]
  | cons h ds ih =>
    rw [groupsOf]
    split
    · rename_i h' n gs heq
      rw [heq] at ih
      split
      · rename_i hh
        intro g hg
        simp only [List.mem_cons] at hg
        rcases hg with rfl | hg
        · exact ⟨by simp, by simp⟩
        · have := ih g (by simp [hg]); exact ⟨this.1, by simp [this.2]⟩
      · intro g hg
        simp only [List.mem_cons] at hg
        rcases hg with rfl | rfl | hg
        · exact ⟨by simp, by simp⟩
        · have := ih (h', n) (by simp); exact ⟨this.1, by simp [this.2]⟩
        · have := ih g (by simp [hg]); exact ⟨this.1, by simp [this.2]⟩
    · intro g hg
      simp only [List.mem_singleton] at hg
      subst hg
      exact ⟨by simp, by simp⟩

theorem groups_ok (dice : List (Hist α)) (hd : DiceOK le dice) :
    ∀ g ∈ groupsOf dice, GroupOK le g := by
  intro g hg
  obtain ⟨h1, h2⟩ := groupsOf_mem dice g hg
  exact ⟨h1, (hd g.1 h2).1, (hd g.1 h2).2⟩

theorem sum_groupsOf (dice : List (Hist α)) :
    ((groupsOf dice).map (·.2)).sum = dice.length := by
  rw [← expand_length, expand_groupsOf]

theorem takeIdxs_range_opt (roll : List (Option α)) (n : Nat) (hn : roll.length = n) :
    takeIdxs roll (List.range n) = roll := by
  apply List.ext_getElem
  · simp [takeIdxs, hn]
  · intro j h1 h2
    simp only [takeIdxs, List.getElem_map, List.getElem_range]
    rw [List.getElem?_eq_getElem h2]
    cases roll[j] <;> rfl

theorem rawRolls_hetero (dice : List (Hist α)) (i : Option Int) (g₁ g₂ : Hist α × Nat)
    (gs : List (Hist α × Nat)) (hgs : groupsOf dice = g₁ :: g₂ :: gs) :
    rawRolls le dice i = rwcHetero le (g₁ :: g₂ :: gs) i := by
  unfold rawRolls
  rw [hgs]

/-- **core of C02**: whatever strategy the dispatcher picks, the yielded `(roll, count)` pairs,
aggregated per roll, are the brute-force ones. -/
theorem finish_rawRolls_correct (hle : TotalOrderB le) (dice : List (Hist α)) (hne : dice ≠ [])
    (hd : DiceOK le dice) (idxs? : Option (List Nat)) (i : Option Int)
    (hc : Consistent dice.length idxs? i) (hi0 : i ≠ some 0) (r : List (Option α)) :
    countOf r (finishRolls idxs? (rawRolls le dice i))
      = specRWC le dice (effIdxs dice.length idxs?) r := by
  have hgok := groups_ok dice hd
  have hsum := sum_groupsOf dice
  have hexp := expand_groupsOf dice
  rcases hgs : groupsOf dice with _ | ⟨g₁, _ | ⟨g₂, gs⟩⟩
  · -- no group: impossible for a non-empty pool
    rw [hgs] at hexp
    exact absurd hexp.symm (by simpa [expand] using hne)
  · -- one group: homogeneous pool
    rw [hgs] at hexp hsum hgok
    obtain ⟨h, m⟩ := g₁
    have hdice : dice = List.replicate m h := by simpa [expand] using hexp.symm
    have hm : dice.length = m := by simpa using hsum.symm
    obtain ⟨hm0, hs, hT⟩ := hgok (h, m) (by simp)
    rw [hm] at hc ⊢
    rw [hdice]
    exact finish_rawRolls_homog hle h hs hT m hm0 idxs? i hc r
  · -- several groups
    rw [rawRolls_hetero dice i g₁ g₂ gs hgs]
    rw [hgs] at hexp hsum hgok
    set N := dice.length with hN
    have hNsum : ((g₁ :: g₂ :: gs).map (·.2)).sum = N := hsum
    have hNpos : 0 < N := by
      rw [hN]; exact List.length_pos_of_ne_nil hne
    rw [← hexp]
    cases idxs? with
    | none =>
      -- no selection: `i = n`, rolls are returned whole
      simp only [Consistent] at hc
      subst hc
      simp only [effIdxs, Option.getD_none]
      have hlow := hetero_low hle g₁ (g₂ :: gs) hgok N hNpos (List.range N)
        (fun j hj => List.mem_range.mp hj) r
      rw [← hlow]
      -- `finishRolls none = finishRolls (some (range N))` on rolls of length `N`
      congr 1
      unfold finishRolls rwcHetero
      rw [List.map_map, List.map_map]
      apply List.map_congr_left
      intro e he
      simp only [Function.comp]
      congr 1
      symm
      apply takeIdxs_range_opt
      have hlen := per_length_bound (le := le) (g₁ :: g₂ :: gs) hgok
        (fun g' => if ((N : Int) ≠ 0 ∧ (N : Int).natAbs < g'.2) then (N : Int) else g'.2) e he
      have hk0 : ¬ ((N : Int) < 0) := by omega
      simp only [hk0, if_false, List.length_append, List.length_map, List.length_replicate]
      rw [(sortBy_perm le e.1).length_eq, hNsum]
      rw [hNsum] at hlen
      omega
    | some idxs =>
      obtain ⟨hlt, hi⟩ := hc
      simp only [effIdxs, Option.getD_some]
      cases i with
      | none => exact hetero_full hle g₁ (g₂ :: gs) hgok idxs r
      | some i' =>
        have hsound := analyze_sound N idxs hlt i' hi.symm
        have hi'0 : i' ≠ 0 := fun h => hi0 (by rw [h])
        rcases lt_or_gt_of_ne hi'0 with hneg | hpos
        · -- high end
          obtain ⟨k, hk⟩ : ∃ k : Nat, i' = -(k : Int) := ⟨i'.natAbs, by omega⟩
          subst hk
          have hk0 : 0 < k := by omega
          apply hetero_high hle g₁ (g₂ :: gs) hgok k hk0 idxs
          intro j hj
          have := hsound.2.2.1 hneg j hj
          rw [hNsum]; omega
        · -- low end (or every position the same number of times)
          obtain ⟨k, hk⟩ : ∃ k : Nat, i' = (k : Int) := ⟨i'.natAbs, by omega⟩
          subst hk
          have hk0 : 0 < k := by omega
          apply hetero_low hle g₁ (g₂ :: gs) hgok k hk0 idxs
          intro j hj
          by_cases hkN : (k : Int) < N
          · have := hsound.2.1 hpos hkN j hj; omega
          · have := hlt j hj; omega

end Dyce

namespace Dyce
open List

variable {α : Type} [DecidableEq α] {le : α → α → Bool}

theorem analyze_zero_iff (n : Nat) (idxs : List Nat) (hlt : ∀ j ∈ idxs, j < n) :
    analyze n idxs = some 0 ↔ idxs = [] := by
  constructor
  · intro h; exact (analyze_sound n idxs hlt 0 h).1 rfl
  · intro h; subst h; rfl

/-- **C02, no selection**: `p.rolls_with_counts()` -/
theorem rollsWithCounts_nosel (hle : TotalOrderB le) (dice : List (Hist α)) (hd : DiceOK le dice) :
    ∃ L, rollsWithCounts le dice [] = .ok L ∧
      ∀ r, countOf r L =
        if dice = [] then 0 else specRWC le dice (List.range dice.length) r := by
  unfold rollsWithCounts
  simp only [pure, Except.pure, bind, Except.bind]
  by_cases hne : dice = []
  · subst hne; exact ⟨[], by simp, by simp⟩
  · have hn : dice.length ≠ 0 := fun h => hne (List.length_eq_zero_iff.mp h)
    have h0 : ¬ ((some (dice.length : Int) : Option Int) = some 0 ∨ dice.length = 0) := by
      intro hh; rcases hh with hh | hh
      · simp only [Option.some.injEq] at hh; omega
      · exact hn hh
    refine ⟨finishRolls none (rawRolls le dice (some (dice.length : Int))), ?_, ?_⟩
    · rw [if_neg h0]
    · intro r
      rw [if_neg hne]
      exact finish_rawRolls_correct hle dice hne hd none (some (dice.length : Int)) rfl
        (by simp only [ne_eq, Option.some.injEq]; omega) r

/-- **C02, with a selection** -/
theorem rollsWithCounts_sel (hle : TotalOrderB le) (dice : List (Hist α)) (hd : DiceOK le dice)
    (s : Sel) (ss : List Sel) :
    (∀ e, resolve dice.length (s :: ss) = .error e →
        rollsWithCounts le dice (s :: ss) = .error e) ∧
    (∀ idxs, resolve dice.length (s :: ss) = .ok idxs →
      ∃ L, rollsWithCounts le dice (s :: ss) = .ok L ∧
        ∀ r, countOf r L =
          if idxs = [] ∨ dice = [] then 0 else specRWC le dice idxs r) := by
  constructor
  · intro e he
    unfold rollsWithCounts
    simp only [he, Except.map, bind, Except.bind]
  · intro idxs hres
    have hlt := resolve_lt dice.length (s :: ss) idxs hres
    unfold rollsWithCounts
    simp only [hres, Except.map, bind, Except.bind, pure, Except.pure]
    by_cases h0 : analyze dice.length idxs = some 0 ∨ dice.length = 0
    · refine ⟨[], by rw [if_pos h0], ?_⟩
      intro r
      have : idxs = [] ∨ dice = [] := by
        rcases h0 with h0 | h0
        · exact Or.inl ((analyze_zero_iff _ _ hlt).mp h0)
        · exact Or.inr (List.length_eq_zero_iff.mp h0)
      rw [if_pos this]; rfl
    · refine ⟨finishRolls (some idxs) (rawRolls le dice (analyze dice.length idxs)),
        by rw [if_neg h0], ?_⟩
      intro r
      have hne : dice ≠ [] := fun h => h0 (Or.inr (by rw [h]; rfl))
      have hidx : idxs ≠ [] := fun h => h0 (Or.inl ((analyze_zero_iff _ _ hlt).mpr h))
      have : ¬ (idxs = [] ∨ dice = []) := by
        intro hh; rcases hh with hh | hh
        · exact hidx hh
        · exact hne hh
      rw [if_neg this]
      exact finish_rawRolls_correct hle dice hne hd (some idxs) (analyze dice.length idxs)
        ⟨hlt, rfl⟩ (fun h => h0 (Or.inl h)) r

end Dyce
