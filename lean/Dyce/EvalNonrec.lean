import Dyce.EvalModel
import Mathlib.Tactic.Common

/-! A non-recursive callback: the evaluation is the aggregate over the Cartesian product of the
source results (C06's "sum over the Cartesian product ... of the product of their probabilities
times the callback's returned outcome or histogram"). -/
namespace Dyce

variable {α ρ : Type}

theorem branch_fold_nonrec (ev : Nat → List (Src ρ) → Option Limit → M Cell (Hist α))
    (f : Fn α ρ) (g : List ρ → Ret α) (hbody : ∀ ids, f.body ids = .ret (g ids))
    (mkCtx : Nat → Ctx) (c : Cell) :
    ∀ (bs : List (List ρ × Nat)) (acc : M Cell (List (Ret α × Nat))) (sofar : List (Ret α × Nat)),
      acc c = (.ok sofar, c) →
      (bs.foldl (branchStep ev f mkCtx) acc) c = (.ok (sofar ++ bs.map fun bw => (g bw.1, bw.2)), c) := by
  intro bs
  induction bs with
  | nil => intro acc sofar h; simpa using h
  | cons b bs ih =>
    intro acc sofar h
    simp only [List.foldl_cons, List.map_cons]
    have := ih (branchStep ev f mkCtx acc b) (sofar ++ [(g b.1, b.2)]) (by
      simp only [branchStep, bind, M.bind, h, M.get, M.set, hbody, runProg, guarded, pure, M.pure])
    rw [this]
    simp

/-- **C06**: with a callback that only returns (no nested evaluation), a top-level or nested
evaluation that is not cut by its limit is exactly `aggregate_weighted` over the Cartesian product
of the presented source results with multiplied counts, reduced to lowest terms at depth 0; the
context variable is left untouched. -/
theorem evalFn_nonrec (env : Nat → Fn α ρ) (agg : List (Ret α × Nat) → Hist α)
    (lowest : Hist α → Hist α) (fuel fn : Nat) (srcs : List (Src ρ)) (lim : Option Limit) (c : Cell)
    (g : List ρ → Ret α) (hbody : ∀ ids, (env fn).body ids = .ret (g ids))
    (hcut : cutNow ((lim.orElse fun _ => (c.getD ⟨none, 0, 1, 1⟩).limit).getD (.int 1))
      (c.getD ⟨none, 0, 1, 1⟩) = false) :
    evalFn env agg lowest (fuel + 1) fn srcs lim c
      = (.ok ((if (c.getD ⟨none, 0, 1, 1⟩).depth = 0 then lowest else id)
          (agg ((branches srcs).map fun bw => (g bw.1, bw.2)))), c) := by
  unfold evalFn
  simp only [hcut, Bool.false_eq_true, if_false]
  rw [branch_fold_nonrec (evalFn env agg lowest fuel) (env fn) g hbody _ c (branches srcs) (pure []) [] rfl]
  simp only [List.nil_append]
  split <;> rfl

end Dyce
