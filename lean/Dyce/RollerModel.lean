import Dyce.Model
import Dyce.SelectModel
/-! Import-free model of roller trees: every `roll()` is run in the weighted-list monad, i.e. all
random choices are enumerated with the weights the library passes to the generator. -/
namespace Dyce

/-- weighted nondeterminism: all results with their weights -/
abbrev W (β : Type) := List (β × Nat)

def W.pure {β} (b : β) : W β := [(b, 1)]
def W.bind {β γ} (x : W β) (f : β → W γ) : W γ :=
  x.flatMap fun bw => (f bw.1).map fun cw => (cw.1, bw.2 * cw.2)
instance : Monad W where
  pure := W.pure
  bind := W.bind

/-- `H.roll()`: one weighted choice among the faces (zero-count faces are never returned);
`0` for a histogram without positive counts -/
def rollHist (h : Hist Int) : W Int :=
  if total h = 0 then [(0, 1)] else h.filter (fun oc => oc.2 ≠ 0)

/-- a roll outcome: value (`none` = tombstone), sources, and whether `Roll.__init__` associated it
with a roll -/
inductive RO where
  | mk (value : Option Int) (sources : List RO) (owned : Bool)

def RO.value : RO → Option Int | .mk v _ _ => v
def RO.sources : RO → List RO | .mk _ s _ => s
def RO.owned : RO → Bool | .mk _ _ o => o
def RO.own : RO → RO | .mk v s _ => .mk v s true

inductive Leaf where
  | scalar (v : Int)
  | hist (h : Hist Int)
  | pool (hs : List (Hist Int))

inductive RTree where
  | value (l : Leaf)
  | pool (srcs : List RTree)
  | rep (n : Nat) (src : RTree)
  | bin (op : Int → Int → Int) (l r : RTree)
  | un (op : Int → Int) (s : RTree)
  /-- `r.umap(custom)` where the callable combines RollOutcome operations in several steps
  (`lambda o: abs(o - 4) * 2`): every step yields a fresh outcome whose only source is the previous one -/
  | unChain (ops : List (Int → Int)) (s : RTree)
  | filt (p : Int → Bool) (srcs : List RTree)
  | sel (which : List Sel) (srcs : List RTree)
  /-- `SubstitutionRoller(lambda o: e.roll() if p(o.value) else o, src, coalesce_mode, max_depth)` -/
  | subst (p : Int → Bool) (e : RTree) (replace : Bool) (maxDepth : Nat) (src : RTree)
  /-- `SubstitutionRoller(lambda o: RollOutcome(f(o.value)) if p(o.value) else o, src, max_depth=…)`:
  the expansion operator answers with a fresh outcome instead of a roll -/
  | substMap (p : Int → Bool) (f : Int → Int) (maxDepth : Nat) (src : RTree)

/-- a roll: its outcomes and its source rolls (the producing roller is the tree node itself) -/
inductive RollRec where
  | mk (outcomes : List RO) (sourceRolls : List RollRec)

def RollRec.outcomes : RollRec → List RO | .mk o _ => o
def RollRec.sourceRolls : RollRec → List RollRec | .mk _ s => s

/-- `Roll.outcomes()`: the live values -/
def RollRec.values (r : RollRec) : List Int := r.outcomes.filterMap RO.value

/-- `Roll.__init__` as pinned: associate the (top-level) outcomes that have no roll yet -/
def mkRollTop (outcomes : List RO) (sourceRolls : List RollRec) : RollRec :=
  .mk (outcomes.map RO.own) sourceRolls

mutual
/-- associate an outcome and, recursively, every source that has no roll yet -/
def RO.ownDeep : RO → RO
  | .mk v srcs o => if o then .mk v srcs o else .mk v (RO.ownDeepList srcs) true
def RO.ownDeepList : List RO → List RO
  | [] => []
  | r :: rs => r.ownDeep :: RO.ownDeepList rs
end

/-- `Roll.__init__` as repaired (F6): un-owned sources are associated too -/
def mkRollDeep (outcomes : List RO) (sourceRolls : List RollRec) : RollRec :=
  .mk (RO.ownDeepList outcomes) sourceRolls

mutual
/-- the outcome and everything reachable through `sources` is associated with a roll -/
def RO.allOwned : RO → Bool
  | .mk _ srcs o => o && RO.allOwnedList srcs
def RO.allOwnedList : List RO → Bool
  | [] => true
  | r :: rs => r.allOwned && RO.allOwnedList rs
end

mutual
/-- the C12 clause "every outcome reachable through `sources` is associated with a roll", for a
roll and all its source rolls -/
def RollRec.wellOwned : RollRec → Bool
  | .mk outs srs => RO.allOwnedList outs && RollRec.wellOwnedList srs
def RollRec.wellOwnedList : List RollRec → Bool
  | [] => true
  | r :: rs => r.wellOwned && RollRec.wellOwnedList rs
end

def liveOutcomes (rolls : List RollRec) : List RO :=
  (rolls.flatMap RollRec.outcomes).filter fun ro => ro.value.isSome

/-- the operand an n-ary sum-op roller builds for one source roll -/
def sumOperand (sr : RollRec) : RO :=
  match sr.outcomes with
  | [ro] => if ro.value.isSome then ro else .mk (some sr.values.sum) sr.outcomes false
  | _ => .mk (some sr.values.sum) sr.outcomes false

def euthanize (ro : RO) : RO := .mk none [ro] false

/-- what a multi-step custom operator builds from its operand: one fresh, not yet associated outcome
per step, each recording the previous one as its source -/
def chainRO : List (Int → Int) → RO → RO
  | [], a => a
  | f :: fs, a => chainRO fs (.mk (some (f (a.value.getD 0))) [a] false)

/-- stable insertion sort of roll outcomes by value (an outcome is inserted BEFORE equal-valued ones and the fold runs from the right, so equal values keep their original order) (`list.sort(key=attrgetter("value"))`) -/
def insertRO (x : RO) : List RO → List RO
  | [] => [x]
  | y :: ys => if (x.value.getD 0) ≤ (y.value.getD 0) then x :: y :: ys else y :: insertRO x ys
def sortRO (l : List RO) : List RO := l.foldr insertRO []

/-- `n` independent repetitions -/
def replicateW {β} : Nat → W β → W (List β)
  | 0, _ => pure []
  | n + 1, x => do
    let r ← x
    let rs ← replicateW n x
    pure (r :: rs)

/-- `RollOutcome.adopt((o,), CoalesceMode.APPEND)`: same value and owner, `o` appended to the sources -/
def RO.adoptAppend (o : RO) : RO → RO
  | .mk v srcs ow => .mk v (srcs ++ [o]) ow

/-- `SubstitutionRoller.roll`'s `_expanded_roll_outcomes(roll, depth)` with `k = max_depth - depth`
levels left: returns the yielded outcomes and the rolls appended to `source_rolls`, in order.
`rollE` is "roll the expansion roller once more" (every use is an independent re-roll). -/
def expandW (mkRoll : List RO → List RollRec → RollRec) (p : Int → Bool) (rollE : W RollRec)
    (replace : Bool) : Nat → RollRec → W (List RO × List RollRec)
  | 0, roll => pure (roll.outcomes.filter (fun ro => ro.value.isSome), [roll])
  | k + 1, roll =>
    (roll.outcomes.filter (fun ro => ro.value.isSome)).foldl
      (fun acc o => do
        let st ← acc
        if p (o.value.getD 0) then do
          let er ← rollE
          -- `expanded.adopt((roll_outcome,), APPEND)` builds a new Roll around the adopted outcomes
          let adopted := mkRoll (er.outcomes.map (RO.adoptAppend o)) er.sourceRolls
          let sub ← expandW mkRoll p rollE replace k adopted
          pure (st.1 ++ [if replace then euthanize o else o] ++ sub.1, st.2 ++ sub.2)
        else pure (st.1 ++ [o], st.2))
      (pure ([], [roll]))

mutual
/-- all rolls of a list of sources, in order -/
def rollAllW (mkRoll : List RO → List RollRec → RollRec) : List RTree → W (List RollRec)
  | [] => pure []
  | s :: ss => do
    let r ← rollW mkRoll s
    let rs ← rollAllW mkRoll ss
    pure (r :: rs)

/-- `r.roll()` with every random choice enumerated -/
def rollW (mkRoll : List RO → List RollRec → RollRec) : RTree → W RollRec
  | .value (.scalar v) => pure (mkRoll [.mk (some v) [] false] [])
  | .value (.hist h) => do
    let v ← rollHist h
    pure (mkRoll [.mk (some v) [] false] [])
  | .value (.pool hs) => do
    let vs ← hs.foldr (fun h acc => do let v ← rollHist h; let r ← acc; pure (v :: r)) (pure [])
    pure (mkRoll ((vs.mergeSort fun a b => decide (a ≤ b)).map fun v => .mk (some v) [] false) [])
  | .pool srcs => do
    let rs ← rollAllW mkRoll srcs
    pure (mkRoll (liveOutcomes rs) rs)
  | .rep n src => do
    let rs ← replicateW n (rollW mkRoll src)
    pure (mkRoll (liveOutcomes rs) rs)
  | .bin op l r => do
    let rl ← rollW mkRoll l
    let rr ← rollW mkRoll r
    let a := sumOperand rl
    let b := sumOperand rr
    pure (mkRoll [.mk (some (op (a.value.getD 0) (b.value.getD 0))) [a, b] false] [rl, rr])
  | .un op s => do
    let rs ← rollW mkRoll s
    let a := sumOperand rs
    pure (mkRoll [.mk (some (op (a.value.getD 0))) [a] false] [rs])
  | .unChain ops s => do
    let rs ← rollW mkRoll s
    pure (mkRoll [chainRO ops (sumOperand rs)] [rs])
  | .filt p srcs => do
    let rs ← rollAllW mkRoll srcs
    pure (mkRoll ((liveOutcomes rs).map fun ro => if p (ro.value.getD 0) then ro else euthanize ro) rs)
  | .sel which srcs => do
    let rs ← rollAllW mkRoll srcs
    let sorted := sortRO (liveOutcomes rs)
    match resolve sorted.length which with
    | .error _ => pure (mkRoll [] rs)  -- IndexError: modelled separately by the driver
    | .ok idxs =>
      let selected := idxs.filterMap fun j => sorted[j]?
      let excluded := (List.range sorted.length).filter fun j => !idxs.contains j
      pure (mkRoll (selected ++ excluded.filterMap fun j => (sorted[j]?).map euthanize) rs)
  | .subst p e replace maxDepth src => do
    let sr ← rollW mkRoll src
    let res ← expandW mkRoll p (rollW mkRoll e) replace maxDepth sr
    pure (mkRoll res.1 res.2)
  | .substMap p f maxDepth src => do
    let sr ← rollW mkRoll src
    let live := sr.outcomes.filter (fun ro => ro.value.isSome)
    pure (mkRoll
      (if maxDepth = 0 then live
       else live.map fun o =>
        -- `expanded.adopt((roll_outcome,), APPEND)`: the fresh outcome records the one it replaces
        if p (o.value.getD 0) then .mk (some (f (o.value.getD 0))) [o] false else o)
      [sr])
end

end Dyce
