import Dyce.PoolModel
import Dyce.PoolHModel
import Dyce.HistModel
import Dyce.OrderStatModel
import Dyce.PoolCtorModel
import Dyce.AppearModel
import Dyce.HistOpsModel
import Dyce.EvalConcrete
import Dyce.ExplodeModel
import Dyce.RollerModel
import Dyce.RollerSpec
import Dyce.RollModel
import Dyce.HeapModel
import Dyce.RngModel
import Dyce.GuardModel
/-! Line protocol over the executable model (import-free, so it links as a `lean_exe`).
Every op line is `OPCODE` followed by space-separated integers; lists are length-prefixed. -/
namespace Dyce.Driver
open Dyce

def leI (a b : Int) : Bool := decide (a ≤ b)

/-- a tiny parser monad over the token list -/
abbrev P := StateT (List Int) Option

def tok : P Int := do
  match (← get) with
  | [] => failure
  | x :: xs => set xs; pure x

def nat : P Nat := do let x ← tok; if x < 0 then failure else pure x.toNat

partial def many {β} (p : P β) : Nat → P (List β)
  | 0 => pure []
  | n + 1 => do let x ← p; let xs ← many p n; pure (x :: xs)

def listOf {β} (p : P β) : P (List β) := do let n ← nat; many p n

/-- histogram: `len (outcome count)*` -/
def hist : P (Hist Int) := listOf (do let o ← tok; let c ← nat; pure (o, c))

def optInt : P (Option Int) := do
  let f ← tok; let v ← tok
  pure (if f = 1 then some v else none)

/-- selection identifier: `0 i` = index, `1 f a f b f c` = slice -/
def sel : P Sel := do
  let t ← tok
  if t = 0 then do let i ← tok; pure (Sel.idx i)
  else do
    let a ← optInt; let b ← optInt; let c ← optInt
    pure (Sel.slc a b c)

def showErr : PyErr → String
  | .indexError => "IndexError"
  | .valueError => "ValueError"
  | .typeError => "TypeError"
  | .zeroDivisionError => "ZeroDivisionError"

def showHist (h : Hist Int) : String :=
  "ok " ++ " ".intercalate (h.map fun oc => toString oc.1 ++ ":" ++ toString oc.2)

/-! ### canonical aggregation of (roll, count) lists -/

def insertAgg {β} [BEq β] (r : β) (c : Nat) : List (β × Nat) → List (β × Nat)
  | [] => [(r, c)]
  | (r', c') :: t => if r == r' then (r', c' + c) :: t else (r', c') :: insertAgg r c t

def showRoll (r : List (Option Int)) : String :=
  "(" ++ ",".intercalate (r.map fun o => match o with | some x => toString x | none => "PAD") ++ ")"

def lexLt : List (Option Int) → List (Option Int) → Bool
  | [], [] => false
  | [], _ => true
  | _, [] => false
  | a :: as, b :: bs =>
    let ka := a.getD (-1000000000); let kb := b.getD (-1000000000)
    if ka < kb then true else if ka > kb then false else lexLt as bs

def showRolls (L : List (List (Option Int) × Nat)) : String :=
  let agg := L.foldl (fun acc e => if e.2 = 0 then acc else insertAgg e.1 e.2 acc) []
  let sorted := agg.mergeSort (fun a b => !(lexLt b.1 a.1))
  "ok " ++ " ".intercalate (sorted.map fun e => showRoll e.1 ++ ":" ++ toString e.2)

/-! ### ops -/

def opRWC : P String := do
  let dice ← listOf hist
  let sels ← listOf sel
  match rollsWithCounts leI dice sels with
  | .error e => pure ("err " ++ showErr e)
  | .ok L => pure (showRolls L)

/-- brute-force specification of the same op (used as a self-check of the executable reading of
the C02 theorem): Cartesian product, sort, pick -/
def opRWCSPEC : P String := do
  let dice ← listOf hist
  let sels ← listOf sel
  match sels with
  | [] =>
    if dice.length = 0 then pure "ok " else
    pure (showRolls ((poolTuples dice).map fun tw => ((sortBy leI tw.1).map some, tw.2)))
  | _ =>
  match resolve dice.length sels with
  | .error e => pure ("err " ++ showErr e)
  | .ok idxs =>
    if idxs.isEmpty then pure "ok " else
    pure (showRolls ((poolTuples dice).map fun tw => (takeIdxs ((sortBy leI tw.1).map some) idxs, tw.2)))

def opPH : P String := do
  let dice ← listOf hist
  let sels ← listOf sel
  match poolH leI 0 (· + ·) (fun k x => (k : Int) * x) dice sels with
  | .error e => pure ("err " ++ showErr e)
  | .ok h => pure (showHist h)

/-- positions `0..n-1` as outcomes, with the given counts -/
def idxHist (cs : List Nat) : Hist Int := (List.range cs.length).zip cs |>.map fun ic => ((ic.1 : Int), ic.2)

def showHistT (h : Hist Int) : String :=
  let pos := h.filter fun oc => oc.2 ≠ 0
  "ok " ++ " ".intercalate (pos.map fun oc => toString oc.1 ++ ":" ++ toString oc.2) ++ " total=" ++ toString (total h)

/-- an operand: `0 counts…` = histogram (outcomes are positions), or
`1 dice… flat…` = pool, flattened by the model (`sumH`), whose outcomes must be the listed ones -/
def operand : P (Except String (List Nat)) := do
  let t ← tok
  if t = 0 then do
    let cs ← listOf nat
    pure (.ok cs)
  else do
    let dice ← listOf hist
    let flat ← listOf tok
    let F := sumH leI 0 (· + ·) dice
    if F.map Prod.fst = flat then pure (.ok (F.map Prod.snd)) else pure (.error "flat-mismatch")

/-- `MAP operand operand table[la*lb]`: `a op b` with `op` given as the table of Python's own
results (as ranks) on every operand pair -/
def opMAP : P String := do
  let a ← operand
  let b ← operand
  match a, b with
  | .ok ca, .ok cb =>
    let tbl ← many tok (ca.length * cb.length)
    let arr := tbl.toArray
    let lb := cb.length
    let op (i j : Int) : Int := arr.getD (i.toNat * lb + j.toNat) (-1)
    pure (showHistT (mapH leI op (idxHist ca) (idxHist cb)))
  | .error e, _ => pure e
  | _, .error e => pure e

/-- `UMAP la counts… table[la]`: relabelling (unary operator / scalar operand on either side) -/
def opUMAP : P String := do
  let a ← operand
  match a with
  | .ok ca =>
    let tbl ← many tok ca.length
    let arr := tbl.toArray
    pure (showHistT (umapH leI (fun i => arr.getD i.toNat (-1)) (idxHist ca)))
  | .error e => pure e

/-- `MATMUL n hist` : `n @ h` (negative `n` → ValueError) -/
def opMATMUL : P String := do
  let n ← tok
  let h ← hist
  if n < 0 then pure "err ValueError" else
  pure (showHistT (matmulH leI 0 (· + ·) n.toNat h))

/-- a `P(...)` argument: `0 hist` | `1 n` (the `H(n)` shorthand) | `2 args…` (a nested pool) -/
partial def parg : P (PArg Int) := do
  let t ← tok
  if t = 0 then do let h ← hist; pure (PArg.hist h)
  else if t = 1 then do let n ← tok; pure (PArg.hist (ofInt n))
  else do
    let args ← listOf parg
    pure (PArg.pool (mkPool leI args))

def showDice (ds : List (Hist Int)) : String :=
  "ok " ++ " ".intercalate (ds.map fun h => "[" ++ ",".intercalate (h.map fun oc => toString oc.1 ++ ":" ++ toString oc.2) ++ "]")
    ++ " total=" ++ toString (poolTotal ds)

/-- `PMK args…` : the dice of `P(*args)` in canonical order, and `P.total` -/
def opPMK : P String := do
  let args ← listOf parg
  pure (showDice (mkPool leI args))

/-- `PMATMUL n args…` : `n @ P(*args)` -/
def opPMATMUL : P String := do
  let n ← tok
  let args ← listOf parg
  if n < 0 then pure "err ValueError" else
  pure (showDice (matmulP leI n.toNat (mkPool leI args)))

/-- `OSTAT hist n pos` : `h.order_stat_for_n_at_pos(n, pos)` (negative `pos` counts from the end) -/
def opOSTAT : P String := do
  let h ← hist
  let n ← nat
  let pos ← tok
  let p : Int := if pos < 0 then pos + n else pos
  if p < 0 ∨ p ≥ n then pure "err out-of-range" else
  pure (showHistT (orderStat leI h n p.toNat))

/-- `EXK hist outcome n k` : `h.exactly_k_times_in_n(outcome, n, k)` -/
def opEXK : P String := do
  let h ← hist
  let o ← tok
  let n ← nat
  let k ← nat
  pure ("ok " ++ toString (exactlyK h o n k))

/-- `APPEAR dice outcome` : `p.appearances_in_rolls(outcome)` -/
def opAPPEAR : P String := do
  let dice ← listOf hist
  let o ← tok
  let r := appearances dice o
  pure (showHistT (r.map fun kc => ((kc.1 : Int), kc.2)))

/-- all entries, zero counts included -/
def showHistAll (h : Hist Int) : String :=
  "ok " ++ " ".intercalate (h.map fun oc => toString oc.1 ++ ":" ++ toString oc.2) ++ " total=" ++ toString (total h)

/-- raw constructor items: `len (outcome count)*` with possibly negative counts -/
def rawItems : P (List (Int × Int)) := listOf (do let o ← tok; let c ← tok; pure (o, c))

/-- `CTOR items` : `H(items)`: negative count → ValueError; else sort + accumulate -/
def opCTOR : P String := do
  let items ← rawItems
  if items.any (fun oc => decide (oc.2 < 0)) then pure "err ValueError" else
  pure (showHistAll (ofItems leI (items.map fun oc => (oc.1, oc.2.toNat))))

def opLT : P String := do
  let h ← hist
  pure (showHistAll (lowestTerms leI h))

def opEQ : P String := do
  let a ← hist
  let b ← hist
  pure ("ok eq=" ++ toString (eqH leI a b) ++ " hasheq=" ++ toString (decide (hashKey leI a = hashKey leI b)))

def opDRAW : P String := do
  let h ← hist
  let req ← rawItems
  match drawH leI h req with
  | .error .notInDeck => pure "err ValueError notInDeck"
  | .error .negative => pure "err ValueError negative"
  | .ok r => pure (showHistAll r)

def opACC : P String := do
  let a ← hist
  let b ← hist
  pure (showHistAll (accumulate leI a b))

def opZFILL : P String := do
  let h ← hist
  let outs ← listOf tok
  pure (showHistAll (zeroFill leI h outs))

def opREMOVE : P String := do
  let h ← hist
  let o ← tok
  pure (showHistAll (removeH leI h o))

/-- `PEQ dice hist` : `P(*dice) == h`, i.e. `p.h() == h` -/
def opPEQ : P String := do
  let dice ← listOf hist
  let b ← hist
  let a := sumH leI 0 (· + ·) dice
  pure ("ok eq=" ++ toString (eqH leI a b) ++ " hasheq=" ++ toString (decide (hashKey leI a = hashKey leI b)))

/-- `DRAWSEQ hist k req₁ … req_k` : successive draws from one deck; a rejected draw leaves the deck as it was -/
def opDRAWSEQ : P String := do
  let h ← hist
  let reqs ← listOf rawItems
  let step (st : Hist Int × List String) (req : List (Int × Int)) : Hist Int × List String :=
    match drawH leI st.1 req with
    | .error .notInDeck => (st.1, st.2 ++ ["err ValueError"])
    | .error .negative => (st.1, st.2 ++ ["err ValueError"])
    | .ok r => (r, st.2 ++ [showHistAll r])
  pure (" | ".intercalate (reqs.foldl step (h, [])).2)

def ratOf (n d : Int) : Rat := (n : Rat) / (d : Rat)
def showRat (q : Rat) : String := toString q.num ++ "/" ++ toString q.den

/-- histogram with rational outcomes: `len (num den count)*` -/
def ratHist : P (Hist Rat) := listOf (do let n ← tok; let d ← tok; let c ← nat; pure (ratOf n d, c))

/-- `STATS ratHist muFlag muNum muDen` -/
def opSTATS : P String := do
  let h ← ratHist
  let f ← tok
  let mn ← tok
  let md ← tok
  let mu : Option Rat := if f = 1 then some (ratOf mn md) else none
  let dist := distribution h
  pure ("ok mean=" ++ showRat (meanH h) ++ " var=" ++ showRat (varianceH h mu) ++ " dist="
    ++ ",".intercalate (dist.map fun op => showRat op.1 ++ "@" ++ showRat op.2)
    ++ " sum=" ++ showRat ((dist.map Prod.snd).sum))

/-! ### the evaluator -/

def showEvalErr : Err → String
  | .valueError => "ValueError"
  | .typeError => "TypeError"
  | .recursionError => "RecursionError"
  | .zeroDivision => "ZeroDivisionError"
  | .user t => "User" ++ toString t

def rawLimit : P RawLimit := do
  let t ← tok
  if t = 0 then pure .none
  else if t = 1 then do let n ← tok; pure (.int n)
  else do let a ← tok; let b ← tok; pure (.frac a b)

def srcP : P (Src Nat) := do
  let total ← nat
  let res ← listOf (do let i ← nat; let c ← nat; pure (i, c))
  pure ⟨res, total⟩

def actP : P Act := do
  let t ← tok
  if t = 0 then do let o ← tok; pure (.out o)
  else if t = 1 then do let h ← hist; pure (.hist h)
  else if t = 2 then do
    let k ← tok
    pure (.throw (if k = 0 then .recursionError else if k = 1 then .valueError else .user k.toNat))
  else if t = 3 then do
    let fn ← nat; let sl ← nat; let l ← rawLimit; let c ← tok
    pure (.rec1 fn sl l c)
  else do
    let f1 ← nat; let s1 ← nat; let l1 ← rawLimit
    let f2 ← nat; let s2 ← nat; let l2 ← rawLimit
    pure (.rec2 f1 s1 l1 f2 s2 l2)

def fnP : P FnTable := do
  let sentinel ← hist
  let sizes ← listOf nat
  let acts ← listOf actP
  pure ⟨sentinel, sizes, acts.toArray⟩

/-- `EVAL srcLists fns calls` : a history of top-level evaluations in one interpreter -/
def opEVAL : P String := do
  let sls ← listOf (listOf srcP)
  let fns ← listOf fnP
  let calls ← listOf (do let fn ← nat; let sl ← nat; let l ← rawLimit; pure (fn, sl, l))
  let step (st : Cell × List String) (c : Nat × Nat × RawLimit) : Cell × List String :=
    let (r, cell') := evalTop fns.toArray sls.toArray 100000 c.1 c.2.1 c.2.2 st.1
    (cell', st.2 ++ [match r with
      | .ok h => showHistAll h
      | .error e => "err " ++ showEvalErr e])
  let (cell, outs) := calls.foldl step (none, [])
  pure (" ; ".intercalate outs ++ (if cell.isNone then " ; cell=unset" else " ; cell=LEAKED"))

/-- `AGG n (kind payload count)*` : `aggregate_weighted` alone -/
def opAGG : P String := do
  let brs ← listOf (do
    let t ← tok
    let r ← (if t = 0 then do let o ← tok; pure (Ret.out o) else do let h ← hist; pure (Ret.hist h))
    let c ← nat
    pure (r, c))
  pure (showHistAll (aggregateWeighted leI brs))

/-- `EXPLODE hist nfaces faces… n` : `explode(h, face ∈ faces, limit=n)` on the evaluator model -/
def opEXPLODE : P String := do
  let h ← hist
  let faces ← listOf tok
  let n ← nat
  match (explodeEval (n + 1) h (fun f => faces.contains f) (some (.int n)) none).1 with
  | .ok r => pure (showHistAll r)
  | .error e => pure ("err " ++ showEvalErr e)

/-- `EXPLODESPEC hist faces n` : the truncated re-roll process, reduced to lowest terms -/
def opEXPLODESPEC : P String := do
  let h ← hist
  let faces ← listOf tok
  let n ← nat
  pure (showHistAll (lowestTerms leI (explodeSpec h (fun f => faces.contains f) n)))

/-! ### roller trees -/

/-- two's-complement bitwise operations on `Int` (Python's `& | ^ ~` on ints), through `Nat` -/
def intNot (a : Int) : Int := -a - 1
def intAnd (a b : Int) : Int :=
  if a ≥ 0 then
    if b ≥ 0 then ((a.toNat &&& b.toNat : Nat) : Int)
    else (((a.toNat ^^^ (a.toNat &&& (intNot b).toNat)) : Nat) : Int)       -- a AND NOT nb
  else
    if b ≥ 0 then (((b.toNat ^^^ (b.toNat &&& (intNot a).toNat)) : Nat) : Int)
    else intNot (((intNot a).toNat ||| (intNot b).toNat : Nat) : Int)       -- NOT (na OR nb)
def intOr (a b : Int) : Int := intNot (intAnd (intNot a) (intNot b))
def intXor (a b : Int) : Int :=
  if a ≥ 0 then
    if b ≥ 0 then ((a.toNat ^^^ b.toNat : Nat) : Int) else intNot ((a.toNat ^^^ (intNot b).toNat : Nat) : Int)
  else
    if b ≥ 0 then intNot (((intNot a).toNat ^^^ b.toNat : Nat) : Int) else (((intNot a).toNat ^^^ (intNot b).toNat : Nat) : Int)

/-- the operator vocabulary of the correspondence (Python's int semantics: floor division and modulo;
zero divisors and negative exponents are outside the domain — the generator excludes them, and the
theorems about trees hold for every operator function anyway) -/
def binOp (c : Int) : Int → Int → Int :=
  if c = 0 then (· + ·) else if c = 1 then (· - ·) else if c = 2 then (· * ·)
  else if c = 3 then (fun a b => if a < b then 1 else 0)
  else if c = 4 then (fun a b => if a = b then 1 else 0)
  else if c = 5 then (fun a b => if a ≥ b then 1 else 0)
  else if c = 6 then (fun a b => if a ≠ b then 1 else 0)
  else if c = 7 then Int.fdiv
  else if c = 8 then Int.fmod
  else if c = 9 then (fun a b => if a ≤ b then 1 else 0)
  else if c = 10 then (fun a b => if a > b then 1 else 0)
  else if c = 11 then intAnd
  else if c = 12 then intOr
  else if c = 13 then intXor
  else (fun a b => a ^ b.toNat)

def unOp (c : Int) : Int → Int :=
  if c = 0 then (fun a => -a) else if c = 1 then (fun a => a.natAbs) else if c = 2 then (fun a => a)
  else if c = 3 then intNot
  else if c = 4 then (fun a => if a % 2 = 0 then 1 else 0)
  else (fun a => if a % 2 = 0 then 0 else 1)

def predOp (c arg : Int) : Int → Bool :=
  if c = 0 then (fun v => decide (v > arg)) else if c = 1 then (fun v => decide (v % 2 = 0))
  else if c = 2 then (fun v => decide (v = arg)) else (fun v => decide (v < arg))

def mapOp (c arg : Int) : Int → Int :=
  if c = 0 then (fun v => v) else if c = 1 then (fun v => min v arg) else if c = 2 then (fun v => -v)
  else (fun v => v + arg)

partial def rtree : P RTree := do
  let t ← tok
  if t = 0 then do let v ← tok; pure (.value (.scalar v))
  else if t = 1 then do let h ← hist; pure (.value (.hist h))
  else if t = 2 then do let hs ← listOf hist; pure (.value (.pool hs))
  else if t = 3 then do let ts ← listOf rtree; pure (.pool ts)
  else if t = 4 then do let n ← nat; let s ← rtree; pure (.rep n s)
  else if t = 5 then do let c ← tok; let l ← rtree; let r ← rtree; pure (.bin (binOp c) l r)
  else if t = 6 then do let c ← tok; let s ← rtree; pure (.un (unOp c) s)
  else if t = 7 then do let c ← tok; let a ← tok; let ts ← listOf rtree; pure (.filt (predOp c a) ts)
  else if t = 8 then do let w ← listOf sel; let ts ← listOf rtree; pure (.sel w ts)
  else if t = 9 then do
    let c ← tok; let a ← tok; let e ← rtree; let rep ← tok; let md ← nat; let src ← rtree
    pure (.subst (predOp c a) e (rep = 1) md src)
  else if t = 10 then do
    let c ← tok; let a ← tok; let fc ← tok; let fa ← tok; let md ← nat; let src ← rtree
    pure (.substMap (predOp c a) (mapOp fc fa) md src)
  else if t = 11 then do  -- a unary node whose function is a binary operator with a scalar on one side
    let c ← tok; let k ← tok; let side ← tok; let s ← rtree
    pure (.un (fun a => if side = 0 then binOp c a k else binOp c k a) s)
  else do  -- a custom multi-step operator: each step is a unary operator (k = 0, side = 2) or a scalar operation
    let steps ← listOf (do let c ← tok; let k ← tok; let side ← tok; pure (c, k, side))
    let s ← rtree
    pure (.unChain (steps.map fun (c, k, side) =>
      if side = 2 then unOp c else fun a => if side = 0 then binOp c a k else binOp c k a) s)

def showVals (vs : List Int) : String := "(" ++ ",".intercalate (vs.map toString) ++ ")"

def aggStrings (l : List (String × Nat)) : String :=
  let agg := l.foldl (fun acc e => if e.2 = 0 then acc else insertAgg e.1 e.2 acc) []
  let sorted := agg.mergeSort (fun a b => decide (a.1 ≤ b.1))
  "ok " ++ " ".intercalate (sorted.map fun e => e.1 ++ "*" ++ toString e.2)

mutual
partial def showRO : RO → String
  | .mk v srcs ow =>
    "O(" ++ (match v with | some x => toString x | none => "N") ++ (if ow then "+" else "-")
      ++ "[" ++ ",".intercalate (srcs.map showRO) ++ "])"
end

/-- live outcomes in order, then the tombstones sorted (their relative order is a set-iteration
artefact in the implementation) -/
def showOutcomes (outs : List RO) : String :=
  let live := (outs.filter fun o => o.value.isSome).map showRO
  let dead := ((outs.filter fun o => o.value.isNone).map showRO).mergeSort (fun a b => decide (a ≤ b))
  ",".intercalate (live ++ dead)

partial def showRec : RollRec → String
  | .mk outs srs => "R{" ++ showOutcomes outs ++ ";" ++ ",".intercalate (srs.map showRec) ++ "}"

/-- `ROLLVALS tree` : the exact distribution of `tuple(r.roll().outcomes())` over all random choices -/
def opROLLVALS : P String := do
  let t ← rtree
  pure (aggStrings ((rollW mkRollDeep t).map fun e => (showVals e.1.values, e.2)))

/-- `DENVALS tree` : the same distribution from the record-free denotation -/
def opDENVALS : P String := do
  let t ← rtree
  pure (aggStrings ((den t).map fun e => (showVals e.1, e.2)))

/-- `ROLLRECS tree` : the exact distribution of whole roll records -/
def opROLLRECS : P String := do
  let t ← rtree
  pure (aggStrings ((rollW mkRollDeep t).map fun e => (showRec e.1, e.2)))

/-- `PICKALL weights…` : CPython's `choices` index for every integer part `u < total` -/
def opPICKALL : P String := do
  let ws ← listOf nat
  pure ("ok " ++ " ".intercalate ((List.range ws.sum).map fun u => toString (pickIdx ws u)))

/-- `PROLL dice…` : the exact distribution of `P.roll()` -/
def opPROLL : P String := do
  let hs ← listOf hist
  pure (aggStrings ((rollPoolW hs).map fun e => (showVals e.1, e.2)))

/-- `PROLLS dice… answers…` : `P.roll()` against an explicit stream of generator answers: the roll
and the answers left over -/
def opPROLLS : P String := do
  let hs ← listOf hist
  let us ← listOf nat
  let r := rollPoolS hs us
  pure ("ok " ++ showVals r.1 ++ " | " ++ " ".intercalate (r.2.map toString))

/-! ### the object population (C15) -/

def heapOp : P HeapOp := do
  let t ← tok
  if t = 0 then do let h ← hist; pure (.newH h)
  else if t = 1 then do let i ← nat; pure (.aliasH i)
  else if t = 2 then do let d ← listOf nat; pure (.newP d)
  else if t = 3 then do let s ← nat; let a ← tok; pure (.newR s a)
  else pure .pureOrFail

def showObsH (o : Option (Hist Int)) : String :=
  match o with
  | some h => "{" ++ ",".intercalate (h.map fun oc => toString oc.1 ++ ":" ++ toString oc.2) ++ "}"
  | none => "?"

/-- `HEAP ops…` : run the history; report every object's final content and how many times a step
changed the content of an object that existed before it -/
def opHEAP : P String := do
  let ops ← listOf heapOp
  let step (st : Heap × Nat) (op : HeapOp) : Heap × Nat :=
    let hp' := st.1.step op
    let changedH := ((List.range st.1.hs.length).filter fun i => !(hp'.observeH i == st.1.observeH i)).length
    let changedP := ((List.range st.1.ps.length).filter fun j => !(hp'.observeP j == st.1.observeP j)).length
    let changedR := ((List.range st.1.rs.length).filter fun k => !(hp'.observeR k == st.1.observeR k)).length
    (hp', st.2 + changedH + changedP + changedR)
  let (hp, bad) := ops.foldl step (Heap.empty, 0)
  pure ("ok H[" ++ " ".intercalate ((List.range hp.hs.length).map fun i => showObsH (hp.observeH i)) ++ "] P["
    ++ " ".intercalate (hp.ps.map fun d => "(" ++ ",".intercalate (d.map toString) ++ ")") ++ "] R["
    ++ " ".intercalate (hp.rs.map fun r => toString r.1 ++ "/" ++ toString r.2) ++ "] changed=" ++ toString bad)

/-! ### the NumPy-backed generator (C17) -/

def hexByte (b : Nat) : String :=
  let d (x : Nat) : Char := if x < 10 then Char.ofNat (48 + x) else Char.ofNat (87 + x)
  String.mk [d (b / 16), d (b % 16)]

/-- `RNG state inc has32 u32 ops…` with ops `0` random, `1 k` getrandbits, `2 n` randbytes, `3` gauss,
`4` snapshot (getstate), `5` restore (setstate of the last snapshot) -/
def opRNG : P String := do
  let st ← nat; let inc ← nat; let h ← tok; let u ← nat
  let ops ← listOf (do
    let t ← tok
    if t = 1 then do let k ← tok; pure (t, k)
    else if t = 2 then do let n ← tok; pure (t, n)
    else pure (t, 0))
  let w0 : Rng.Wrapper := ⟨⟨st, inc, h = 1, u⟩, none⟩
  let step (acc : Rng.Wrapper × Option (Rng.Pcg × Option (Nat × Nat)) × List String) (op : Int × Int) :=
    let (w, snap, outs) := acc
    if op.1 = 4 then (w, some w.getstate, outs ++ ["S"])
    else if op.1 = 5 then
      match snap with
      | some s => (w.setstate s, snap, outs ++ ["R"])
      | none => (w, snap, outs ++ ["R"])
    else
      let rop : Rng.Op := if op.1 = 0 then .random else if op.1 = 1 then .getrandbits op.2
        else if op.1 = 2 then .randbytes op.2.toNat else .gauss
      let (o, w') := w.step rop
      let s := match o with
        | .float53 n => "F" ++ toString n
        | .int x => "I" ++ toString x
        | .bytes bs => "B" ++ String.join (bs.map hexByte)
        | .gaussFresh a b => "G" ++ toString a ++ "," ++ toString b
        | .gaussCached a b => "C" ++ toString a ++ "," ++ toString b
        | .err => "E"
      (w', snap, outs ++ [s])
  let (_, _, outs) := ops.foldl step (w0, none, [])
  pure ("ok " ++ " ".intercalate outs)

/-! ### argument guards (C19) -/

def pyArg : P Guard.PyArg := do
  let k ← tok
  if k = 0 then do let v ← tok; pure (.int v)
  else if k = 1 then do let v ← tok; pure (.bool (v = 1))
  else if k = 2 then do let v ← tok; pure (.npInt v)
  else if k = 3 then do let a ← tok; let b ← nat; pure (.float a b)
  else if k = 4 then pure .nan
  else if k = 5 then pure .posInf
  else if k = 6 then pure .negInf
  else if k = 7 then do let a ← tok; let b ← nat; pure (.frac a b)
  else if k = 8 then pure .str
  else pure .none

def showGErr : Guard.GErr → String
  | .valueError => "reject ValueError"
  | .typeError => "reject TypeError"
  | .indexError => "reject IndexError"

/-- `GUARD entry arg…` -/
def opGUARD : P String := do
  let e ← tok
  if e = 0 then do
    let a ← pyArg
    pure (match Guard.countGuard a with | .ok n => "accept " ++ toString n | .error x => showGErr x)
  else if e = 1 then do
    let a ← pyArg
    pure (match Guard.repeatGuard a with | .ok n => "accept " ++ toString n | .error x => showGErr x)
  else if e = 2 then do
    let a ← pyArg
    pure (match Guard.parityGuard a with | .ok b => "accept " ++ (if b then "1" else "0") | .error x => showGErr x)
  else if e = 3 then do
    let n ← nat
    let a ← pyArg
    pure (match Guard.positionGuard n a with | .ok j => "accept " ++ toString j | .error x => showGErr x)
  else if e = 4 then do
    let a ← pyArg
    pure (match Guard.limitGuard a with
      | .ok none => "accept none"
      | .ok (some (.int n)) => "accept int " ++ toString n
      | .ok (some (.frac p q)) => "accept frac " ++ toString p ++ " " ++ toString q
      | .error x => showGErr x)
  else if e = 5 then do
    let lo ← tok; let hi ← tok
    pure (match Guard.withinGuard lo hi with | .ok _ => "accept" | .error x => showGErr x)
  else if e = 6 then do
    let a ← tok; let b ← tok
    pure (match Guard.bothLimitsGuard (a = 1) (b = 1) with | .ok _ => "accept" | .error x => showGErr x)
  else do
    let a ← tok; let b ← nat
    pure (match Guard.rollOutcomeGuard (a = 1) b with | .ok _ => "accept" | .error x => showGErr x)

/-- the arguments of `SUBST` / `SUBSTSPEC`: family, per-member tables aligned with the faces,
coalesce mode, start index, depth -/
def substArgs : P (List (Hist Int) × (Nat → Int → SubAct) × Bool × Nat × Nat) := do
  let fam ← listOf hist
  let tbls ← listOf (listOf (do let k ← tok; let v ← tok; pure (if k = 0 then SubAct.out v else SubAct.hist v.toNat)))
  let add ← tok
  let start ← nat
  let n ← nat
  let tbl (j : Nat) (f : Int) : SubAct :=
    let faces := (fam.getD j []).map Prod.fst
    let row := tbls.getD j []
    match faces.idxOf? f with
    | some i => row.getD i (.out f)
    | none => .out f
  pure (fam, tbl, add = 1, start, n)

def opSUBST : P String := do
  let (fam, tbl, add, start, n) ← substArgs
  match (substEval (n + 1) fam tbl add start (some (.int n)) none).1 with
  | .ok r => pure (showHistAll r)
  | .error e => pure ("err " ++ showEvalErr e)

def opSUBSTSPEC : P String := do
  let (fam, tbl, add, start, n) ← substArgs
  pure (showHistAll (lowestTerms leI (substSpec fam tbl add start n start)))

def dispatch (op : String) : P String :=
  match op with
  | "RWC" => opRWC
  | "RWCSPEC" => opRWCSPEC
  | "PH" => opPH
  | "MAP" => opMAP
  | "UMAP" => opUMAP
  | "MATMUL" => opMATMUL
  | "CTOR" => opCTOR
  | "LT" => opLT
  | "EQ" => opEQ
  | "DRAW" => opDRAW
  | "DRAWSEQ" => opDRAWSEQ
  | "PEQ" => opPEQ
  | "ACC" => opACC
  | "ZFILL" => opZFILL
  | "REMOVE" => opREMOVE
  | "STATS" => opSTATS
  | "EVAL" => opEVAL
  | "AGG" => opAGG
  | "EXPLODE" => opEXPLODE
  | "ROLLVALS" => opROLLVALS
  | "PICKALL" => opPICKALL
  | "PROLL" => opPROLL
  | "PROLLS" => opPROLLS
  | "HEAP" => opHEAP
  | "RNG" => opRNG
  | "GUARD" => opGUARD
  | "DENVALS" => opDENVALS
  | "ROLLRECS" => opROLLRECS
  | "EXPLODESPEC" => opEXPLODESPEC
  | "SUBST" => opSUBST
  | "SUBSTSPEC" => opSUBSTSPEC
  | "OSTAT" => opOSTAT
  | "EXK" => opEXK
  | "APPEAR" => opAPPEAR
  | "PMK" => opPMK
  | "PMATMUL" => opPMATMUL
  | _ => pure "bad-op"

def answer (line : String) : String :=
  match line.splitOn " " with
  | [] => "bad-op"
  | op :: rest =>
    let toks := rest.filterMap (·.toInt?)
    match (dispatch op).run toks with
    | some (s, []) => s
    | some (_, _) => "bad-op trailing"
    | none => "bad-op parse"

end Dyce.Driver
