import Dyce.PoolHetero

namespace Dyce
open List

variable {α : Type} [DecidableEq α] {le : α → α → Bool}

/-! ### lengths -/

theorem karonen_length (h : Hist α) (hne : h ≠ []) (n k : Nat) :
    ∀ e ∈ karonen h n k, e.1.length = k := by
  induction h generalizing n k with
  | nil => exact absurd rfl hne
  | cons mc rest ih =>
    obtain ⟨m, c⟩ := mc
    cases rest with
    | nil => simp [karonen]
    | cons x rest' =>
      rw [karonen_cons_cons]
      intro e he
      rw [List.mem_append] at he
      rcases he with he | he
      · rw [List.mem_flatMap] at he
        obtain ⟨i, hi, he⟩ := he
        have hik : i < k := List.mem_range.mp hi
        split at he
        · simp at he
        · rw [List.mem_map] at he
          obtain ⟨e', he', rfl⟩ := he
          have := ih (by simp) (n - i) (k - i) e' he'
          simp [this]; omega
      · simp only [List.mem_singleton] at he
        subst he; simp

theorem total_pos_ne_nil {h : Hist α} (hT : 0 < total h) : h ≠ [] := by
  intro hh; subst hh; simp [total] at hT

theorem rwcHomogRaw_length (n : Nat) (h : Hist α) (hT : 0 < total h) (k : Int) :
    ∀ e ∈ rwcHomogRaw n h k, e.1.length ≤ n := by
  intro e he
  have hdef : rwcHomogRaw n h k = if k.natAbs = 0 ∨ k.natAbs > n then []
      else if k < 0 then rwcHomogHigh n h k.natAbs else rwcHomogLow n h k.natAbs := rfl
  rw [hdef] at he
  by_cases hk : k.natAbs = 0 ∨ k.natAbs > n
  · rw [if_pos hk] at he; simp at he
  · rw [if_neg hk] at he
    have hkn : k.natAbs ≤ n := by omega
    by_cases hneg : k < 0
    · rw [if_pos hneg, rwcHomogHigh_eq h n k.natAbs hT hkn, List.mem_map] at he
      obtain ⟨e', he', rfl⟩ := he
      have hne : h.reverse ≠ [] := by
        intro hh; exact total_pos_ne_nil hT (List.reverse_eq_nil_iff.mp hh)
      have := karonen_length h.reverse hne n k.natAbs e' he'
      simp [this, hkn]
    · rw [if_neg hneg, rwcHomogLow_eq_karonen h n k.natAbs hT hkn] at he
      have := karonen_length h (total_pos_ne_nil hT) n k.natAbs e he
      omega

theorem combos_length (per : List (List (List α × Nat))) (bounds : List Nat)
    (hb : List.Forall₂ (fun g b => ∀ e ∈ g, e.1.length ≤ b) per bounds) :
    ∀ e ∈ combos per, e.1.length ≤ bounds.sum := by
  induction hb with
  | nil => simp [combos]
  | cons hgb _ ih =>
    intro e he
    simp only [combos, List.mem_flatMap, List.mem_map] at he
    obtain ⟨e1, he1, f, hf, rfl⟩ := he
    have := hgb e1 he1
    have := ih f hf
    simp only [List.length_append, List.sum_cons]
    omega

theorem mem_poolTuples_length {ds : List (Hist α)} {tw : List α × Nat}
    (h : tw ∈ poolTuples ds) : tw.1.length = ds.length := by
  induction ds generalizing tw with
  | nil => simp [poolTuples] at h; subst h; rfl
  | cons d ds ih =>
    simp only [poolTuples, List.mem_flatMap, List.mem_map] at h
    obtain ⟨xc, _, tw', htw', rfl⟩ := h
    simp [ih htw']

theorem expand_length (gs : List (Hist α × Nat)) :
    (expand gs).length = (gs.map (·.2)).sum := by
  induction gs with
  | nil => rfl
  | cons g gs ih =>
    have : expand (g :: gs) = List.replicate g.2 g.1 ++ expand gs := by simp [expand]
    rw [this]; simp [ih]

/-! ### reading positions from padded rolls -/

theorem takeIdxs_pads_irrelevant (x : List (Option α)) (p : Nat) (idxs : List Nat) :
    takeIdxs (x ++ List.replicate p none) idxs = takeIdxs x idxs := by
  unfold takeIdxs
  apply List.map_congr_left
  intro j _
  by_cases hj : j < x.length
  · rw [List.getElem?_append_left hj]
  · rw [List.getElem?_append_right (by omega)]
    have h2 : x[j]? = none := List.getElem?_eq_none (by omega)
    rw [h2]
    by_cases hj2 : j - x.length < p
    · simp [List.getElem?_replicate, hj2]
    · simp [List.getElem?_replicate, hj2]

theorem takeIdxs_take (x : List α) (k : Nat) (idxs : List Nat) (hk : ∀ j ∈ idxs, j < k) :
    takeIdxs ((x.take k).map some) idxs = takeIdxs (x.map some) idxs := by
  have := takeIdxs_pad_right x k k idxs hk
  simpa using this

theorem takeIdxs_high (x : List α) (N k : Nat) (hx : x.length ≤ N) (idxs : List Nat)
    (hk : ∀ j ∈ idxs, N - k ≤ j) :
    takeIdxs (List.replicate (N - x.length) none ++ x.map some) idxs
      = takeIdxs (List.replicate (N - (x.drop (x.length - k)).length) none
          ++ (x.drop (x.length - k)).map some) idxs := by
  unfold takeIdxs
  apply List.map_congr_left
  intro j hj
  have hjk := hk j hj
  have hlen : (x.drop (x.length - k)).length = min k x.length := by
    simp only [List.length_drop]; omega
  rw [hlen]
  by_cases hkx : k ≤ x.length
  · rw [Nat.min_eq_left hkx]
    by_cases hj1 : j < N - x.length
    · exfalso; omega
    · rw [List.getElem?_append_right (by simp; omega),
        List.getElem?_append_right (by simp; omega)]
      simp only [List.length_replicate, List.getElem?_map, List.getElem?_drop]
      have : x.length - k + (j - (N - k)) = j - (N - x.length) := by omega
      rw [this]
  · have hk' : x.length - k = 0 := by omega
    rw [Nat.min_eq_right (by omega), hk', List.drop_zero]

end Dyce

namespace Dyce
open List

variable {α : Type} [DecidableEq α] {le : α → α → Bool}

theorem per_length_bound (gs : List (Hist α × Nat)) (hg : ∀ g ∈ gs, GroupOK le g)
    (kf : Hist α × Nat → Int) :
    ∀ e ∈ combos (gs.map fun g => rwcHomogRaw g.2 g.1 (kf g)), e.1.length ≤ (gs.map (·.2)).sum := by
  apply combos_length
  induction gs with
  | nil => simp
  | cons g gs ih =>
    simp only [List.map_cons]
    refine List.Forall₂.cons ?_ (ih fun g' hg' => hg g' (by simp [hg']))
    exact rwcHomogRaw_length g.2 g.1 (hg g (by simp)).2.2 (kf g)

/-- specification restated with an explicit read-out of the sorted roll -/
theorem specRWC_eq (le : α → α → Bool) (dice : List (Hist α)) (idxs : List Nat)
    (r : List (Option α)) :
    specRWC le dice idxs r
      = wsum (poolTuples dice) (fun t =>
          if takeIdxs ((sortBy le t).map some) idxs = r then 1 else 0) := rfl

/-- arbitrary selections: every group is enumerated in full -/
theorem hetero_full (hle : TotalOrderB le) (g : Hist α × Nat) (gs : List (Hist α × Nat))
    (hg : ∀ g' ∈ g :: gs, GroupOK le g') (idxs : List Nat) (r : List (Option α)) :
    countOf r (finishRolls (some idxs) (rwcHetero le (g :: gs) none))
      = specRWC le (expand (g :: gs)) idxs r := by
  unfold rwcHetero finishRolls
  simp only [List.map_map, Function.comp_def]
  have := countOf_map_key
    (combos ((g :: gs).map fun g' => rwcHomogRaw g'.2 g'.1 (g'.2 : Int)))
    (fun s : List α => takeIdxs ((sortBy le s).map some) idxs) r
  rw [this]
  have hp := hetero_push (fun g' => rwcHomogRaw g'.2 g'.1 (g'.2 : Int)) (sortBy le) (sortBy le)
    (sortBy_middle hle) (g :: gs)
    (fun g' hg' H => group_full_push hle g' (hg g' hg') H)
    (fun x => if takeIdxs (x.map some) idxs = r then 1 else 0) []
  simp only [List.nil_append] at hp
  rw [hp]
  rfl

/-- selections hugging the low end (`0 < k`): every group is enumerated up to its `k` lowest -/
theorem hetero_low (hle : TotalOrderB le) (g : Hist α × Nat) (gs : List (Hist α × Nat))
    (hg : ∀ g' ∈ g :: gs, GroupOK le g') (k : Nat) (hk : 0 < k) (idxs : List Nat)
    (hlt : ∀ j ∈ idxs, j < k) (r : List (Option α)) :
    countOf r (finishRolls (some idxs) (rwcHetero le (g :: gs) (some (k : Int))))
      = specRWC le (expand (g :: gs)) idxs r := by
  unfold rwcHetero finishRolls
  have hk0 : ¬ ((k : Int) < 0) := by omega
  simp only [List.map_map, Function.comp_def, hk0, if_false]
  have := countOf_map_key
    (combos ((g :: gs).map fun g' => rwcHomogRaw g'.2 g'.1
      (if ((k : Int) ≠ 0 ∧ (k : Int).natAbs < g'.2) then (k : Int) else g'.2)))
    (fun s : List α => takeIdxs ((sortBy le s).map some ++
      List.replicate (((g :: gs).map (·.2)).sum - ((sortBy le s).map some).length) none) idxs) r
  rw [this]
  have hp := hetero_push (fun g' => rwcHomogRaw g'.2 g'.1
      (if ((k : Int) ≠ 0 ∧ (k : Int).natAbs < g'.2) then (k : Int) else g'.2))
    (lowK le k) (lowK le k) (lowK_middle hle k) (g :: gs)
    (fun g' hg' H => group_low_push hle k hk g' (hg g' hg') H)
    (fun x => if takeIdxs (x.map some) idxs = r then 1 else 0) []
  simp only [List.nil_append] at hp
  rw [specRWC_eq]
  have e1 : ∀ s : List α,
      (if takeIdxs ((sortBy le s).map some ++
          List.replicate (((g :: gs).map (·.2)).sum - ((sortBy le s).map some).length) none) idxs = r
        then 1 else 0)
      = (if takeIdxs ((lowK le k s).map some) idxs = r then 1 else 0) := by
    intro s
    apply ite_one_zero_congr
    rw [takeIdxs_pads_irrelevant]
    unfold lowK
    rw [takeIdxs_take _ k idxs hlt]
  have e2 : ∀ t : List α,
      (if takeIdxs ((sortBy le t).map some) idxs = r then 1 else 0)
      = (if takeIdxs ((lowK le k t).map some) idxs = r then 1 else 0) := by
    intro t
    apply ite_one_zero_congr
    unfold lowK
    rw [takeIdxs_take _ k idxs hlt]
  simp only [e1, e2]
  exact hp

/-- selections hugging the high end: every group is enumerated up to its `k` highest -/
theorem hetero_high (hle : TotalOrderB le) (g : Hist α × Nat) (gs : List (Hist α × Nat))
    (hg : ∀ g' ∈ g :: gs, GroupOK le g') (k : Nat) (hk : 0 < k) (idxs : List Nat)
    (hge : ∀ j ∈ idxs, ((g :: gs).map (·.2)).sum - k ≤ j) (r : List (Option α)) :
    countOf r (finishRolls (some idxs) (rwcHetero le (g :: gs) (some (-(k : Int)))))
      = specRWC le (expand (g :: gs)) idxs r := by
  unfold rwcHetero finishRolls
  have hk0 : (-(k : Int) < 0) := by omega
  simp only [List.map_map, Function.comp_def, hk0, if_true]
  set N := ((g :: gs).map (·.2)).sum with hN
  have := countOf_map_key
    (combos ((g :: gs).map fun g' => rwcHomogRaw g'.2 g'.1
      (if (-(k : Int) ≠ 0 ∧ (-(k : Int)).natAbs < g'.2) then -(k : Int) else g'.2)))
    (fun s : List α => takeIdxs (List.replicate (N - ((sortBy le s).map some).length) none
      ++ (sortBy le s).map some) idxs) r
  rw [this]
  have hp := hetero_push (fun g' => rwcHomogRaw g'.2 g'.1
      (if (-(k : Int) ≠ 0 ∧ (-(k : Int)).natAbs < g'.2) then -(k : Int) else g'.2))
    (highK le k) (highK le k) (highK_middle hle k) (g :: gs)
    (fun g' hg' H => group_high_push hle k hk g' (hg g' hg') H)
    (fun x => if takeIdxs (List.replicate (N - x.length) none ++ x.map some) idxs = r
      then 1 else 0) []
  simp only [List.nil_append] at hp
  rw [specRWC_eq]
  -- model side: for the entries actually enumerated (length ≤ N)
  have hlen := per_length_bound (le := le) (g :: gs) hg
    (fun g' => if (-(k : Int) ≠ 0 ∧ (-(k : Int)).natAbs < g'.2) then -(k : Int) else g'.2)
  rw [wsum_congr _ _
    (fun x => if takeIdxs (List.replicate (N - (highK le k x).length) none
      ++ (highK le k x).map some) idxs = r then 1 else 0)
    (by
      intro e he
      apply ite_one_zero_congr
      have hl : (sortBy le e.1).length ≤ N := by
        rw [(sortBy_perm le e.1).length_eq]; exact hlen e he
      have := takeIdxs_high (sortBy le e.1) N k hl idxs hge
      simp only [List.length_map]
      rw [this]
      unfold highK
      rw [(sortBy_perm le e.1).length_eq])]
  rw [hp]
  apply wsum_congr
  intro tw htw
  apply ite_one_zero_congr
  have hl : (sortBy le tw.1).length = N := by
    rw [(sortBy_perm le tw.1).length_eq, mem_poolTuples_length htw, expand_length]
  have := takeIdxs_high (sortBy le tw.1) N k (by omega) idxs hge
  unfold highK
  rw [show tw.1.length = (sortBy le tw.1).length from (sortBy_perm le tw.1).length_eq.symm,
    ← this, hl, Nat.sub_self]
  simp

end Dyce
