import Dyce.HistOpsModel
import Mathlib.Data.Nat.GCD.Basic
import Mathlib.Data.List.Basic
import Mathlib.Algebra.GCDMonoid.Nat
import Mathlib.Tactic.Ring
import Mathlib.Tactic.Linarith

/-! Prototype for C05: proportional primitive count vectors are equal. -/
namespace Dyce

theorem gcdList_dvd (l : List Nat) : ∀ c ∈ l, gcdList l ∣ c := by
  induction l with
  | nil => simp
  | cons a l ih =>
    intro c hc
    simp only [List.mem_cons] at hc
    rcases hc with rfl | hc
    · exact Nat.gcd_dvd_left _ _
    · exact Nat.dvd_trans (Nat.gcd_dvd_right _ _) (ih c hc)

theorem gcdList_map_mul (k : Nat) (l : List Nat) :
    gcdList (l.map (k * ·)) = k * gcdList l := by
  induction l with
  | nil => simp [gcdList]
  | cons a l ih => simp [gcdList, ih, Nat.gcd_mul_left]

/-- If `P • u = Q • v` pointwise with `gcd u = gcd v = 1` then `P = Q` (hence `u = v` if `P > 0`). -/
theorem scale_eq_of_primitive (P Q : Nat) (u v : List Nat) (hu : gcdList u = 1) (hv : gcdList v = 1)
    (h : u.map (P * ·) = v.map (Q * ·)) : P = Q := by
  have := congrArg gcdList h
  rw [gcdList_map_mul, gcdList_map_mul, hu, hv] at this
  simpa using this

theorem primitive_eq (P Q : Nat) (hP : 0 < P) (u v : List Nat) (hu : gcdList u = 1)
    (hv : gcdList v = 1) (h : u.map (P * ·) = v.map (Q * ·)) : u = v := by
  have hPQ := scale_eq_of_primitive P Q u v hu hv h
  subst hPQ
  have : Function.Injective (P * ·) := fun a b hab => Nat.eq_of_mul_eq_mul_left hP hab
  exact this.list_map h

/-- dividing all counts by their gcd gives a primitive vector (when some count is non-zero) -/
theorem gcdList_div (l : List Nat) (hg : 0 < gcdList l) :
    gcdList (l.map (· / gcdList l)) = 1 := by
  have h1 : l = (l.map (· / gcdList l)).map (gcdList l * ·) := by
    rw [List.map_map]
    conv_lhs => rw [← List.map_id l]
    apply List.map_congr_left
    intro c hc
    simp only [Function.comp, id]
    exact (Nat.mul_div_cancel' (gcdList_dvd l c hc)).symm
  have h2 := congrArg gcdList h1
  rw [gcdList_map_mul] at h2
  have : gcdList l * 1 = gcdList l * gcdList (l.map (· / gcdList l)) := by simpa using h2
  exact (Nat.eq_of_mul_eq_mul_left hg this).symm

end Dyce
