import Dyce.RollerOwn
/-! C12, provenance clause: the source rolls of every record were produced, in order, by the
sources of the producing node — `n` times over for `n@r`, once per expansion for substitution.
"Produced by" is membership in the enumeration of all rolls of that source (`Supp`), so the
statement applies again to every source roll: the record has the shape of the tree. -/
namespace Dyce
open List

/-- `b` is one of the results on some random choice path -/
def Supp {β} (x : W β) (b : β) : Prop := ∃ w, (b, w) ∈ x

theorem AllW_supp {β} (x : W β) : AllW (Supp x) x := fun e he => ⟨e.2, he⟩

theorem mkRollDeep_sourceRolls (outs : List RO) (srs : List RollRec) :
    (mkRollDeep outs srs).sourceRolls = srs := rfl

/-- what the node kind says about the recorded source rolls -/
def SrcShape : RTree → List RollRec → Prop
  | .value _, srs => srs = []
  | .pool srcs, srs => List.Forall₂ (fun s r => Supp (rollW mkRollDeep s) r) srcs srs
  | .filt _ srcs, srs => List.Forall₂ (fun s r => Supp (rollW mkRollDeep s) r) srcs srs
  | .sel _ srcs, srs => List.Forall₂ (fun s r => Supp (rollW mkRollDeep s) r) srcs srs
  | .rep n s, srs => srs.length = n ∧ ∀ r ∈ srs, Supp (rollW mkRollDeep s) r
  | .bin _ l r, srs => ∃ a b, srs = [a, b] ∧ Supp (rollW mkRollDeep l) a ∧ Supp (rollW mkRollDeep r) b
  | .un _ s, srs => ∃ a, srs = [a] ∧ Supp (rollW mkRollDeep s) a
  | .unChain _ s, srs => ∃ a, srs = [a] ∧ Supp (rollW mkRollDeep s) a
  | .substMap _ _ _ s, srs => ∃ a, srs = [a] ∧ Supp (rollW mkRollDeep s) a
  | .subst _ e _ _ src, srs =>
    ∃ a rest, srs = a :: rest ∧ Supp (rollW mkRollDeep src) a ∧
      -- each further entry is an expansion roll re-wrapped around its adopted outcomes
      ∀ r ∈ rest, ∃ er, Supp (rollW mkRollDeep e) er ∧ r.sourceRolls = er.sourceRolls

theorem rollAllW_shape : ∀ (srcs : List RTree),
    AllW (fun rs => List.Forall₂ (fun s r => Supp (rollW mkRollDeep s) r) srcs rs) (rollAllW mkRollDeep srcs)
  | [] => by rw [rollAllW]; exact AllW_pure _ _ List.Forall₂.nil
  | s :: ss => by
    rw [rollAllW]
    refine AllW_bind _ _ _ _ (AllW_supp _) (fun r hr => ?_)
    refine AllW_bind _ _ _ _ (rollAllW_shape ss) (fun l hl => ?_)
    exact AllW_pure _ _ (List.Forall₂.cons hr hl)

theorem replicateW_length' {β} (n : Nat) (x : W β) : AllW (fun l => l.length = n) (replicateW n x) := by
  induction n with
  | zero => exact AllW_pure _ _ rfl
  | succ n ih =>
    simp only [replicateW]
    refine AllW_bind (fun _ => True) _ _ _ (AllW_true _) (fun a _ => ?_)
    refine AllW_bind _ _ _ _ ih (fun l hl => ?_)
    exact AllW_pure _ _ (by simp [hl])

theorem AllW_and {β} (Q R : β → Prop) (x : W β) (hq : AllW Q x) (hr : AllW R x) :
    AllW (fun b => Q b ∧ R b) x := fun e he => ⟨hq e he, hr e he⟩

/-- the rolls the substitution loop appends: the roll being expanded first, then one re-wrapped
expansion roll per substituted outcome, in the order the outcomes are visited -/
def ExpandShape (rollE : W RollRec) (roll : RollRec) (res : List RO × List RollRec) : Prop :=
  ∃ rest, res.2 = roll :: rest ∧ ∀ r ∈ rest, ∃ er, Supp rollE er ∧ r.sourceRolls = er.sourceRolls

theorem expandW_shape (p : Int → Bool) (rollE : W RollRec) (replace : Bool) :
    ∀ (k : Nat) (roll : RollRec), AllW (ExpandShape rollE roll) (expandW mkRollDeep p rollE replace k roll) := by
  intro k
  induction k with
  | zero =>
    intro roll
    rw [expandW]
    exact AllW_pure _ _ ⟨[], rfl, by simp⟩
  | succ k ih =>
    intro roll
    rw [expandW]
    generalize (roll.outcomes.filter fun ro => ro.value.isSome) = l
    have key : ∀ (l : List RO) (acc : W (List RO × List RollRec)), AllW (ExpandShape rollE roll) acc →
        AllW (ExpandShape rollE roll) (l.foldl
          (fun acc o => do
            let st ← acc
            if p (o.value.getD 0) then do
              let er ← rollE
              let adopted := mkRollDeep (er.outcomes.map (RO.adoptAppend o)) er.sourceRolls
              let sub ← expandW mkRollDeep p rollE replace k adopted
              pure (st.1 ++ [if replace then euthanize o else o] ++ sub.1, st.2 ++ sub.2)
            else pure (st.1 ++ [o], st.2)) acc) := by
      intro l
      induction l with
      | nil => intro acc h; simpa using h
      | cons o l ihl =>
        intro acc hacc
        rw [List.foldl_cons]
        apply ihl
        refine AllW_bind _ _ acc _ hacc (fun st hst => ?_)
        by_cases hp : p (o.value.getD 0) = true
        · simp only [hp, if_true]
          refine AllW_bind _ _ rollE _ (AllW_supp rollE) (fun er her => ?_)
          refine AllW_bind _ _ _ _ (ih _) (fun sub hsub => ?_)
          refine AllW_pure _ _ ?_
          obtain ⟨rest, hrest, hall⟩ := hst
          obtain ⟨rest', hrest', hall'⟩ := hsub
          refine ⟨rest ++ mkRollDeep (er.outcomes.map (RO.adoptAppend o)) er.sourceRolls :: rest', ?_, ?_⟩
          · simp only [hrest, hrest', List.cons_append]
          · intro r hr
            simp only [List.mem_append, List.mem_cons] at hr
            rcases hr with hr | hr | hr
            · exact hall r hr
            · subst hr; exact ⟨er, her, rfl⟩
            · exact hall' r hr
        · simp only [hp, Bool.false_eq_true, if_false]
          exact AllW_pure _ _ hst
    exact key l _ (AllW_pure _ _ ⟨[], rfl, by simp⟩)

/-- **C12, provenance clause**: for every tree, on every choice path, the recorded source rolls are —
in order — rolls of the node's sources -/
theorem rollW_srcShape (t : RTree) : AllW (fun rec => SrcShape t rec.sourceRolls) (rollW mkRollDeep t) := by
  cases t with
  | value l =>
    cases l with
    | scalar v => rw [rollW]; exact AllW_pure _ _ rfl
    | hist hh =>
      rw [rollW]
      exact AllW_bind (fun _ => True) _ _ _ (AllW_true _) (fun v _ => AllW_pure _ _ rfl)
    | pool hs =>
      rw [rollW]
      exact AllW_bind (fun _ => True) _ _ _ (AllW_true _) (fun v _ => AllW_pure _ _ rfl)
  | pool srcs =>
    rw [rollW]
    exact AllW_bind _ _ _ _ (rollAllW_shape srcs) (fun rs hrs => AllW_pure _ _ hrs)
  | rep n s =>
    rw [rollW]
    refine AllW_bind _ _ _ _
      (AllW_and _ _ _ (replicateW_length' n _) (AllW_replicateW _ n _ (AllW_supp (rollW mkRollDeep s))))
      (fun rs hrs => AllW_pure _ _ hrs)
  | bin op l r =>
    rw [rollW]
    refine AllW_bind _ _ _ _ (AllW_supp _) (fun a ha => ?_)
    refine AllW_bind _ _ _ _ (AllW_supp _) (fun b hb => ?_)
    exact AllW_pure _ _ ⟨a, b, rfl, ha, hb⟩
  | un op s =>
    rw [rollW]
    refine AllW_bind _ _ _ _ (AllW_supp _) (fun a ha => ?_)
    exact AllW_pure _ _ ⟨a, rfl, ha⟩
  | unChain ops s =>
    rw [rollW]
    refine AllW_bind _ _ _ _ (AllW_supp _) (fun a ha => ?_)
    exact AllW_pure _ _ ⟨a, rfl, ha⟩
  | filt p srcs =>
    rw [rollW]
    exact AllW_bind _ _ _ _ (rollAllW_shape srcs) (fun rs hrs => AllW_pure _ _ hrs)
  | sel which srcs =>
    rw [rollW]
    refine AllW_bind _ _ _ _ (rollAllW_shape srcs) (fun rs hrs => ?_)
    simp only
    split
    · exact AllW_pure _ _ hrs
    · exact AllW_pure _ _ hrs
  | subst p e replace md src =>
    rw [rollW]
    refine AllW_bind _ _ _ _ (AllW_supp _) (fun a ha => ?_)
    refine AllW_bind _ _ _ _ (expandW_shape p _ replace md a) (fun res hres => ?_)
    obtain ⟨rest, hrest, hall⟩ := hres
    exact AllW_pure _ _ ⟨a, rest, hrest, ha, hall⟩
  | substMap p f md src =>
    rw [rollW]
    refine AllW_bind _ _ _ _ (AllW_supp _) (fun a ha => ?_)
    exact AllW_pure _ _ ⟨a, rfl, ha⟩

end Dyce
