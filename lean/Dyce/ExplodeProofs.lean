import Dyce.ExplodeModel
import Dyce.EvalRefine
import Mathlib.Tactic.Common

namespace Dyce

variable {α ρ : Type}

/-- if every branch's callback completes, the fold collects exactly their results -/
theorem fold_specBranch_ok (sv : Nat → List (Src ρ) → Option Limit → Ctx → Except Err (Hist α)) (f : Fn α ρ)
    (mk : Nat → Ctx) (g : List ρ × Nat → Ret α) :
    ∀ (bs : List (List ρ × Nat)) (sofar : List (Ret α × Nat)),
      (∀ bw ∈ bs, specProg sv (mk bw.2) (f.body bw.1) = .ok (g bw)) →
      bs.foldl (specBranch sv f mk) (.ok sofar) = .ok (sofar ++ bs.map fun bw => (g bw, bw.2)) := by
  intro bs
  induction bs with
  | nil => intro sofar _; simp
  | cons b bs ih =>
    intro sofar h
    rw [List.foldl_cons]
    have hb := h b (by simp)
    have : specBranch sv f mk (.ok sofar) b = .ok (sofar ++ [(g b, b.2)]) := by
      simp [specBranch, hb]
    rw [this, ih _ (fun bw hbw => h bw (by simp [hbw]))]
    simp

theorem branches_single (h : Hist Int) :
    branches [srcOfHist h] = h.map fun fc => ([fc.1], fc.2) := by
  unfold branches srcOfHist
  simp only [branches, List.map_cons, List.map_nil, Nat.mul_one]
  induction h with
  | nil => rfl
  | cons e h ih => simp [List.flatMap_cons, ih]

theorem specEval_succ (env : Nat → Fn α ρ) (agg : List (Ret α × Nat) → Hist α) (lowest : Hist α → Hist α)
    (fuel fn : Nat) (srcs : List (Src ρ)) (lim : Option Limit) (cur : Ctx) :
    specEval env agg lowest (fuel + 1) fn srcs lim cur =
      (let newLim : Limit := (lim.orElse fun _ => cur.limit).getD (.int 1)
       let finish (h : Hist α) : Hist α := if cur.depth = 0 then lowest h else h
       if cutNow newLim cur then .ok (finish (env fn).sentinel)
       else
         match (branches srcs).foldl
            (specBranch (specEval env agg lowest fuel) (env fn)
              (fun cc => ⟨some newLim, cur.depth + 1, cur.precNum * cc, cur.precDen * srcTotal srcs⟩))
            (.ok []) with
         | .ok rs => .ok (finish (agg rs))
         | .error e => .error e) := rfl

/-- **core**: at nesting depth `d ≥ 1` under the whole-number limit `n ≥ d`, with fuel to spare, the
stateless rule computes the truncated re-roll process with `n - d` re-rolls left -/
theorem specEval_explode (h : Hist Int) (pred : Int → Bool) (n : Nat) :
    ∀ (k d fuel pn pd : Nat), d + k = n → 1 ≤ d → k < fuel →
      specEval (fun _ => explodeFn h pred) (aggregateWeighted leInt) (lowestTerms leInt) fuel 0
        [srcOfHist h] none ⟨some (.int n), d, pn, pd⟩ = .ok (explodeSpec h pred k) := by
  intro k
  induction k with
  | zero =>
    intro d fuel pn pd hdk hd hf
    obtain ⟨fuel', rfl⟩ : ∃ f', fuel = f' + 1 := ⟨fuel - 1, by omega⟩
    rw [specEval_succ]
    have hdn : d = n := by omega
    subst hdn
    have hd0 : d ≠ 0 := by omega
    simp [cutNow, hd0, explodeFn, explodeSpec]
  | succ k ih =>
    intro d fuel pn pd hdk hd hf
    obtain ⟨fuel', rfl⟩ : ∃ f', fuel = f' + 1 := ⟨fuel - 1, by omega⟩
    rw [specEval_succ]
    have hd0 : d ≠ 0 := by omega
    have hcut : ¬ (d ≥ n) := by omega
    simp only [Option.orElse_none, Option.getD_some, cutNow, hcut, decide_false, Bool.false_eq_true,
      if_false, hd0]
    rw [branches_single]
    rw [fold_specBranch_ok _ _ _
      (fun bw => if pred (bw.1.headD 0) then Ret.hist (umapH leInt (· + bw.1.headD 0) (explodeSpec h pred k))
        else Ret.out (bw.1.headD 0))]
    · simp only [List.nil_append, List.map_map, Function.comp_def, List.headD_cons, explodeSpec]
      rfl
    · intro bw hbw
      obtain ⟨fc, hfc, rfl⟩ := List.mem_map.mp hbw
      have hbody : (explodeFn h pred).body [fc.1]
          = (if pred fc.1 then
              Prog.call 0 [srcOfHist h] none fun r => Prog.ret (Ret.hist (umapH leInt (· + fc.1) r))
             else Prog.ret (Ret.out fc.1)) := rfl
      simp only [List.headD_cons]
      rw [hbody]
      by_cases hp : pred fc.1 = true
      · simp only [hp, if_true, specProg]
        rw [ih (d + 1) fuel' _ _ (by omega) (by omega) (by omega)]
      · simp only [hp, Bool.false_eq_true, if_false, specProg]

/-- **C08**: `explode(h, predicate, limit=n)` — run through the context-variable evaluator from a
fresh interpreter — is exactly the truncated re-roll process with `n` re-rolls, in lowest terms, and
leaves the context variable unset -/
theorem explodeEval_eq_spec (h : Hist Int) (pred : Int → Bool) (n fuel : Nat) (hf : n < fuel) :
    explodeEval fuel h pred (some (.int n)) none
      = (.ok (lowestTerms leInt (explodeSpec h pred n)), none) := by
  unfold explodeEval
  rw [evalFn_refines]
  congr 1
  obtain ⟨fuel', rfl⟩ : ∃ f', fuel = f' + 1 := ⟨fuel - 1, by omega⟩
  rw [specEval_succ]
  cases n with
  | zero => simp [cutNow, explodeFn, explodeSpec]
  | succ k =>
    have hcut : ¬ (0 ≥ k + 1) := by omega
    simp only [Option.getD_none, Option.orElse_some, Option.getD_some, cutNow, hcut, decide_false,
      Bool.false_eq_true, if_false, if_true]
    rw [branches_single]
    rw [fold_specBranch_ok _ _ _
      (fun bw => if pred (bw.1.headD 0) then Ret.hist (umapH leInt (· + bw.1.headD 0) (explodeSpec h pred k))
        else Ret.out (bw.1.headD 0))]
    · simp only [List.nil_append, List.map_map, Function.comp_def, List.headD_cons, explodeSpec]
      rfl
    · intro bw hbw
      obtain ⟨fc, hfc, rfl⟩ := List.mem_map.mp hbw
      have hbody : (explodeFn h pred).body [fc.1]
          = (if pred fc.1 then
              Prog.call 0 [srcOfHist h] none fun r => Prog.ret (Ret.hist (umapH leInt (· + fc.1) r))
             else Prog.ret (Ret.out fc.1)) := rfl
      simp only [List.headD_cons]
      rw [hbody]
      by_cases hp : pred fc.1 = true
      · simp only [hp, if_true, specProg]
        rw [specEval_explode h pred (k + 1) k 1 fuel' _ _ (by omega) (by omega) (by omega)]
      · simp only [hp, Bool.false_eq_true, if_false, specProg]

end Dyce

namespace Dyce

/-- **core**: a nested `_expand` call on family member `j` at depth `d ≥ 1` under the whole-number
limit `n ≥ d`, with fuel to spare, computes the bounded recursion with `n - d` levels left -/
theorem specEval_subst (fam : List (Hist Int)) (tbl : Nat → Int → SubAct) (add : Bool) (start n : Nat) :
    ∀ (k d fuel pn pd j : Nat), d + k = n → 1 ≤ d → k < fuel →
      specEval (substFn fam tbl add start) (aggregateWeighted leInt) (lowestTerms leInt) fuel j
        [srcOfHist (fam.getD j [])] none ⟨some (.int n), d, pn, pd⟩ = .ok (substSpec fam tbl add start k j) := by
  intro k
  induction k with
  | zero =>
    intro d fuel pn pd j hdk hd hf
    obtain ⟨fuel', rfl⟩ : ∃ f', fuel = f' + 1 := ⟨fuel - 1, by omega⟩
    rw [specEval_succ]
    have hdn : d = n := by omega
    subst hdn
    have hd0 : d ≠ 0 := by omega
    simp [cutNow, hd0, substFn, substSpec]
  | succ k ih =>
    intro d fuel pn pd j hdk hd hf
    obtain ⟨fuel', rfl⟩ : ∃ f', fuel = f' + 1 := ⟨fuel - 1, by omega⟩
    rw [specEval_succ]
    have hd0 : d ≠ 0 := by omega
    have hcut : ¬ (d ≥ n) := by omega
    simp only [Option.orElse_none, Option.getD_some, cutNow, hcut, decide_false, Bool.false_eq_true,
      if_false, hd0]
    rw [branches_single]
    rw [fold_specBranch_ok _ _ _
      (fun bw => match tbl j (bw.1.headD 0) with
        | .out o => Ret.out o
        | .hist i => Ret.hist (coalesceH add (bw.1.headD 0) (substSpec fam tbl add start k i)))]
    · simp only [List.nil_append, List.map_map, Function.comp_def, List.headD_cons, substSpec]
      rfl
    · intro bw hbw
      obtain ⟨fc, hfc, rfl⟩ := List.mem_map.mp hbw
      have hbody : (substFn fam tbl add start j).body [fc.1]
          = (match tbl j fc.1 with
              | .out o => Prog.ret (Ret.out o)
              | .hist i => Prog.call i [srcOfHist (fam.getD i [])] none fun r => Prog.ret (Ret.hist (coalesceH add fc.1 r))) := rfl
      simp only [List.headD_cons]
      rw [hbody]
      cases htbl : tbl j fc.1 with
      | out o => simp only [specProg]
      | hist i =>
        simp only [specProg]
        rw [ih (d + 1) fuel' _ _ i (by omega) (by omega) (by omega)]

/-- **C08, substitute**: `fam[start].substitute(expand, coalesce, max_depth=n)` — run through the
context-variable evaluator from a fresh interpreter — is exactly the bounded recursion with `n`
levels, in lowest terms, and leaves the context variable unset -/
theorem substEval_eq_spec (fam : List (Hist Int)) (tbl : Nat → Int → SubAct) (add : Bool) (start n fuel : Nat)
    (hf : n < fuel) :
    substEval fuel fam tbl add start (some (.int n)) none
      = (.ok (lowestTerms leInt (substSpec fam tbl add start n start)), none) := by
  unfold substEval
  rw [evalFn_refines]
  congr 1
  obtain ⟨fuel', rfl⟩ : ∃ f', fuel = f' + 1 := ⟨fuel - 1, by omega⟩
  rw [specEval_succ]
  cases n with
  | zero => simp [cutNow, substFn, substSpec]
  | succ k =>
    have hcut : ¬ (0 ≥ k + 1) := by omega
    simp only [Option.getD_none, Option.orElse_some, Option.getD_some, cutNow, hcut, decide_false,
      Bool.false_eq_true, if_false, if_true]
    rw [branches_single]
    rw [fold_specBranch_ok _ _ _
      (fun bw => match tbl start (bw.1.headD 0) with
        | .out o => Ret.out o
        | .hist i => Ret.hist (coalesceH add (bw.1.headD 0) (substSpec fam tbl add start k i)))]
    · simp only [List.nil_append, List.map_map, Function.comp_def, List.headD_cons, substSpec]
      rfl
    · intro bw hbw
      obtain ⟨fc, hfc, rfl⟩ := List.mem_map.mp hbw
      have hbody : (substFn fam tbl add start start).body [fc.1]
          = (match tbl start fc.1 with
              | .out o => Prog.ret (Ret.out o)
              | .hist i => Prog.call i [srcOfHist (fam.getD i [])] none fun r => Prog.ret (Ret.hist (coalesceH add fc.1 r))) := rfl
      simp only [List.headD_cons]
      rw [hbody]
      cases htbl : tbl start fc.1 with
      | out o => simp only [specProg]
      | hist i =>
        simp only [specProg]
        rw [specEval_subst fam tbl add start (k + 1) k 1 fuel' _ _ i (by omega) (by omega) (by omega)]

end Dyce
