import Dyce.HistModel
import Dyce.PoolHetero

namespace Dyce
open List

variable {α β γ : Type}

section
variable [DecidableEq α]

theorem countOf_insertAdd (z : α) (acc : Hist α) (o : α) (c : Nat) :
    countOf z (insertAdd acc o c) = countOf z acc + (if o = z then c else 0) := by
  induction acc with
  | nil => simp [insertAdd]
  | cons b acc ih =>
    obtain ⟨o', c'⟩ := b
    unfold insertAdd
    by_cases h : o' = o
    · subst h
      simp only [if_true, countOf_cons]
      by_cases hz : o' = z <;> simp [hz] <;> ring
    · simp only [h, if_false, countOf_cons, ih]; ring

theorem countOf_foldl_insertAdd (z : α) (l : List (α × Nat)) (acc : Hist α) :
    countOf z (l.foldl (fun acc oc => insertAdd acc oc.1 oc.2) acc) = countOf z acc + countOf z l := by
  induction l generalizing acc with
  | nil => simp
  | cons b l ih => simp only [List.foldl_cons, ih, countOf_insertAdd, countOf_cons]; ring

theorem countOf_perm {l₁ l₂ : List (α × Nat)} (hp : l₁ ~ l₂) (z : α) :
    countOf z l₁ = countOf z l₂ := wsum_perm hp _

/-- **constructor**: the count of every outcome is the sum of the counts given for it -/
theorem countOf_ofItems (le : α → α → Bool) (items : List (α × Nat)) (z : α) :
    countOf z (ofItems le items) = countOf z items := by
  unfold ofItems
  rw [countOf_foldl_insertAdd, countOf_nil, Nat.zero_add]
  exact countOf_perm (List.mergeSort_perm _ _) z

theorem total_eq_wsum (h : Hist α) : total h = wsum h (fun _ => 1) := by
  unfold total wsum; congr 1; simp

theorem total_insertAdd (acc : Hist α) (o : α) (c : Nat) :
    total (insertAdd acc o c) = total acc + c := by
  induction acc with
  | nil => simp [insertAdd, total]
  | cons b acc ih =>
    obtain ⟨o', c'⟩ := b
    unfold insertAdd
    by_cases h : o' = o
    · simp [h, total]; ring
    · simp only [h, if_false, total_cons, ih]; ring

theorem total_ofItems (le : α → α → Bool) (items : List (α × Nat)) :
    total (ofItems le items) = total items := by
  unfold ofItems
  have : ∀ (l : List (α × Nat)) (acc : Hist α),
      total (l.foldl (fun acc oc => insertAdd acc oc.1 oc.2) acc) = total acc + total l := by
    intro l
    induction l with
    | nil => intro acc; simp [total]
    | cons b l ih => intro acc; simp only [List.foldl_cons, ih, total_insertAdd, total_cons]; ring
  rw [this]
  simp only [total, List.map_nil, List.sum_nil, Nat.zero_add]
  exact ((List.mergeSort_perm items _).map _).sum_eq

end

section
variable [DecidableEq γ]

/-- **C01, convolution**: `count z (a op b) = Σ_{x,y} [x op y = z] · a[x] · b[y]` -/
theorem countOf_mapH (le : γ → γ → Bool) (op : α → β → γ) (a : Hist α) (b : Hist β) (z : γ) :
    countOf z (mapH le op a b)
      = wsum a (fun x => wsum b (fun y => if op x y = z then 1 else 0)) := by
  unfold mapH
  rw [countOf_ofItems]
  induction a with
  | nil => simp
  | cons xc a ih =>
    simp only [List.flatMap_cons, countOf_append, ih, wsum_cons]
    congr 1
    have := countOf_map_key (b.map fun yc => (yc.1, xc.2 * yc.2)) (fun y => op xc.1 y) z
    simp only [List.map_map, Function.comp_def] at this
    rw [this]
    have h2 : (b.map fun yc => (yc.1, xc.2 * yc.2)) = b.map fun tw => (id tw.1, xc.2 * tw.2) := rfl
    rw [h2, wsum_map_scale]
    rfl

theorem sum_map_mul_snd (c : Nat) (b : List (β × Nat)) :
    (b.map fun x => c * x.2).sum = c * (b.map Prod.snd).sum := by
  induction b with
  | nil => simp
  | cons yc b ihb => simp [ihb]; ring

theorem total_mapH (le : γ → γ → Bool) (op : α → β → γ) (a : Hist α) (b : Hist β) :
    total (mapH le op a b) = total a * total b := by
  unfold mapH
  rw [total_ofItems]
  induction a with
  | nil => simp [total]
  | cons xc a ih =>
    simp only [List.flatMap_cons, total_cons]
    have : total ((b.map fun yc => (op xc.1 yc.1, xc.2 * yc.2)) ++
        (a.flatMap fun xc => b.map fun yc => (op xc.1 yc.1, xc.2 * yc.2)))
        = xc.2 * total b + total (a.flatMap fun xc => b.map fun yc => (op xc.1 yc.1, xc.2 * yc.2)) := by
      simp only [total, List.map_append, List.sum_append, List.map_map, Function.comp_def]
      congr 1
      exact sum_map_mul_snd xc.2 b
    rw [this, ih]; ring

/-- **C01, relabelling** (unary operators, scalar operands on either side): counts of colliding
outcomes add -/
theorem countOf_umapH (le : γ → γ → Bool) (f : α → γ) (a : Hist α) (z : γ) :
    countOf z (umapH le f a) = wsum a (fun x => if f x = z then 1 else 0) := by
  unfold umapH
  rw [countOf_ofItems]
  exact countOf_map_key a f z

theorem total_umapH (le : γ → γ → Bool) (f : α → γ) (a : Hist α) :
    total (umapH le f a) = total a := by
  unfold umapH
  rw [total_ofItems]
  simp [total, List.map_map, Function.comp_def]

end

end Dyce

namespace Dyce
open List

variable {α : Type} [DecidableEq α] {le : α → α → Bool}

/-- keys strictly ascending -/
def Asc (le : α → α → Bool) (h : Hist α) : Prop :=
  h.Pairwise (fun a b => le a.1 b.1 = true ∧ a.1 ≠ b.1)

theorem mem_keys_insertAdd (acc : Hist α) (o : α) (c : Nat) :
    ∀ e ∈ insertAdd acc o c, e.1 = o ∨ ∃ e' ∈ acc, e'.1 = e.1 := by
  induction acc with
  | nil => intro e he; simp [insertAdd] at he; left; rw [he]
  | cons b acc ih =>
    obtain ⟨o', c'⟩ := b
    intro e he
    unfold insertAdd at he
    by_cases h : o' = o
    · simp only [h, if_true, List.mem_cons] at he
      rcases he with rfl | he
      · left; rfl
      · right; exact ⟨e, by simp [he], rfl⟩
    · simp only [h, if_false, List.mem_cons] at he
      rcases he with rfl | he
      · right; exact ⟨(o', c'), by simp, rfl⟩
      · rcases ih e he with h1 | ⟨e', he', h2⟩
        · left; exact h1
        · right; exact ⟨e', by simp [he'], h2⟩

theorem asc_insertAdd (acc : Hist α) (o : α) (c : Nat) (hacc : Asc le acc)
    (hge : ∀ e ∈ acc, le e.1 o = true) : Asc le (insertAdd acc o c) := by
  induction acc with
  | nil => simp [insertAdd, Asc]
  | cons b acc ih =>
    obtain ⟨o', c'⟩ := b
    unfold insertAdd
    unfold Asc at hacc
    rw [List.pairwise_cons] at hacc
    by_cases h : o' = o
    · simp only [h, if_true]
      subst h
      unfold Asc
      rw [List.pairwise_cons]
      exact ⟨hacc.1, hacc.2⟩
    · simp only [h, if_false]
      unfold Asc
      rw [List.pairwise_cons]
      refine ⟨?_, ih hacc.2 (fun e he => hge e (by simp [he]))⟩
      intro e he
      rcases mem_keys_insertAdd acc o c e he with h1 | ⟨e', he', h2⟩
      · rw [h1]; exact ⟨hge (o', c') (by simp), h⟩
      · rw [← h2]; exact hacc.1 e' he'

/-- **constructor**: outcomes come out in strictly ascending order -/
theorem asc_ofItems (hle : TotalOrderB le) (items : List (α × Nat)) : Asc le (ofItems le items) := by
  unfold ofItems
  have hsorted : (items.mergeSort (fun a b => le a.1 b.1)).Pairwise (fun a b => le a.1 b.1 = true) :=
    List.pairwise_mergeSort (le := fun a b : α × Nat => le a.1 b.1)
      (fun a b c => hle.trans a.1 b.1 c.1) (fun a b => hle.total a.1 b.1) items
  generalize items.mergeSort (fun a b => le a.1 b.1) = l at hsorted
  have key : ∀ (l : List (α × Nat)) (acc : Hist α), Asc le acc →
      l.Pairwise (fun a b => le a.1 b.1 = true) →
      (∀ e ∈ acc, ∀ x ∈ l, le e.1 x.1 = true) →
      Asc le (l.foldl (fun acc oc => insertAdd acc oc.1 oc.2) acc) := by
    intro l
    induction l with
    | nil => intro acc h _ _; simpa using h
    | cons x l ih =>
      intro acc hacc hl hge
      rw [List.pairwise_cons] at hl
      simp only [List.foldl_cons]
      apply ih _ (asc_insertAdd acc x.1 x.2 hacc (fun e he => hge e he x (by simp))) hl.2
      intro e he y hy
      rcases mem_keys_insertAdd acc x.1 x.2 e he with h1 | ⟨e', he', h2⟩
      · rw [h1]; exact hl.1 y hy
      · rw [← h2]; exact hge e' he' y (by simp [hy])
  exact key l [] (by simp [Asc]) hsorted (by simp)

end Dyce

namespace Dyce
open List

variable {α β γ : Type}

section
variable [DecidableEq α]

theorem wsum_insertAdd (acc : Hist α) (o : α) (c : Nat) (G : α → Nat) :
    wsum (insertAdd acc o c) G = wsum acc G + c * G o := by
  induction acc with
  | nil => simp [insertAdd]
  | cons b acc ih =>
    obtain ⟨o', c'⟩ := b
    unfold insertAdd
    by_cases h : o' = o
    · subst h; simp only [if_true, wsum_cons]; ring
    · simp only [h, if_false, wsum_cons, ih]; ring

/-- weighted sums do not see the constructor's sorting and merging -/
theorem wsum_ofItems (le : α → α → Bool) (items : List (α × Nat)) (G : α → Nat) :
    wsum (ofItems le items) G = wsum items G := by
  unfold ofItems
  have : ∀ (l : List (α × Nat)) (acc : Hist α),
      wsum (l.foldl (fun acc oc => insertAdd acc oc.1 oc.2) acc) G = wsum acc G + wsum l G := by
    intro l
    induction l with
    | nil => intro acc; simp
    | cons b l ih => intro acc; simp only [List.foldl_cons, ih, wsum_insertAdd, wsum_cons]; ring
  rw [this, wsum_nil, Nat.zero_add]
  exact wsum_perm (List.mergeSort_perm _ _) G

end

section
variable [DecidableEq γ]

theorem wsum_mapH (le : γ → γ → Bool) (op : α → β → γ) (a : Hist α) (b : Hist β) (G : γ → Nat) :
    wsum (mapH le op a b) G = wsum a (fun x => wsum b (fun y => G (op x y))) := by
  unfold mapH
  rw [wsum_ofItems]
  induction a with
  | nil => simp
  | cons xc a ih =>
    simp only [List.flatMap_cons, wsum_append, ih, wsum_cons]
    congr 1
    have h2 : (b.map fun yc => (op xc.1 yc.1, xc.2 * yc.2))
        = b.map fun tw => ((fun y => op xc.1 y) tw.1, xc.2 * tw.2) := rfl
    rw [h2, wsum_map_scale]

theorem wsum_umapH (le : γ → γ → Bool) (f : α → γ) (a : Hist α) (G : γ → Nat) :
    wsum (umapH le f a) G = wsum a (fun x => G (f x)) := by
  unfold umapH
  rw [wsum_ofItems]
  have h2 : (a.map fun xc => (f xc.1, xc.2)) = a.map fun tw => (f tw.1, 1 * tw.2) := by simp
  rw [h2, wsum_map_scale]; simp

end

section
variable [DecidableEq α]

theorem wsum_foldl_mapH (le : α → α → Bool) (add : α → α → α) (h : Hist α) (k : Nat)
    (A : Hist α) (G : α → Nat) :
    wsum ((List.replicate k h).foldl (fun acc g => mapH le add acc g) A) G
      = wsum A (fun a => wsum (tuples h k) (fun t => G (t.foldl add a))) := by
  induction k generalizing A with
  | zero => simp [tuples, wsum]
  | succ k ih =>
    rw [List.replicate_succ, List.foldl_cons, ih, wsum_mapH]
    apply wsum_congr
    intro a _
    rw [wsum_tuples_succ]
    rfl

/-- **C04**: `n @ h` is the `n`-fold sum of independent copies of `h` (Python's left-to-right
`sum`, starting from `0`) -/
theorem wsum_matmulH (le : α → α → Bool) (zero : α) (add : α → α → α) (n : Nat) (h : Hist α)
    (G : α → Nat) :
    wsum (matmulH le zero add n h) G
      = if n = 0 then 0 else wsum (tuples h n) (fun t => G (t.foldl add zero)) := by
  cases n with
  | zero => simp [matmulH, sumH]
  | succ n =>
    simp only [matmulH, List.replicate_succ, sumH, Nat.succ_ne_zero, if_false]
    rw [wsum_foldl_mapH, wsum_umapH, wsum_tuples_succ]
    rfl

theorem countOf_matmulH (le : α → α → Bool) (zero : α) (add : α → α → α) (n : Nat) (h : Hist α)
    (z : α) :
    countOf z (matmulH le zero add n h)
      = if n = 0 then 0 else wsum (tuples h n) (fun t => if t.foldl add zero = z then 1 else 0) :=
  wsum_matmulH le zero add n h _

theorem total_matmulH (le : α → α → Bool) (zero : α) (add : α → α → α) (n : Nat) (hn : 0 < n)
    (h : Hist α) : total (matmulH le zero add n h) = total h ^ n := by
  rw [total_eq_wsum, wsum_matmulH]
  have : n ≠ 0 := by omega
  simp only [this, if_false]
  exact wsum_tuples_one h n

end

end Dyce
