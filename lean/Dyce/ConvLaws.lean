import Dyce.HistProofs
import Dyce.LemmaA
/-! C01 corollaries: the convolution is symmetric in its operands (Fubini for the weighted sums), so
commutative operators give the same counts whichever operand comes first. -/
namespace Dyce
open List

theorem wsum_zero {β} (l : List (β × Nat)) : wsum l (fun _ => 0) = 0 := by
  induction l with
  | nil => rfl
  | cons e l ih => rw [wsum_cons, ih]; simp

/-- Fubini: the order of two weighted sums can be exchanged -/
theorem wsum_swap {β γ} (a : List (β × Nat)) (b : List (γ × Nat)) (F : β → γ → Nat) :
    wsum a (fun x => wsum b (fun y => F x y)) = wsum b (fun y => wsum a (fun x => F x y)) := by
  induction a with
  | nil => simp [wsum]
  | cons e a ih =>
    simp only [wsum_cons]
    rw [ih, wsum_add, wsum_mul_left]

variable {α β γ : Type} [DecidableEq γ]

/-- swapping the operands (and the operator's arguments) never changes a count -/
theorem countOf_mapH_swap (le : γ → γ → Bool) (op : α → β → γ) (a : Hist α) (b : Hist β) (z : γ) :
    countOf z (mapH le op a b) = countOf z (mapH le (fun y x => op x y) b a) := by
  rw [countOf_mapH, countOf_mapH, wsum_swap]

/-- a commutative operator gives the same counts whichever operand comes first -/
theorem countOf_mapH_comm (le : γ → γ → Bool) (op : α → α → γ) (hop : ∀ x y, op x y = op y x)
    (a b : Hist α) (z : γ) :
    countOf z (mapH le op a b) = countOf z (mapH le op b a) := by
  rw [countOf_mapH_swap]
  have : (fun y x => op x y) = op := by funext y x; exact hop x y
  rw [this]

/-- **associativity**: for an associative operator, `(a op b) op c` and `a op (b op c)` have the
same counts -/
theorem countOf_mapH_assoc [DecidableEq α] (le : α → α → Bool) (op : α → α → α)
    (hop : ∀ x y w, op (op x y) w = op x (op y w)) (a b c : Hist α) (z : α) :
    countOf z (mapH le op (mapH le op a b) c) = countOf z (mapH le op a (mapH le op b c)) := by
  rw [countOf_mapH, wsum_mapH, countOf_mapH]
  apply wsum_congr
  intro x _
  rw [wsum_mapH]
  apply wsum_congr
  intro y _
  apply wsum_congr
  intro w _
  rw [hop]

end Dyce
