import Dyce.SelCore
import Dyce.Push

namespace Dyce
open List

variable {α : Type} [DecidableEq α]

theorem selCoreR_cons_cons (m : α) (c : Nat) (x : α × Nat) (rest' : Hist α) (n k : Nat) :
    selCoreR ((m, c) :: x :: rest') n k =
      ((List.range k).flatMap fun i =>
        if headCount (total ((m, c) :: x :: rest')) c n i = 0 then [] else
          (selCoreR (x :: rest') (n - i) (k - i)).map fun e =>
            (e.1 ++ List.replicate i m, headCount (total ((m, c) :: x :: rest')) c n i * e.2.1,
              total ((m, c) :: x :: rest') ^ n * e.2.2))
      ++ [(List.replicate k m,
            (total ((m, c) :: x :: rest') ^ n
                - ((List.range k).map (headCount (total ((m, c) :: x :: rest')) c n)).sum)
              / Nat.gcd (total ((m, c) :: x :: rest') ^ n
                - ((List.range k).map (headCount (total ((m, c) :: x :: rest')) c n)).sum)
                  (total ((m, c) :: x :: rest') ^ n),
            total ((m, c) :: x :: rest') ^ n
              / Nat.gcd (total ((m, c) :: x :: rest') ^ n
                - ((List.range k).map (headCount (total ((m, c) :: x :: rest')) c n)).sum)
                  (total ((m, c) :: x :: rest') ^ n))] := by
  rw [selCoreR]
  simp

/-- the high-end recursion is the low-end recursion with every roll reversed -/
theorem selCoreR_eq_map_reverse (xs : Hist α) (n k : Nat) :
    selCoreR xs n k = (selCore xs n k).map fun e => (e.1.reverse, e.2) := by
  induction xs generalizing n k with
  | nil => simp [selCoreR, selCore]
  | cons mc rest ih =>
    obtain ⟨m, c⟩ := mc
    cases rest with
    | nil => simp [selCoreR, selCore]
    | cons x rest' =>
      rw [selCoreR_cons_cons, selCore_cons_cons]
      rw [List.map_append, List.map_flatMap]
      congr 1
      · apply List.flatMap_congr
        intro i _
        by_cases hc0 : headCount (total ((m, c) :: x :: rest')) c n i = 0
        · simp [hc0]
        · simp only [hc0, if_false]
          rw [ih (n - i) (k - i), List.map_map, List.map_map]
          apply List.map_congr_left
          intro e _
          simp [Function.comp]
      · simp

theorem total_reverse (h : Hist α) : total h.reverse = total h := by
  simp [total, List.sum_reverse]

theorem rwcHomogHigh_eq (h : Hist α) (n k : Nat) (hT : 0 < total h) (hkn : k ≤ n) :
    rwcHomogHigh n h k = (karonen h.reverse n k).map fun e => (e.1.reverse, e.2) := by
  have h1 := rwcHomogLow_eq_karonen h.reverse n k (by rw [total_reverse]; exact hT) hkn
  unfold rwcHomogLow at h1
  unfold rwcHomogHigh
  rw [selCoreR_eq_map_reverse, ← h1, List.map_map, List.map_map, total_reverse]
  rfl

/-! ### order reversal -/

theorem TotalOrderB.flip {le : α → α → Bool} (hle : TotalOrderB le) :
    TotalOrderB (fun a b => le b a) where
  refl := hle.refl
  trans := fun a b c hab hbc => hle.trans c b a hbc hab
  total := fun a b => by have := hle.total b a; simpa [Bool.or_comm] using this
  antisymm := fun a b hab hba => hle.antisymm a b hba hab

theorem sortBy_flip {le : α → α → Bool} (hle : TotalOrderB le) (t : List α) :
    sortBy (fun a b => le b a) t = (sortBy le t).reverse := by
  apply List.Perm.eq_of_pairwise (le := fun a b => le b a = true)
  · intro a b _ _ hab hba; exact hle.antisymm a b hba hab
  · exact sortBy_pairwise hle.flip t
  · rw [List.pairwise_reverse]
    exact sortBy_pairwise hle t
  · exact (sortBy_perm _ t).trans ((List.reverse_perm _).trans (sortBy_perm le t)).symm

theorem wsum_perm {β : Type} {l₁ l₂ : List (β × Nat)} (hp : l₁ ~ l₂) (f : β → Nat) :
    wsum l₁ f = wsum l₂ f := by
  unfold wsum
  exact (hp.map _).sum_eq

theorem wsum_tuples_perm {h₁ h₂ : Hist α} (hp : h₁ ~ h₂) (n : Nat) (f : List α → Nat) :
    wsum (tuples h₁ n) f = wsum (tuples h₂ n) f := by
  induction n generalizing f with
  | zero => simp [tuples]
  | succ n ih =>
    rw [wsum_tuples_succ, wsum_tuples_succ]
    rw [wsum_perm hp]
    apply wsum_congr
    intro b _
    exact ih _

/-- Brute-force specification for the high end: the `k` highest of the sorted roll. -/
def specHigh (le : α → α → Bool) (h : Hist α) (n k : Nat) (r : List α) : Nat :=
  wsum (tuples h n) (fun t => if (sortBy le t).drop (n - k) = r then 1 else 0)

theorem rwcHomogHigh_correct {le : α → α → Bool} (hle : TotalOrderB le) (h : Hist α)
    (hs : h.Pairwise (fun a b => le a.1 b.1 = true ∧ a.1 ≠ b.1))
    (n k : Nat) (hT : 0 < total h) (hkn : k ≤ n) (r : List α) :
    countOf r (rwcHomogHigh n h k) = specHigh le h n k r := by
  rw [rwcHomogHigh_eq h n k hT hkn, countOf_map_key]
  have hrev : ∀ s : List α, (if s.reverse = r then 1 else 0) = (if s = r.reverse then 1 else 0) := by
    intro s
    by_cases h1 : s = r.reverse
    · simp [h1]
    · have : ¬ s.reverse = r := fun h2 => h1 (by rw [← h2, List.reverse_reverse])
      simp [h1, this]
  simp only [hrev]
  have hs' : h.reverse.Pairwise (fun a b => (fun a b => le b a) a.1 b.1 = true ∧ a.1 ≠ b.1) := by
    rw [List.pairwise_reverse]
    exact hs.imp (fun hab => ⟨hab.1, fun e => hab.2 e.symm⟩)
  have := karonen_correct hle.flip h.reverse hs' n k hkn r.reverse
  unfold countOf at this
  rw [this]
  unfold specLow specHigh
  rw [wsum_tuples_perm (List.reverse_perm h)]
  apply wsum_congr
  intro tw htw
  have hlen : tw.1.length = n := (mem_tuples htw).1
  rw [sortBy_flip hle]
  have hl : (sortBy le tw.1).length = n := by
    rw [(sortBy_perm le tw.1).length_eq, hlen]
  have : ((sortBy le tw.1).reverse).take k = ((sortBy le tw.1).drop (n - k)).reverse := by
    rw [List.take_reverse, hl]
  rw [this]
  by_cases h1 : (sortBy le tw.1).drop (n - k) = r
  · simp [h1]
  · have : ¬ ((sortBy le tw.1).drop (n - k)).reverse = r.reverse := by
      intro h2; exact h1 (List.reverse_injective h2)
    simp [h1, this]

end Dyce
