import Dyce.RollerModel
/-! Import-free model of `random.choices(population, weights, k=1)` as CPython implements it for
integer weights (cumulative weights + `bisect`), and of `P.roll`. -/
namespace Dyce

/-- `bisect(cum_weights, x)` for `x ∈ [u, u+1)`, `u` a natural: the first index whose cumulative
weight exceeds `u` -/
def pickIdx : List Nat → Nat → Nat
  | [], _ => 0
  | w :: ws, u => if u < w then 0 else 1 + pickIdx ws (u - w)

/-- one `H.roll()` per die, in pool order -/
def rollDiceW : List (Hist Int) → W (List Int)
  | [] => pure []
  | h :: hs => do
    let v ← rollHist h
    let r ← rollDiceW hs
    pure (v :: r)

/-- `P.roll()`: one `H.roll()` per die, in pool order, then sorted -/
def rollPoolW (hs : List (Hist Int)) : W (List Int) := do
  let vs ← rollDiceW hs
  pure (vs.mergeSort fun a b => decide (a ≤ b))

/-! ### the generator-threading view: an explicit stream of generator answers -/

/-- the face `random.choices(outcomes, counts)` returns for generator answer `u` -/
def faceAt (h : Hist Int) (u : Nat) : Int :=
  ((h.map Prod.fst)[pickIdx (h.map Prod.snd) u]?).getD 0

/-- `H.roll()` against a stream of generator answers: a zero-total histogram returns `0` without
asking; otherwise exactly one answer is consumed -/
def rollHistS (h : Hist Int) (us : List Nat) : Int × List Nat :=
  if total h = 0 then (0, us) else
    match us with
    | [] => (0, [])
    | u :: us => (faceAt h u, us)

/-- one `H.roll()` per die, in pool order, threading the stream -/
def rollDiceS : List (Hist Int) → List Nat → List Int × List Nat
  | [], us => ([], us)
  | h :: hs, us =>
    let r1 := rollHistS h us
    let r2 := rollDiceS hs r1.2
    (r1.1 :: r2.1, r2.2)

/-- `P.roll()` against a stream -/
def rollPoolS (hs : List (Hist Int)) (us : List Nat) : List Int × List Nat :=
  let r := rollDiceS hs us
  (r.1.mergeSort fun a b => decide (a ≤ b), r.2)

/-- the roller model's pool leaf draws its dice the same way -/
theorem rollDiceW_eq_foldr (hs : List (Hist Int)) :
    rollDiceW hs = hs.foldr (fun h acc => do let v ← rollHist h; let r ← acc; pure (v :: r)) (pure []) := by
  induction hs with
  | nil => rfl
  | cons h hs ih => simp only [rollDiceW, List.foldr_cons, ih]

end Dyce
