import Dyce.RollerModel
/-! Import-free model of `random.choices(population, weights, k=1)` as CPython implements it for
integer weights (cumulative weights + `bisect`), and of `P.roll`. -/
namespace Dyce

/-- `bisect(cum_weights, x)` for `x ∈ [u, u+1)`, `u` a natural: the first index whose cumulative
weight exceeds `u` -/
def pickIdx : List Nat → Nat → Nat
  | [], _ => 0
  | w :: ws, u => if u < w then 0 else 1 + pickIdx ws (u - w)

/-- one `H.roll()` per die, in pool order -/
def rollDiceW : List (Hist Int) → W (List Int)
  | [] => pure []
  | h :: hs => do
    let v ← rollHist h
    let r ← rollDiceW hs
    pure (v :: r)

/-- `P.roll()`: one `H.roll()` per die, in pool order, then sorted -/
def rollPoolW (hs : List (Hist Int)) : W (List Int) := do
  let vs ← rollDiceW hs
  pure (vs.mergeSort fun a b => decide (a ≤ b))

/-- the roller model's pool leaf draws its dice the same way -/
theorem rollDiceW_eq_foldr (hs : List (Hist Int)) :
    rollDiceW hs = hs.foldr (fun h acc => do let v ← rollHist h; let r ← acc; pure (v :: r)) (pure []) := by
  induction hs with
  | nil => rfl
  | cons h hs ih => simp only [rollDiceW, List.foldr_cons, ih]

end Dyce
