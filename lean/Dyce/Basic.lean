def hello := "world"
