import Dyce.Karonen

namespace Dyce
open Finset List

variable {α : Type}

section countOf
variable {β : Type} [DecidableEq β]

@[simp] theorem countOf_nil (r : β) : countOf r ([] : List (β × Nat)) = 0 := rfl

@[simp] theorem countOf_cons (r : β) (b : β × Nat) (l : List (β × Nat)) :
    countOf r (b :: l) = (if b.1 = r then b.2 else 0) + countOf r l := by
  simp [countOf]

@[simp] theorem countOf_append (r : β) (l₁ l₂ : List (β × Nat)) :
    countOf r (l₁ ++ l₂) = countOf r l₁ + countOf r l₂ := by
  simp [countOf]

theorem countOf_flatMap_range (r : β) (k : Nat) (f : Nat → List (β × Nat)) :
    countOf r ((List.range k).flatMap f) = ∑ i ∈ Finset.range k, countOf r (f i) := by
  induction k with
  | zero => simp
  | succ k ih => simp [List.range_succ, Finset.sum_range_succ, ih]

end countOf

section lists
variable [DecidableEq α]

theorem append_eq_iff_take_drop (p x r : List α) :
    p ++ x = r ↔ r.take p.length = p ∧ r.drop p.length = x := by
  constructor
  · rintro rfl; simp
  · rintro ⟨h1, h2⟩
    have := List.take_append_drop p.length r
    rw [h1, h2] at this; exact this

theorem countOf_map_prepend (r p : List α) (s : Nat) (l : List (List α × Nat)) :
    countOf r (l.map fun tw => (p ++ tw.1, s * tw.2))
      = if r.take p.length = p then s * countOf (r.drop p.length) l else 0 := by
  induction l with
  | nil => simp
  | cons tw l ih =>
    simp only [List.map_cons, countOf_cons, ih, append_eq_iff_take_drop]
    by_cases h1 : r.take p.length = p
    · by_cases h2 : r.drop p.length = tw.1
      · simp [h1, h2, mul_add]
      · have h2' : ¬ tw.1 = r.drop p.length := fun h => h2 h.symm
        simp [h1, h2, h2', mul_add]
    · simp [h1]

theorem take_replicate_append_lt (m : α) (s : List α) {i k : Nat} (h : i ≤ k) :
    (List.replicate i m ++ s).take k = List.replicate i m ++ s.take (k - i) := by
  rw [List.take_append, List.length_replicate, List.take_replicate, Nat.min_eq_right h]

theorem take_replicate_append_ge (m : α) (s : List α) {i k : Nat} (h : k ≤ i) :
    (List.replicate i m ++ s).take k = List.replicate k m := by
  rw [List.take_append, List.length_replicate, List.take_replicate, Nat.min_eq_left h]
  simp [Nat.sub_eq_zero_of_le h]

end lists

section main
variable [DecidableEq α] {le : α → α → Bool}

/-- Brute-force specification: weighted number of `n`-tuples whose `k` lowest (sorted) are `r`. -/
def specLow (le : α → α → Bool) (h : Hist α) (n k : Nat) (r : List α) : Nat :=
  wsum (tuples h n) (fun t => if (sortBy le t).take k = r then 1 else 0)

theorem specLow_le (le : α → α → Bool) (h : Hist α) (n k : Nat) (r : List α) :
    specLow le h n k r ≤ total h ^ n := by
  rw [← wsum_tuples_one]
  apply wsum_le_of_le_one
  intro b; split <;> simp

/-- decomposition of the spec along the least face (Lemma A + Lemma B) -/
theorem specLow_cons (hle : TotalOrderB le) (m : α) (c : Nat) (rest : Hist α)
    (hm : ∀ xc ∈ rest, le m xc.1 = true ∧ m ≠ xc.1)
    (n k : Nat) (r : List α) :
    specLow le ((m, c) :: rest) n k r
      = ∑ i ∈ Finset.range (n+1), n.choose i * c^i *
          wsum (tuples rest (n - i))
            (fun u => if (List.replicate i m ++ sortBy le u).take k = r then 1 else 0) := by
  have hne : ∀ xc ∈ rest, xc.1 ≠ m := fun xc h => fun e => (hm xc h).2 e.symm
  rw [← wsum_tuples_cons m c rest hne n
    (fun i u => if (List.replicate i m ++ sortBy le u).take k = r then 1 else 0)]
  unfold specLow
  apply wsum_congr
  intro tw htw
  have hmem := (mem_tuples htw).2
  have hlb : ∀ x ∈ tw.1, le m x = true := by
    intro x hx
    have := hmem x hx
    simp only [List.map_cons, List.mem_cons, List.mem_map] at this
    rcases this with rfl | ⟨xc, hxc, rfl⟩
    · exact hle.refl _
    · exact (hm xc hxc).1
  rw [sortBy_of_lower_bound hle m tw.1 hlb]

theorem tuples_nil_succ (j : Nat) : tuples ([] : Hist α) (j+1) = [] := by simp [tuples]

theorem sum_headCount (c T' n : Nat) :
    ∑ i ∈ Finset.range (n+1), headCount (c + T') c n i = (c + T') ^ n := by
  rw [add_pow]
  refine Finset.sum_congr rfl fun i _ => ?_
  simp only [headCount, comb_eq_choose, Nat.add_sub_cancel_left, Nat.cast_id]
  ring

theorem list_range_map_sum (f : Nat → Nat) (k : Nat) :
    ((List.range k).map f).sum = ∑ i ∈ Finset.range k, f i := by
  induction k with
  | zero => simp
  | succ k ih => simp [List.range_succ, Finset.sum_range_succ, ih]

theorem karonen_cons_cons (m : α) (c : Nat) (x : α × Nat) (rest' : Hist α) (n k : Nat) :
    karonen ((m, c) :: x :: rest') n k =
      ((List.range k).flatMap fun i =>
        if headCount (total ((m, c) :: x :: rest')) c n i = 0 then [] else
          (karonen (x :: rest') (n - i) (k - i)).map fun tw =>
            (List.replicate i m ++ tw.1, comb n i * c ^ i * tw.2))
      ++ [(List.replicate k m, total ((m, c) :: x :: rest') ^ n
            - ((List.range k).map (headCount (total ((m, c) :: x :: rest')) c n)).sum)] := by
  rw [karonen]
  simp

theorem karonen_correct (hle : TotalOrderB le) (h : Hist α)
    (hs : h.Pairwise (fun a b => le a.1 b.1 = true ∧ a.1 ≠ b.1))
    (n k : Nat) (hkn : k ≤ n) (r : List α) :
    countOf r (karonen h n k) = specLow le h n k r := by
  induction h generalizing n k r with
  | nil =>
    cases n with
    | zero => simp [karonen, specLow, tuples, wsum, sortBy]
    | succ n => simp [karonen, specLow, tuples, wsum]
  | cons mc rest ih =>
    obtain ⟨m, c⟩ := mc
    have hm : ∀ xc ∈ rest, le m xc.1 = true ∧ m ≠ xc.1 :=
      fun xc hxc => (List.pairwise_cons.mp hs).1 xc hxc
    have hs' := (List.pairwise_cons.mp hs).2
    rw [specLow_cons hle m c rest hm]
    cases rest with
    | nil =>
      -- single face
      simp only [karonen, countOf_cons, countOf_nil, add_zero]
      rw [Finset.sum_range_succ]
      have hz : ∀ i ∈ Finset.range n, n.choose i * c ^ i *
          wsum (tuples ([] : Hist α) (n - i))
            (fun u => if (List.replicate i m ++ sortBy le u).take k = r then 1 else 0) = 0 := by
        intro i hi
        have : i < n := Finset.mem_range.mp hi
        obtain ⟨j, hj⟩ : ∃ j, n - i = j + 1 := ⟨n - i - 1, by omega⟩
        rw [hj, tuples_nil_succ]; simp
      rw [Finset.sum_eq_zero hz]
      simp [tuples, wsum, sortBy, Nat.min_eq_left hkn]
    | cons x rest' =>
      rw [karonen_cons_cons]
      set rest := x :: rest' with hrest
      set T := total ((m, c) :: rest) with hT
      have hTc : T = c + total rest := by simp [hT, total_cons]
      have hTsub : T - c = total rest := by omega
      rw [countOf_append, countOf_flatMap_range]
      rw [← Finset.sum_range_add_sum_Ico _ (show k ≤ n + 1 by omega)]
      congr 1
      · -- the `i < k` pieces
        refine Finset.sum_congr rfl fun i hi => ?_
        have hik : i < k := Finset.mem_range.mp hi
        have hφ : ∀ u : List α,
            (if (List.replicate i m ++ sortBy le u).take k = r then 1 else 0)
              = if r.take i = List.replicate i m then
                  (if (sortBy le u).take (k - i) = r.drop i then 1 else 0) else 0 := by
          intro u
          rw [take_replicate_append_lt m _ (le_of_lt hik)]
          have := append_eq_iff_take_drop (List.replicate i m) ((sortBy le u).take (k - i)) r
          simp only [List.length_replicate] at this
          simp only [this]
          by_cases h1 : r.take i = List.replicate i m <;> simp [h1, eq_comm]
        by_cases hc0 : headCount T c n i = 0
        · -- pruned branch: its true weight is zero as well
          simp only [hc0, if_true, countOf_nil]
          symm
          have : n.choose i * c ^ i * total rest ^ (n - i) = 0 := by
            simpa [headCount, comb_eq_choose, hTsub] using hc0
          have hb : wsum (tuples rest (n - i))
              (fun u => if (List.replicate i m ++ sortBy le u).take k = r then 1 else 0)
                ≤ total rest ^ (n - i) := by
            rw [← wsum_tuples_one]
            apply wsum_le_of_le_one; intro b; split <;> simp
          rcases Nat.eq_zero_or_pos (n.choose i * c ^ i) with h0 | hpos
          · simp [h0]
          · have : total rest ^ (n - i) = 0 := by
              rcases Nat.mul_eq_zero.mp this with h | h
              · omega
              · exact h
            have : wsum (tuples rest (n - i))
              (fun u => if (List.replicate i m ++ sortBy le u).take k = r then 1 else 0) = 0 := by
              omega
            simp [this]
        · simp only [hc0, if_false]
          rw [countOf_map_prepend]
          simp only [List.length_replicate]
          have ihr := ih hs' (n - i) (k - i) (by omega) (r.drop i)
          simp only [hφ]
          by_cases h1 : r.take i = List.replicate i m
          · simp only [h1, if_true]
            rw [ihr, comb_eq_choose]; rfl
          · simp [h1, wsum]
      · -- the `i ≥ k` tail, computed by complement
        simp only [countOf_cons, countOf_nil, add_zero]
        have hφ : ∀ i ∈ Finset.Ico k (n+1), n.choose i * c ^ i *
            wsum (tuples rest (n - i))
              (fun u => if (List.replicate i m ++ sortBy le u).take k = r then 1 else 0)
            = if List.replicate k m = r then headCount T c n i else 0 := by
          intro i hi
          have hki : k ≤ i := (Finset.mem_Ico.mp hi).1
          simp only [take_replicate_append_ge m _ hki]
          by_cases h1 : List.replicate k m = r
          · simp only [h1, if_true, wsum_tuples_one, headCount, comb_eq_choose, hTsub]
          · simp [h1, wsum]
        rw [Finset.sum_congr rfl hφ]
        by_cases h1 : List.replicate k m = r
        · simp only [h1, if_true]
          have hsum := sum_headCount c (total rest) n
          rw [← hTc] at hsum
          rw [← Finset.sum_range_add_sum_Ico _ (show k ≤ n + 1 by omega)] at hsum
          have : ((List.range k).map (headCount T c n)).sum
              = ∑ i ∈ Finset.range k, headCount T c n i := by
            exact list_range_map_sum _ _
          omega
        · simp [h1]

end main
end Dyce
