import Dyce.EvalModel
import Dyce.AggModel
import Dyce.HistOpsModel
/-! Import-free concrete instance of the evaluator used by the correspondence driver: callbacks are
finite tables of *actions* (what a "recursive mechanic" may do: return an outcome or a histogram,
raise, or return the recursive evaluation of some sources combined with a constant or with another
recursive evaluation), limits arrive raw (as the caller wrote them) and are normalised as
`_normalize_limit` does. -/
namespace Dyce

def leInt (a b : Int) : Bool := decide (a ≤ b)

/-- a limit as passed by the caller -/
inductive RawLimit where
  | none
  | int (n : Int)
  | frac (num den : Int)   -- `den > 0`
  deriving Repr

def maxsize : Nat := 9223372036854775807

/-- `_normalize_limit` -/
def normalizeLimit : RawLimit → Except Err (Option Limit)
  | .none => .ok none
  | .int n =>
    if n = -1 then .ok (some (.int maxsize))
    else if n < 0 then .error .valueError
    else .ok (some (.int n.toNat))
  | .frac p q =>
    if p ≤ 0 ∨ p ≥ q then .error .valueError
    else .ok (some (.frac p.toNat q.toNat))

/-- what a callback does on one tuple of results -/
inductive Act where
  | out (o : Int)
  | hist (h : Hist Int)
  | throw (e : Err)
  /-- `return f(*srcs, limit=lim) + c` -/
  | rec1 (fn srcList : Nat) (lim : RawLimit) (c : Int)
  /-- `return f(*srcs₁, limit=lim₁) + g(*srcs₂, limit=lim₂)` -/
  | rec2 (fn₁ sl₁ : Nat) (lim₁ : RawLimit) (fn₂ sl₂ : Nat) (lim₂ : RawLimit)

/-- a decorated function: sentinel, the sizes of its parameters' result-id spaces, and the action
table indexed by the (mixed-radix) tuple of result ids -/
structure FnTable where
  sentinel : Hist Int
  sizes : List Nat
  acts : Array Act

def mixedIndex : List Nat → List Nat → Nat
  | s :: ss, i :: is => i * (ss.foldl (· * ·) 1) + mixedIndex ss is
  | _, _ => 0

def actProg (srcLists : Array (List (Src Nat))) : Act → Prog Int Nat
  | .out o => .ret (.out o)
  | .hist h => .ret (.hist h)
  | .throw e => .throw e
  | .rec1 fn sl lim c =>
    match normalizeLimit lim with
    | .error e => .throw e
    | .ok l => .call fn (srcLists.getD sl []) l fun h => .ret (.hist (umapH leInt (· + c) h))
  | .rec2 f1 s1 l1 f2 s2 l2 =>
    match normalizeLimit l1 with
    | .error e => .throw e
    | .ok l1' =>
      .call f1 (srcLists.getD s1 []) l1' fun h1 =>
        match normalizeLimit l2 with
        | .error e => .throw e
        | .ok l2' => .call f2 (srcLists.getD s2 []) l2' fun h2 => .ret (.hist (mapH leInt (· + ·) h1 h2))

def mkEnv (fns : Array FnTable) (srcLists : Array (List (Src Nat))) (fn : Nat) : Fn Int Nat :=
  match fns[fn]? with
  | none => ⟨fun _ => .throw .typeError, []⟩
  | some t =>
    ⟨fun ids => actProg srcLists (t.acts.getD (mixedIndex t.sizes ids) (.throw .typeError)), t.sentinel⟩

/-- a top-level call `f(*srcs, limit=lim)` from an interpreter whose context variable is `cell` -/
def evalTop (fns : Array FnTable) (srcLists : Array (List (Src Nat))) (fuel : Nat)
    (fn sl : Nat) (lim : RawLimit) (cell : Cell) : Except Err (Hist Int) × Cell :=
  match normalizeLimit lim with
  | .error e => (.error e, cell)
  | .ok l =>
    evalFn (mkEnv fns srcLists) (aggregateWeighted leInt) (lowestTerms leInt) fuel fn
      (srcLists.getD sl []) l cell

end Dyce
