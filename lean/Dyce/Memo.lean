/-! Import-free model of a memo table (`functools.cache`, per-instance dict caches) and the
transparency theorem: with a sound key, history never changes an observable answer. -/
namespace Dyce

variable {A κ ν O : Type} [DecidableEq κ]

/-- one query against the memo: hit → stored value, miss → compute and store -/
def memoStep (key : A → κ) (f : A → ν) (m : List (κ × ν)) (a : A) : List (κ × ν) × ν :=
  match m.lookup (key a) with
  | some v => (m, v)
  | none => ((key a, f a) :: m, f a)

/-- run a whole history of queries, returning the final table and all the answers -/
def memoRun (key : A → κ) (f : A → ν) : List (κ × ν) → List A → List (κ × ν) × List ν
  | m, [] => (m, [])
  | m, a :: as =>
    let (m', v) := memoStep key f m a
    let (m'', vs) := memoRun key f m' as
    (m'', v :: vs)

/-- every stored value is the value of *some* argument with that key -/
def MemoInv (key : A → κ) (f : A → ν) (m : List (κ × ν)) : Prop :=
  ∀ k v, m.lookup k = some v → ∃ b, key b = k ∧ v = f b

theorem memoInv_nil (key : A → κ) (f : A → ν) : MemoInv key f [] := by
  intro k v h; simp at h

theorem memoStep_inv (key : A → κ) (f : A → ν) (m : List (κ × ν)) (a : A)
    (hm : MemoInv key f m) : MemoInv key f (memoStep key f m a).1 := by
  unfold memoStep
  cases h : m.lookup (key a) with
  | some v => exact hm
  | none =>
    intro k v hk
    simp only [List.lookup_cons] at hk
    by_cases hka : k = key a
    · subst hka
      simp only [beq_self_eq_true] at hk
      injection hk with hk
      exact ⟨a, rfl, hk.symm⟩
    · have : (k == key a) = false := by simpa using hka
      rw [this] at hk
      exact hm k v hk

/-- **C13 core**: if equal keys imply equal observables of the computed value, every answer in
every history has the observable of a cold computation. -/
theorem memo_transparent (key : A → κ) (f : A → ν) (Obs : ν → O)
    (hkey : ∀ a b, key a = key b → Obs (f a) = Obs (f b)) :
    ∀ (m : List (κ × ν)), MemoInv key f m → ∀ (as : List A),
      (memoRun key f m as).2.map Obs = as.map (fun a => Obs (f a)) := by
  intro m hm as
  induction as generalizing m with
  | nil => rfl
  | cons a as ih =>
    simp only [memoRun, List.map_cons]
    congr 1
    · unfold memoStep
      cases h : m.lookup (key a) with
      | some v =>
        obtain ⟨b, hb, hv⟩ := hm (key a) v h
        simp only
        rw [hv]; exact hkey b a hb
      | none => rfl
    · exact ih _ (memoStep_inv key f m a hm)

end Dyce
