import Dyce.EvalModel
/-! Stateless specification of recursive `@expandable` evaluation: depth, precision and limit are
explicit arguments; there is no ContextVar. -/
namespace Dyce

variable {α ρ : Type}

/-- run a callback program, nested evaluations seeing the explicit context `ctx` -/
def specProg (sv : Nat → List (Src ρ) → Option Limit → Ctx → Except Err (Hist α)) (ctx : Ctx) :
    Prog α ρ → Except Err (Ret α)
  | .ret r => .ok r
  | .throw e => .error e
  | .call fn srcs lim k =>
    match sv fn srcs lim ctx with
    | .ok h => specProg sv ctx (k h)
    | .error e => .error e

/-- one branch: evaluate the callback in the branch context; a `RecursionError` becomes the
sentinel, every other exception aborts -/
def specBranch (sv : Nat → List (Src ρ) → Option Limit → Ctx → Except Err (Hist α)) (f : Fn α ρ)
    (mkCtx : Nat → Ctx) (acc : Except Err (List (Ret α × Nat))) (bw : List ρ × Nat) :
    Except Err (List (Ret α × Nat)) :=
  match acc with
  | .error e => .error e
  | .ok sofar =>
    match specProg sv (mkCtx bw.2) (f.body bw.1) with
    | .ok r => .ok (sofar ++ [(r, bw.2)])
    | .error .recursionError => .ok (sofar ++ [(.hist f.sentinel, bw.2)])
    | .error e => .error e

/-- The documented rule, stated outright: an evaluation entered at context `cur`
(depth `d`, precision `π`, inherited limit) with explicit limit argument `lim`
* uses `lim`, else the inherited limit, else the default `1`;
* returns the sentinel iff `d ≥ L` (whole-number limit) or `π ≤ e` (fractional limit);
* otherwise evaluates every branch at depth `d+1` and precision `π · count / Π totals`
  under the same limit, and aggregates. -/
def specEval (env : Nat → Fn α ρ) (agg : List (Ret α × Nat) → Hist α) (lowest : Hist α → Hist α) :
    Nat → Nat → List (Src ρ) → Option Limit → Ctx → Except Err (Hist α)
  | 0, _, _, _, _ => .error .recursionError
  | fuel + 1, fn, srcs, lim, cur =>
    let newLim : Limit := (lim.orElse fun _ => cur.limit).getD (.int 1)
    let finish (h : Hist α) : Hist α := if cur.depth = 0 then lowest h else h
    if cutNow newLim cur then .ok (finish (env fn).sentinel)
    else
      let total := srcTotal srcs
      let mkCtx (cc : Nat) : Ctx := ⟨some newLim, cur.depth + 1, cur.precNum * cc, cur.precDen * total⟩
      match (branches srcs).foldl (specBranch (specEval env agg lowest fuel) (env fn) mkCtx) (.ok []) with
      | .ok rs => .ok (finish (agg rs))
      | .error e => .error e

end Dyce
