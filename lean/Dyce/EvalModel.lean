import Dyce.Model
/-! Import-free prototype of the `expandable` evaluator with an explicit ContextVar cell. -/
namespace Dyce

inductive Err where
  | valueError | typeError | recursionError | zeroDivision | user (tag : Nat)
  deriving DecidableEq, Repr

/-- normalised limit: whole number or fraction `num/den` in (0,1) -/
inductive Limit where
  | int (n : Nat)
  | frac (num den : Nat)
  deriving DecidableEq, Repr

structure Ctx where
  limit : Option Limit
  depth : Nat
  precNum : Nat
  precDen : Nat
  deriving DecidableEq, Repr

/-- the monad: exceptions over a persistent state cell (state survives exceptions, like a
ContextVar does) -/
abbrev M (σ β : Type) := σ → (Except Err β × σ)

@[inline] def M.pure {σ β} (b : β) : M σ β := fun s => (.ok b, s)
@[inline] def M.bind {σ β γ} (x : M σ β) (f : β → M σ γ) : M σ γ := fun s =>
  match x s with
  | (.ok b, s') => f b s'
  | (.error e, s') => (.error e, s')
instance {σ} : Monad (M σ) where
  pure := M.pure
  bind := M.bind
def M.throw {σ β} (e : Err) : M σ β := fun s => (.error e, s)
def M.get {σ} : M σ σ := fun s => (.ok s, s)
def M.set {σ} (s : σ) : M σ Unit := fun _ => (.ok (), s)

inductive Ret (α : Type) where
  | out (o : α)
  | hist (h : Hist α)

/-- A source as presented to the evaluator: its result list and its declared total. -/
structure Src (ρ : Type) where
  results : List (ρ × Nat)
  total : Nat

/-- What a callback does: return, raise, or evaluate another decorated function and continue. -/
inductive Prog (α ρ : Type) where
  | ret (r : Ret α)
  | throw (e : Err)
  | call (fn : Nat) (srcs : List (Src ρ)) (limit : Option Limit) (k : Hist α → Prog α ρ)

structure Fn (α ρ : Type) where
  body : List ρ → Prog α ρ
  sentinel : Hist α

abbrev Cell := Option Ctx

/-- run a callback program given an evaluator for nested calls -/
def runProg {α ρ} (ev : Nat → List (Src ρ) → Option Limit → M Cell (Hist α)) :
    Prog α ρ → M Cell (Ret α)
  | .ret r => pure r
  | .throw e => M.throw e
  | .call fn srcs lim k => do
    let h ← ev fn srcs lim
    runProg ev (k h)

/-- Cartesian product of result lists with multiplied counts -/
def branches {ρ} : List (Src ρ) → List (List ρ × Nat)
  | [] => [([], 1)]
  | s :: ss => s.results.flatMap fun rc => (branches ss).map fun bw => (rc.1 :: bw.1, rc.2 * bw.2)

/-- `prod(obj.total for obj in objs) or 1` -/
def srcTotal {ρ} (srcs : List (Src ρ)) : Nat :=
  let t := (srcs.map (·.total)).foldl (· * ·) 1
  if t = 0 then 1 else t

def cutNow (lim : Limit) (c : Ctx) : Bool :=
  match lim with
  | .int n => decide (c.depth ≥ n)
  | .frac num den => decide (c.precNum * den ≤ num * c.precDen)

/-- `try: … except RecursionError: sentinel  finally: reset(token)` around one callback call -/
def guarded {α} (tok : Cell) (sentinel : Hist α) (x : M Cell (Ret α)) : M Cell (Ret α) := fun s =>
  match x s with
  | (.ok r, _) => (.ok r, tok)
  | (.error .recursionError, _) => (.ok (.hist sentinel), tok)
  | (.error e, _) => (.error e, tok)

/-- one iteration of the generator `_expand_if_we_can_can_can`: set the context for the branch,
call the callback under try/except/finally, collect `(evaluated, combined_count)` -/
def branchStep {α ρ} (ev : Nat → List (Src ρ) → Option Limit → M Cell (Hist α)) (f : Fn α ρ)
    (mkCtx : Nat → Ctx) (acc : M Cell (List (Ret α × Nat))) (bw : List ρ × Nat) :
    M Cell (List (Ret α × Nat)) := do
  let sofar ← acc
  let tok ← M.get
  M.set (some (mkCtx bw.2))
  let r ← guarded tok f.sentinel (runProg ev (f.body bw.1))
  pure (sofar ++ [(r, bw.2)])

/-- abstract aggregation (C06) is a parameter here -/
def evalFn {α ρ} (env : Nat → Fn α ρ) (agg : List (Ret α × Nat) → Hist α)
    (lowest : Hist α → Hist α) :
    Nat → Nat → List (Src ρ) → Option Limit → M Cell (Hist α)
  | 0, _, _, _ => M.throw .recursionError
  | fuel + 1, fn, srcs, lim => fun cell =>
    let cur : Ctx := cell.getD ⟨none, 0, 1, 1⟩
    let newLim : Limit := (lim.orElse fun _ => cur.limit).getD (.int 1)
    let finish (h : Hist α) : Hist α := if cur.depth = 0 then lowest h else h
    if cutNow newLim cur then (.ok (finish (env fn).sentinel), cell)
    else
      let total := srcTotal srcs
      let mkCtx (cc : Nat) : Ctx := ⟨some newLim, cur.depth + 1, cur.precNum * cc, cur.precDen * total⟩
      match (branches srcs).foldl (branchStep (evalFn env agg lowest fuel) (env fn) mkCtx) (pure []) cell with
      | (.ok rs, cell') => (.ok (finish (agg rs)), cell')
      | (.error e, cell') => (.error e, cell')

end Dyce
