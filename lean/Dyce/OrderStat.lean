import Dyce.HistProofs
import Dyce.PoolHProofs

namespace Dyce
open List

variable {α : Type} [DecidableEq α] {le : α → α → Bool}

/-! ### position in a sorted list ↔ counting -/

/-- In a sorted list, the elements satisfying a downward-closed predicate form a prefix. -/
theorem sorted_getElem_iff_lt_countP (s : List α) (hs : s.Pairwise (fun a b => le a b = true))
    (q : α → Bool) (hq : ∀ x y, le x y = true → q y = true → q x = true)
    (p : Nat) (hp : p < s.length) :
    q s[p] = true ↔ p < s.countP q := by
  induction s generalizing p with
  | nil => simp at hp
  | cons a s ih =>
    rw [List.pairwise_cons] at hs
    by_cases hqa : q a = true
    · rw [List.countP_cons_of_pos hqa]
      cases p with
      | zero => simp [hqa]
      | succ p =>
        simp only [List.getElem_cons_succ]
        rw [ih hs.2 p (by simpa using hp)]
        omega
    · have hall : ∀ y ∈ s, ¬ q y = true := fun y hy hqy => hqa (hq a y (hs.1 y hy) hqy)
      have hcnt : (a :: s).countP q = 0 := by
        rw [List.countP_eq_zero]
        intro y hy
        simp only [List.mem_cons] at hy
        rcases hy with rfl | hy
        · exact hqa
        · exact hall y hy
      rw [hcnt]
      constructor
      · intro h
        exfalso
        cases p with
        | zero => exact hqa (by simpa using h)
        | succ p =>
          simp only [List.getElem_cons_succ] at h
          exact hall _ (List.getElem_mem _) h
      · intro h; omega

/-- **order statistic ↔ counting**: the element at position `pos` of the sorted roll is `f` iff
fewer than … well, at most `pos` elements are `< f` and more than `pos` are `≤ f`. -/
theorem sorted_pos_iff (hle : TotalOrderB le) (t : List α) (f : α) (pos : Nat) :
    (sortBy le t)[pos]? = some f ↔
      t.countP (fun x => le x f && !(x == f)) ≤ pos ∧ pos < t.countP (fun x => le x f) := by
  have hperm := sortBy_perm le t
  rw [← hperm.countP_eq, ← hperm.countP_eq]
  have hs := sortBy_pairwise hle t
  set s := sortBy le t
  have hq1 : ∀ x y, le x y = true → (fun x => le x f) y = true → (fun x => le x f) x = true :=
    fun x y hxy hyf => hle.trans x y f hxy hyf
  have hq2 : ∀ x y, le x y = true → (fun x => le x f && !(x == f)) y = true →
      (fun x => le x f && !(x == f)) x = true := by
    intro x y hxy hy
    simp only [Bool.and_eq_true, Bool.not_eq_true', beq_eq_false_iff_ne, ne_eq] at hy ⊢
    refine ⟨hle.trans x y f hxy hy.1, ?_⟩
    intro hxf
    subst hxf
    exact hy.2 (hle.antisymm y x hy.1 hxy)
  by_cases hp : pos < s.length
  · rw [List.getElem?_eq_getElem hp]
    have h1 := sorted_getElem_iff_lt_countP s hs (fun x => le x f) hq1 pos hp
    have h2 := sorted_getElem_iff_lt_countP s hs (fun x => le x f && !(x == f)) hq2 pos hp
    simp only [Option.some.injEq]
    constructor
    · intro heq
      refine ⟨?_, h1.mp (by rw [heq]; exact hle.refl f)⟩
      by_contra hlt
      have := h2.mpr (by omega)
      simp [heq] at this
    · rintro ⟨hlow, hhigh⟩
      have hle' : le s[pos] f = true := h1.mpr hhigh
      have hnlt : ¬ ((le s[pos] f && !(s[pos] == f)) = true) := fun h => by
        have := h2.mp h; omega
      simp only [Bool.and_eq_true, hle', true_and, Bool.not_eq_true', beq_eq_false_iff_ne,
        ne_eq, not_not] at hnlt
      exact hnlt
  · rw [List.getElem?_eq_none (by omega)]
    constructor
    · intro h; exact absurd h (by simp)
    · rintro ⟨_, hhigh⟩
      have : s.countP (fun x => le x f) ≤ s.length := List.countP_le_length
      omega

end Dyce

namespace Dyce
open List

variable {α β : Type}

/-- relabelling the faces of the dice relabels the tuples -/
theorem wsum_tuples_umapH [DecidableEq α] [DecidableEq β] (leb : β → β → Bool) (g : α → β) (h : Hist α) (n : Nat)
    (F : List β → Nat) :
    wsum (tuples (umapH leb g h) n) F = wsum (tuples h n) (fun t => F (t.map g)) := by
  induction n generalizing F with
  | zero => simp [tuples, wsum]
  | succ n ih =>
    rw [wsum_tuples_succ, wsum_tuples_succ, wsum_umapH]
    apply wsum_congr
    intro b _
    rw [ih]
    rfl

theorem foldl_add_indicator (q : α → Bool) (t : List α) :
    (t.map fun x => if q x then 1 else 0).foldl (· + ·) 0 = t.countP q := by
  have : ∀ (acc : Nat), (t.map fun x => if q x then 1 else 0).foldl (· + ·) acc = acc + t.countP q := by
    induction t with
    | nil => intro acc; simp
    | cons x t ih =>
      intro acc
      simp only [List.map_cons, List.foldl_cons, ih, List.countP_cons]
      by_cases hq : q x = true
      · simp [hq]; omega
      · simp [hq]
  simpa using this 0

end Dyce
