import Dyce.RollerOwn

/-! C12, accounting clause: every live outcome of every source roll is accounted for in the parent
roll — kept, used (possibly through an implicit sum) as a source of a derived outcome, or the source
of a tombstone. -/
namespace Dyce
open List

mutual
/-- the outcome itself and everything reachable through `sources` -/
def RO.reach : RO → List RO
  | .mk v srcs o => .mk v srcs o :: RO.reachList srcs
def RO.reachList : List RO → List RO
  | [] => []
  | r :: rs => r.reach ++ RO.reachList rs
end

theorem RO.mem_reach_self (ro : RO) : ro ∈ ro.reach := by
  cases ro; simp [RO.reach]

theorem RO.mem_reachList_of_mem (l : List RO) (x : RO) (hx : x ∈ l) : x ∈ RO.reachList l := by
  induction l with
  | nil => simp at hx
  | cons y l ih =>
    simp only [RO.reachList, List.mem_append]
    simp only [List.mem_cons] at hx
    rcases hx with rfl | hx
    · exact Or.inl (RO.mem_reach_self _)
    · exact Or.inr (ih hx)

theorem RO.reachList_eq_flatMap (l : List RO) : RO.reachList l = l.flatMap RO.reach := by
  induction l with
  | nil => rfl
  | cons y l ih => simp [RO.reachList, ih]

/-- `x` is a direct source of `ro` ⇒ `x` is reachable from `ro` -/
theorem RO.mem_reach_of_source (ro x : RO) (hx : x ∈ ro.sources) : x ∈ ro.reach := by
  cases ro with
  | mk v srcs o =>
    simp only [RO.sources] at hx
    simp only [RO.reach, List.mem_cons]
    exact Or.inr (RO.mem_reachList_of_mem srcs x hx)

theorem RO.mem_reach_trans (ro y x : RO) (hy : y ∈ ro.sources) (hx : x ∈ y.sources) : x ∈ ro.reach := by
  cases ro with
  | mk v srcs o =>
    simp only [RO.sources] at hy
    simp only [RO.reach, List.mem_cons]
    right
    rw [RO.reachList_eq_flatMap, List.mem_flatMap]
    exact ⟨y, hy, RO.mem_reach_of_source y x hx⟩

/-! ### associating already associated outcomes changes nothing -/

theorem ownDeep_of_owned (ro : RO) (h : ro.owned = true) : ro.ownDeep = ro := by
  cases ro with
  | mk v srcs o =>
    simp only [RO.owned] at h
    subst h
    simp [RO.ownDeep]

theorem ownDeepList_of_owned (l : List RO) (h : ∀ ro ∈ l, ro.owned = true) : RO.ownDeepList l = l := by
  induction l with
  | nil => rfl
  | cons x l ih =>
    simp only [RO.ownDeepList]
    rw [ownDeep_of_owned x (h x (by simp)), ih (fun r hr => h r (by simp [hr]))]

theorem owned_of_allOwned (ro : RO) (h : ro.allOwned = true) : ro.owned = true := by
  cases ro with
  | mk v srcs o =>
    simp only [RO.allOwned, Bool.and_eq_true] at h
    exact h.1

theorem sources_ownDeep (ro : RO) : ∀ x ∈ ro.sources, x.owned = true → x ∈ ro.ownDeep.sources := by
  cases ro with
  | mk v srcs o =>
    intro x hx hxo
    simp only [RO.sources] at hx
    by_cases ho : o = true
    · subst ho; simpa [RO.ownDeep, RO.sources] using hx
    · have : o = false := by simpa using ho
      subst this
      simp only [RO.ownDeep, Bool.false_eq_true, if_false, RO.sources]
      -- x is owned, so `ownDeep x = x` sits in `ownDeepList srcs`
      clear ho
      induction srcs with
      | nil => simp at hx
      | cons y l ih =>
        simp only [RO.ownDeepList, List.mem_cons]
        simp only [List.mem_cons] at hx
        rcases hx with rfl | hx
        · left; exact (ownDeep_of_owned x hxo).symm
        · right; exact ih hx

/-- the accounting predicate for one parent record -/
def Accounted (rec : RollRec) : Prop :=
  ∀ sr ∈ rec.sourceRolls, ∀ o ∈ sr.outcomes, o.value.isSome → o ∈ rec.outcomes.flatMap RO.reach

/-- a live, associated outcome that the parent yields as is -/
theorem accounted_kept (outs : List RO) (srs : List RollRec) (o : RO) (ho : o ∈ outs) (hown : o.owned = true) :
    o ∈ (mkRollDeep outs srs).outcomes.flatMap RO.reach := by
  simp only [mkRollDeep, RollRec.outcomes, List.mem_flatMap]
  refine ⟨o, ?_, RO.mem_reach_self o⟩
  induction outs with
  | nil => simp at ho
  | cons y l ih =>
    simp only [RO.ownDeepList, List.mem_cons]
    simp only [List.mem_cons] at ho
    rcases ho with rfl | ho
    · left; exact (ownDeep_of_owned o hown).symm
    · right; exact ih ho

/-- a live, associated outcome that is a direct source of something the parent yields -/
theorem accounted_source (outs : List RO) (srs : List RollRec) (y o : RO) (hy : y ∈ outs)
    (ho : o ∈ y.sources) (hown : o.owned = true) :
    o ∈ (mkRollDeep outs srs).outcomes.flatMap RO.reach := by
  simp only [mkRollDeep, RollRec.outcomes, List.mem_flatMap]
  refine ⟨y.ownDeep, ?_, RO.mem_reach_of_source _ o (sources_ownDeep y o ho hown)⟩
  induction outs with
  | nil => simp at hy
  | cons z l ih =>
    simp only [RO.ownDeepList, List.mem_cons]
    simp only [List.mem_cons] at hy
    rcases hy with rfl | hy
    · left; rfl
    · right; exact ih hy

end Dyce

namespace Dyce
open List

theorem mem_insertRO_self (x : RO) (l : List RO) : x ∈ insertRO x l := by
  induction l with
  | nil => simp [insertRO]
  | cons y ys ih => unfold insertRO; split <;> simp [ih]

theorem mem_insertRO_of_mem (x : RO) (l : List RO) (r : RO) (hr : r ∈ l) : r ∈ insertRO x l := by
  induction l with
  | nil => simp at hr
  | cons y ys ih =>
    unfold insertRO
    simp only [List.mem_cons] at hr
    split
    · rcases hr with rfl | hr <;> simp [*]
    · rcases hr with rfl | hr
      · simp
      · simp [ih hr]

/-- sorting loses nothing -/
theorem mem_sortRO_of_mem (l : List RO) (r : RO) (hr : r ∈ l) : r ∈ sortRO l := by
  induction l with
  | nil => simp at hr
  | cons x l ih =>
    have hfold : sortRO (x :: l) = insertRO x (sortRO l) := rfl
    rw [hfold]
    simp only [List.mem_cons] at hr
    rcases hr with rfl | hr
    · exact mem_insertRO_self _ _
    · exact mem_insertRO_of_mem _ _ _ (ih hr)

theorem live_mem (rs : List RollRec) (sr : RollRec) (hsr : sr ∈ rs) (o : RO) (ho : o ∈ sr.outcomes)
    (hv : o.value.isSome) : o ∈ liveOutcomes rs := by
  unfold liveOutcomes
  rw [List.mem_filter]
  exact ⟨List.mem_flatMap.mpr ⟨sr, hsr, ho⟩, hv⟩

theorem owned_of_wellOwned (rs : List RollRec) (h : RollRec.wellOwnedList rs = true) (sr : RollRec)
    (hsr : sr ∈ rs) (o : RO) (ho : o ∈ sr.outcomes) : o.owned = true :=
  owned_of_allOwned o (outcomes_allOwned rs h o (List.mem_flatMap.mpr ⟨sr, hsr, ho⟩))

/-- pool / repeat: live source outcomes are passed through -/
theorem accounted_passthrough (rs : List RollRec) (h : RollRec.wellOwnedList rs = true) :
    Accounted (mkRollDeep (liveOutcomes rs) rs) := by
  intro sr hsr o ho hv
  have hsr' : sr ∈ rs := hsr
  exact accounted_kept _ _ o (live_mem rs sr hsr' o ho hv) (owned_of_wellOwned rs h sr hsr' o ho)

/-- filter: kept, or the source of a tombstone -/
theorem accounted_filter (p : Int → Bool) (rs : List RollRec) (h : RollRec.wellOwnedList rs = true) :
    Accounted (mkRollDeep ((liveOutcomes rs).map fun ro => if p (ro.value.getD 0) then ro else euthanize ro) rs) := by
  intro sr hsr o ho hv
  have hsr' : sr ∈ rs := hsr
  have hlive := live_mem rs sr hsr' o ho hv
  have hown := owned_of_wellOwned rs h sr hsr' o ho
  by_cases hp : p (o.value.getD 0) = true
  · apply accounted_kept _ _ o _ hown
    exact List.mem_map.mpr ⟨o, hlive, by simp [hp]⟩
  · apply accounted_source _ _ (euthanize o) o _ (by simp [euthanize, RO.sources]) hown
    exact List.mem_map.mpr ⟨o, hlive, by simp [hp]⟩

/-- an operand of a sum-op node accounts for every live outcome of its source roll -/
theorem operand_accounts (sr : RollRec) (hsr : sr.wellOwned = true) (o : RO) (ho : o ∈ sr.outcomes)
    (hv : o.value.isSome) :
    o = sumOperand sr ∨ (o ∈ (sumOperand sr).sources ∧ (sumOperand sr).owned = false) := by
  unfold sumOperand
  split
  · rename_i ro heq
    rw [heq] at ho
    simp only [List.mem_singleton] at ho
    subst ho
    simp [hv]
  · right; exact ⟨by simpa [RO.sources] using ho, rfl⟩

theorem accounted_via_operand (outs : List RO) (srs : List RollRec) (y a o : RO) (hy : y ∈ outs)
    (hyo : y.owned = false) (ha : a ∈ y.sources) (hao : a.owned = false) (ho : o ∈ a.sources)
    (hown : o.owned = true) :
    o ∈ (mkRollDeep outs srs).outcomes.flatMap RO.reach := by
  simp only [mkRollDeep, RollRec.outcomes, List.mem_flatMap]
  refine ⟨y.ownDeep, ?_, ?_⟩
  · induction outs with
    | nil => simp at hy
    | cons z l ih =>
      simp only [RO.ownDeepList, List.mem_cons]
      simp only [List.mem_cons] at hy
      rcases hy with rfl | hy
      · left; rfl
      · right; exact ih hy
  · -- y and a are not yet associated, so `ownDeep` recurses into both; o is, so it stays
    have h1 : a.ownDeep ∈ y.ownDeep.sources := by
      cases y with
      | mk v srcs ow =>
        simp only [RO.owned] at hyo
        subst hyo
        simp only [RO.sources] at ha
        simp only [RO.ownDeep, Bool.false_eq_true, if_false, RO.sources]
        clear hy
        induction srcs with
        | nil => simp at ha
        | cons z l ih =>
          simp only [RO.ownDeepList, List.mem_cons]
          simp only [List.mem_cons] at ha
          rcases ha with rfl | ha
          · left; rfl
          · right; exact ih ha
    exact RO.mem_reach_trans _ _ o h1 (sources_ownDeep a o ho hown)

end Dyce

namespace Dyce
open List

theorem accounted_bin (op : Int → Int → Int) (rl rr : RollRec) (hl : rl.wellOwned = true) (hr : rr.wellOwned = true) :
    Accounted (mkRollDeep
      [.mk (some (op ((sumOperand rl).value.getD 0) ((sumOperand rr).value.getD 0))) [sumOperand rl, sumOperand rr] false]
      [rl, rr]) := by
  intro sr hsr o ho hv
  have hsr0 : sr ∈ [rl, rr] := hsr
  have hsr' : sr = rl ∨ sr = rr := by simpa using hsr0
  have hwo : sr.wellOwned = true := by rcases hsr' with rfl | rfl <;> assumption
  have hown : o.owned = true := owned_of_allOwned o (outcomes_allOwned_single sr hwo o ho)
  have hop : sumOperand sr ∈ [sumOperand rl, sumOperand rr] := by rcases hsr' with rfl | rfl <;> simp
  set y : RO := .mk (some (op ((sumOperand rl).value.getD 0) ((sumOperand rr).value.getD 0))) [sumOperand rl, sumOperand rr] false with hy
  have hys : y.sources = [sumOperand rl, sumOperand rr] := rfl
  rcases operand_accounts sr hwo o ho hv with heq | ⟨hsrc, hunowned⟩
  · exact accounted_source [y] [rl, rr] y o (List.mem_singleton.mpr rfl) (by rw [hys, heq]; exact hop) hown
  · exact accounted_via_operand [y] [rl, rr] y (sumOperand sr) o (List.mem_singleton.mpr rfl) rfl
      (by rw [hys]; exact hop) hunowned hsrc hown

theorem accounted_un (op : Int → Int) (rs : RollRec) (hs : rs.wellOwned = true) :
    Accounted (mkRollDeep [.mk (some (op ((sumOperand rs).value.getD 0))) [sumOperand rs] false] [rs]) := by
  intro sr hsr o ho hv
  have hsr0 : sr ∈ [rs] := hsr
  have hsr' : sr = rs := by simpa using hsr0
  subst hsr'
  have hown : o.owned = true := owned_of_allOwned o (outcomes_allOwned_single sr hs o ho)
  set y : RO := .mk (some (op ((sumOperand sr).value.getD 0))) [sumOperand sr] false with hy
  have hys : y.sources = [sumOperand sr] := rfl
  rcases operand_accounts sr hs o ho hv with heq | ⟨hsrc, hunowned⟩
  · exact accounted_source [y] [sr] y o (List.mem_singleton.mpr rfl) (by rw [hys, heq]; simp) hown
  · exact accounted_via_operand [y] [sr] y (sumOperand sr) o (List.mem_singleton.mpr rfl) rfl
      (by rw [hys]; simp) hunowned hsrc hown

/-- whatever the operand reaches once associated, the end of the chain built on it reaches too -/
theorem reach_chainRO (ops : List (Int → Int)) (a o : RO) (h : o ∈ a.ownDeep.reach) :
    o ∈ (chainRO ops a).ownDeep.reach := by
  induction ops generalizing a with
  | nil => simpa [chainRO] using h
  | cons f fs ih =>
    rw [chainRO]
    apply ih
    simp only [RO.ownDeep, Bool.false_eq_true, if_false, RO.ownDeepList, RO.reach, RO.reachList,
      List.append_nil, List.mem_cons]
    exact Or.inr h

/-- a custom multi-step operator: the operand's outcomes are reachable from the end of the chain -/
theorem accounted_unChain (ops : List (Int → Int)) (rs : RollRec) (hs : rs.wellOwned = true) :
    Accounted (mkRollDeep [chainRO ops (sumOperand rs)] [rs]) := by
  intro sr hsr o ho hv
  have hsr0 : sr ∈ [rs] := hsr
  have hsr' : sr = rs := by simpa using hsr0
  subst hsr'
  have hown : o.owned = true := owned_of_allOwned o (outcomes_allOwned_single sr hs o ho)
  have hbase : o ∈ (sumOperand sr).ownDeep.reach := by
    rcases operand_accounts sr hs o ho hv with heq | ⟨hsrc, _⟩
    · rw [← heq, ownDeep_of_owned o hown]; exact RO.mem_reach_self o
    · exact RO.mem_reach_of_source _ o (sources_ownDeep _ o hsrc hown)
  have := reach_chainRO ops (sumOperand sr) o hbase
  simpa [mkRollDeep, RollRec.outcomes, RO.ownDeepList] using this

theorem accounted_sel (rs : List RollRec) (h : RollRec.wellOwnedList rs = true) (idxs : List Nat) :
    Accounted (mkRollDeep
      ((idxs.filterMap fun j => (sortRO (liveOutcomes rs))[j]?) ++
        ((List.range (sortRO (liveOutcomes rs)).length).filter fun j => !idxs.contains j).filterMap
          fun j => ((sortRO (liveOutcomes rs))[j]?).map euthanize) rs) := by
  intro sr hsr o ho hv
  have hsr' : sr ∈ rs := hsr
  have hown := owned_of_wellOwned rs h sr hsr' o ho
  have hsorted := mem_sortRO_of_mem _ o (live_mem rs sr hsr' o ho hv)
  obtain ⟨j, hj⟩ := List.mem_iff_getElem?.mp hsorted
  by_cases hin : j ∈ idxs
  · apply accounted_kept _ _ o _ hown
    apply List.mem_append_left
    exact List.mem_filterMap.mpr ⟨j, hin, hj⟩
  · apply accounted_source _ _ (euthanize o) o _ (by simp [euthanize, RO.sources]) hown
    apply List.mem_append_right
    refine List.mem_filterMap.mpr ⟨j, ?_, by simp [hj]⟩
    rw [List.mem_filter]
    refine ⟨List.mem_range.mpr ?_, by simpa using hin⟩
    by_contra hlt
    have : (sortRO (liveOutcomes rs))[j]? = none := List.getElem?_eq_none (by omega)
    rw [this] at hj; cases hj

theorem accounted_substMap (p : Int → Bool) (f : Int → Int) (md : Nat) (sr : RollRec) (hs : sr.wellOwned = true) :
    Accounted (mkRollDeep
      (if md = 0 then sr.outcomes.filter (fun ro => ro.value.isSome)
       else (sr.outcomes.filter (fun ro => ro.value.isSome)).map fun o =>
        if p (o.value.getD 0) then .mk (some (f (o.value.getD 0))) [o] false else o)
      [sr]) := by
  intro sr' hsr' o ho hv
  have hsr0 : sr' ∈ [sr] := hsr'
  have : sr' = sr := by simpa using hsr0
  subst this
  have hown : o.owned = true := owned_of_allOwned o (outcomes_allOwned_single sr' hs o ho)
  have hlive : o ∈ sr'.outcomes.filter (fun ro => ro.value.isSome) := List.mem_filter.mpr ⟨ho, hv⟩
  by_cases hm : md = 0
  · simp only [hm, if_true]
    exact accounted_kept _ _ o hlive hown
  · simp only [hm, if_false]
    by_cases hp : p (o.value.getD 0) = true
    · apply accounted_source _ _ (.mk (some (f (o.value.getD 0))) [o] false) o _ (by simp [RO.sources]) hown
      exact List.mem_map.mpr ⟨o, hlive, by simp [hp]⟩
    · apply accounted_kept _ _ o _ hown
      exact List.mem_map.mpr ⟨o, hlive, by simp [hp]⟩

/-- the selection of a selection node resolves for every number of outcomes (e.g. slices), or the
node is not a selection -/
def SelResolves : RTree → Prop
  | .sel which _ => ∀ n, ∃ idxs, resolve n which = .ok idxs
  | _ => True

/-- **C12, accounting clause**: for every node other than the re-rolling substitution, on every
choice path, every live outcome of every source roll is accounted for in the parent roll -/
theorem rollW_accounted (t : RTree) (hns : ∀ p e rep md src, t ≠ .subst p e rep md src) (hsel : SelResolves t) :
    AllW Accounted (rollW mkRollDeep t) := by
  cases t with
  | value l =>
    have hvac : ∀ outs, Accounted (mkRollDeep outs []) := by
      intro outs sr hsr
      have : sr ∈ ([] : List RollRec) := hsr
      simp at this
    cases l with
    | scalar v => rw [rollW]; exact AllW_pure _ _ (hvac _)
    | hist hh =>
      rw [rollW]
      exact AllW_bind (fun _ => True) _ _ _ (AllW_true _) (fun v _ => AllW_pure _ _ (hvac _))
    | pool hs =>
      rw [rollW]
      exact AllW_bind (fun _ => True) _ _ _ (AllW_true _) (fun v _ => AllW_pure _ _ (hvac _))
  | pool srcs =>
    rw [rollW]
    exact AllW_bind _ _ _ _ (rollAllW_wellOwned srcs) (fun rs hrs => AllW_pure _ _ (accounted_passthrough rs hrs))
  | rep n src =>
    rw [rollW]
    refine AllW_bind _ _ _ _ (AllW_replicateW _ n _ (rollW_wellOwned src)) (fun rs hrs => ?_)
    exact AllW_pure _ _ (accounted_passthrough rs (wellOwnedList_of_forall rs hrs))
  | bin op l r =>
    rw [rollW]
    refine AllW_bind _ _ _ _ (rollW_wellOwned l) (fun rl hl => ?_)
    refine AllW_bind _ _ _ _ (rollW_wellOwned r) (fun rr hr => ?_)
    exact AllW_pure _ _ (accounted_bin op rl rr hl hr)
  | un op s =>
    rw [rollW]
    refine AllW_bind _ _ _ _ (rollW_wellOwned s) (fun rs hs => ?_)
    exact AllW_pure _ _ (accounted_un op rs hs)
  | unChain ops s =>
    rw [rollW]
    refine AllW_bind _ _ _ _ (rollW_wellOwned s) (fun rs hs => ?_)
    exact AllW_pure _ _ (accounted_unChain ops rs hs)
  | filt p srcs =>
    rw [rollW]
    exact AllW_bind _ _ _ _ (rollAllW_wellOwned srcs) (fun rs hrs => AllW_pure _ _ (accounted_filter p rs hrs))
  | sel which srcs =>
    rw [rollW]
    refine AllW_bind _ _ _ _ (rollAllW_wellOwned srcs) (fun rs hrs => ?_)
    simp only
    obtain ⟨idxs, hidx⟩ := hsel (sortRO (liveOutcomes rs)).length
    rw [hidx]
    exact AllW_pure _ _ (accounted_sel rs hrs idxs)
  | substMap p f md src =>
    rw [rollW]
    refine AllW_bind _ _ _ _ (rollW_wellOwned src) (fun sr hsr => ?_)
    exact AllW_pure _ _ (accounted_substMap p f md sr hsr)
  | subst p e rep md src => exact absurd rfl (hns p e rep md src)

end Dyce

namespace Dyce
open List

/-- the substitution loop accounts for every live outcome of every roll it appends: it is yielded,
or (REPLACE mode) its tombstone is -/
def ExpandAcc (res : List RO × List RollRec) : Prop :=
  ∀ sr ∈ res.2, ∀ o ∈ sr.outcomes, o.value.isSome → o ∈ res.1 ∨ euthanize o ∈ res.1

theorem expandW_accounts (mk : List RO → List RollRec → RollRec) (p : Int → Bool) (rollE : W RollRec)
    (replace : Bool) :
    ∀ (k : Nat) (roll : RollRec), AllW ExpandAcc (expandW mk p rollE replace k roll) := by
  intro k
  induction k with
  | zero =>
    intro roll
    rw [expandW]
    refine AllW_pure _ _ ?_
    intro sr hsr o ho hv
    have : sr = roll := by simpa using hsr
    subst this
    left; exact List.mem_filter.mpr ⟨ho, hv⟩
  | succ k ih =>
    intro roll
    rw [expandW]
    -- invariant of the fold, with the not yet processed outcomes `rem`
    have key : ∀ (rem : List RO) (acc : W (List RO × List RollRec)),
        AllW (fun st => ∀ sr ∈ st.2, ∀ o ∈ sr.outcomes, o.value.isSome →
          o ∈ st.1 ∨ euthanize o ∈ st.1 ∨ o ∈ rem) acc →
        AllW ExpandAcc (rem.foldl
          (fun acc o => do
            let st ← acc
            if p (o.value.getD 0) then do
              let er ← rollE
              let adopted := mk (er.outcomes.map (RO.adoptAppend o)) er.sourceRolls
              let sub ← expandW mk p rollE replace k adopted
              pure (st.1 ++ [if replace then euthanize o else o] ++ sub.1, st.2 ++ sub.2)
            else pure (st.1 ++ [o], st.2)) acc) := by
      intro rem
      induction rem with
      | nil =>
        intro acc hacc e he
        have := hacc e he
        intro sr hsr o ho hv
        rcases this sr hsr o ho hv with h | h | h
        · exact Or.inl h
        · exact Or.inr h
        · simp at h
      | cons o₀ rem ihr =>
        intro acc hacc
        rw [List.foldl_cons]
        apply ihr
        refine AllW_bind _ _ acc _ hacc (fun st hst => ?_)
        by_cases hp : p (o₀.value.getD 0) = true
        · simp only [hp, if_true]
          refine AllW_bind (fun _ => True) _ rollE _ (AllW_true _) (fun er _ => ?_)
          refine AllW_bind _ _ _ _ (ih _) (fun sub hsub => ?_)
          refine AllW_pure _ _ ?_
          intro sr hsr o ho hv
          simp only [List.mem_append] at hsr
          rcases hsr with hsr | hsr
          · rcases hst sr hsr o ho hv with h | h | h
            · left; simp [h]
            · right; left; simp [h]
            · simp only [List.mem_cons] at h
              rcases h with rfl | h
              · cases replace with
                | true => right; left; simp
                | false => left; simp
              · right; right; exact h
          · rcases hsub sr hsr o ho hv with h | h
            · left; simp [h]
            · right; left; simp [h]
        · simp only [hp, Bool.false_eq_true, if_false]
          refine AllW_pure _ _ ?_
          intro sr hsr o ho hv
          rcases hst sr hsr o ho hv with h | h | h
          · left; simp [h]
          · right; left; simp [h]
          · simp only [List.mem_cons] at h
            rcases h with rfl | h
            · left; simp
            · right; right; exact h
    apply key
    refine AllW_pure _ _ ?_
    intro sr hsr o ho hv
    have : sr = roll := by simpa using hsr
    subst this
    right; right; exact List.mem_filter.mpr ⟨ho, hv⟩

/-- **C12, accounting clause, substitution by re-rolling**: every live outcome of the source roll and
of every expansion roll is yielded or (REPLACE) represented by its tombstone -/
theorem rollW_accounted_subst (p : Int → Bool) (e : RTree) (replace : Bool) (md : Nat) (src : RTree) :
    AllW Accounted (rollW mkRollDeep (.subst p e replace md src)) := by
  rw [rollW]
  refine AllW_bind _ _ _ _ (rollW_wellOwned src) (fun sr hsr => ?_)
  have h1 := expandW_wellOwned p _ (rollW_wellOwned e) replace md sr hsr
  have h2 := expandW_accounts mkRollDeep p (rollW mkRollDeep e) replace md sr
  have h12 : AllW (fun res => ExpandOK res ∧ ExpandAcc res) (expandW mkRollDeep p (rollW mkRollDeep e) replace md sr) :=
    fun x hx => ⟨h1 x hx, h2 x hx⟩
  refine AllW_bind _ _ _ _ h12 (fun res hres => ?_)
  refine AllW_pure _ _ ?_
  intro sr' hsr' o ho hv
  have hsr0 : sr' ∈ res.2 := hsr'
  have hown := owned_of_wellOwned res.2 hres.1.2 sr' hsr0 o ho
  rcases hres.2 sr' hsr0 o ho hv with h | h
  · exact accounted_kept _ _ o h hown
  · exact accounted_source _ _ (euthanize o) o h (by simp [euthanize, RO.sources]) hown

end Dyce
