import Dyce.HistOpsModel
import Dyce.HistProofs
import Dyce.OrderStatProofs
import Mathlib.Tactic.Ring
import Mathlib.Tactic.Linarith

/-! Proofs about `accumulate`, `zero_fill`, `remove`, `draw` (C18). -/
namespace Dyce
open List

variable {α : Type} [DecidableEq α] {le : α → α → Bool}

/-! ### accumulate / zero_fill / remove -/

theorem accumulate_count (a b : Hist α) (z : α) :
    countOf z (accumulate le a b) = countOf z a + countOf z b := by
  unfold accumulate; rw [countOf_ofItems, countOf_append]

theorem accumulate_total (a b : Hist α) : total (accumulate le a b) = total a + total b := by
  unfold accumulate; rw [total_ofItems]; simp [total]

theorem countOf_zeros (outs : List α) (z : α) : countOf z (outs.map fun o => (o, 0)) = 0 := by
  induction outs with
  | nil => rfl
  | cons o outs ih => simp [ih]

theorem zeroFill_count (h : Hist α) (outs : List α) (z : α) :
    countOf z (zeroFill le h outs) = countOf z h := by
  unfold zeroFill; rw [accumulate_count, countOf_ofItems, countOf_zeros]; simp

theorem zeroFill_total (h : Hist α) (outs : List α) : total (zeroFill le h outs) = total h := by
  unfold zeroFill; rw [accumulate_total, total_ofItems]
  have : total (outs.map fun o => ((o, 0) : α × Nat)) = 0 := by
    induction outs with
    | nil => rfl
    | cons o outs ih => simp [total] at ih ⊢; exact ih
  rw [this]; simp

theorem countOf_filter_ne (h : Hist α) (o z : α) :
    countOf z (h.filter fun oc => oc.1 ≠ o) = if z = o then 0 else countOf z h := by
  induction h with
  | nil => simp
  | cons e h ih =>
    by_cases he : e.1 = o
    · have : decide (e.1 ≠ o) = false := by simp [he]
      rw [List.filter_cons_of_neg (by simp [he]), ih, countOf_cons]
      by_cases hz : z = o
      · simp [hz]
      · have : ¬ e.1 = z := by rw [he]; exact fun h => hz h.symm
        simp [hz, this]
    · rw [List.filter_cons_of_pos (by simp [he]), countOf_cons, countOf_cons, ih]
      by_cases hz : z = o
      · subst hz; simp [he]
      · simp [hz]

theorem remove_count (h : Hist α) (o z : α) :
    countOf z (removeH le h o) = if z = o then 0 else countOf z h := by
  unfold removeH
  by_cases hany : h.any (fun oc => oc.1 = o) = true
  · rw [if_pos hany, countOf_ofItems, countOf_filter_ne]
  · rw [if_neg hany]
    by_cases hz : z = o
    · subst hz
      simp only [if_true]
      apply countOf_eq_zero_of_not_mem
      intro e he heq
      apply hany
      simp only [List.any_eq_true, decide_eq_true_eq]
      exact ⟨e, he, heq⟩
    · simp [hz]

/-! ### draw -/

theorem countOf_keys_map (keys : List α) (hk : keys.Nodup) (g : α → Nat) (o : α) :
    countOf o (keys.map fun k => (k, g k)) = if o ∈ keys then g o else 0 := by
  induction keys with
  | nil => simp
  | cons k keys ih =>
    simp only [List.nodup_cons] at hk
    simp only [List.map_cons, countOf_cons, ih hk.2, List.mem_cons]
    by_cases hko : k = o
    · subst hko; simp [hk.1]
    · have : ¬ o = k := fun h => hko h.symm
      simp [hko, this]

theorem sum_map_add' {β} (ks : List β) (f g : β → Int) :
    (ks.map fun k => f k + g k).sum = (ks.map f).sum + (ks.map g).sum := by
  induction ks with
  | nil => simp
  | cons k ks ih => simp only [List.map_cons, List.sum_cons]; rw [ih]; ring

theorem sum_map_sub' {β} (ks : List β) (f g : β → Int) :
    (ks.map fun k => f k - g k).sum = (ks.map f).sum - (ks.map g).sum := by
  induction ks with
  | nil => simp
  | cons k ks ih => simp only [List.map_cons, List.sum_cons]; rw [ih]; ring

theorem sum_indicator (keys : List α) (hk : keys.Nodup) (x : α) (hx : x ∈ keys) (v : Int) :
    (keys.map fun k => if x = k then v else 0).sum = v := by
  induction keys with
  | nil => simp at hx
  | cons k keys ih =>
    simp only [List.nodup_cons] at hk
    simp only [List.map_cons, List.sum_cons]
    by_cases h : x = k
    · subst h
      have hz : (keys.map fun k => if x = k then v else 0).sum = 0 := by
        apply List.sum_eq_zero
        intro y hy
        simp only [List.mem_map] at hy
        obtain ⟨k', hk', rfl⟩ := hy
        have : ¬ x = k' := fun hkk => hk.1 (hkk ▸ hk')
        simp [this]
      simp [hz]
    · simp only [h, if_false, zero_add]
      apply ih hk.2
      simp only [List.mem_cons] at hx
      rcases hx with hx | hx
      · exact absurd hx h
      · exact hx

theorem sum_over_keys (keys : List α) (hk : keys.Nodup) (l : List (α × Int))
    (hsub : ∀ e ∈ l, e.1 ∈ keys) :
    (keys.map fun k => ((l.filter fun r => r.1 = k).map Prod.snd).sum).sum = (l.map Prod.snd).sum := by
  induction l with
  | nil => simp
  | cons e l ih =>
    have ih' := ih (fun x hx => hsub x (by simp [hx]))
    have he : e.1 ∈ keys := hsub e (by simp)
    have hsplit : ∀ k, ((List.filter (fun r => decide (r.1 = k)) (e :: l)).map Prod.snd).sum
        = (if e.1 = k then e.2 else 0) + ((l.filter fun r => r.1 = k).map Prod.snd).sum := by
      intro k
      by_cases h : e.1 = k
      · rw [List.filter_cons_of_pos (by simp [h])]; simp [h]
      · rw [List.filter_cons_of_neg (by simp [h])]; simp [h]
    simp only [hsplit, List.map_cons, List.sum_cons]
    rw [sum_map_add', sum_indicator keys hk e.1 he e.2, ih']

theorem cnt_eq_filter_sum (h : Hist α) (k : α) :
    cnt h k = (((h.map fun e => (e.1, (e.2 : Int))).filter fun r => r.1 = k).map Prod.snd).sum := by
  unfold cnt
  induction h with
  | nil => simp [countOf, wsum]
  | cons e h ih =>
    rw [countOf_cons]
    push_cast
    rw [ih]
    by_cases hek : e.1 = k
    · rw [List.map_cons, List.filter_cons_of_pos (by simp [hek])]; simp [hek]
    · rw [List.map_cons, List.filter_cons_of_neg (by simp [hek])]; simp [hek]

theorem sum_cast_snd (h : Hist α) :
    ((h.map fun e => (e.1, (e.2 : Int))).map Prod.snd).sum = ((total h : Nat) : Int) := by
  induction h with
  | nil => simp [total]
  | cons e h ih => simp only [List.map_cons, List.sum_cons, total_cons, ih]; push_cast; ring

/-- the key list `drawH` works on -/
def drawKeys (h : Hist α) (req : List (α × Int)) : List α :=
  h.map Prod.fst ++ (req.map Prod.fst).filter (fun o => !(h.any fun oc => oc.1 = o))

theorem drawKeys_nodup (h : Hist α) (req : List (α × Int)) (hh : (h.map Prod.fst).Nodup)
    (hr : (req.map Prod.fst).Nodup) : (drawKeys h req).Nodup := by
  unfold drawKeys
  rw [List.nodup_append]
  refine ⟨hh, hr.filter _, ?_⟩
  intro a ha b hb hab
  subst hab
  simp only [List.mem_filter, Bool.not_eq_true', List.any_eq_false, decide_eq_true_eq] at hb
  simp only [List.mem_map] at ha
  obtain ⟨e, he, rfl⟩ := ha
  exact hb.2 e he rfl

theorem mem_drawKeys_of_req (h : Hist α) (req : List (α × Int)) (e : α × Int) (he : e ∈ req) :
    e.1 ∈ drawKeys h req := by
  unfold drawKeys
  by_cases hin : e.1 ∈ h.map Prod.fst
  · exact List.mem_append_left _ hin
  · apply List.mem_append_right
    simp only [List.mem_filter, List.mem_map, Bool.not_eq_true', List.any_eq_false, decide_eq_true_eq]
    refine ⟨⟨e, he, rfl⟩, ?_⟩
    intro x hx hxe
    exact hin (List.mem_map.mpr ⟨x, hx, hxe⟩)

theorem cnt_eq_zero_of_not_key (h : Hist α) (o : α) (ho : o ∉ h.map Prod.fst) : cnt h o = 0 := by
  unfold cnt
  have : countOf o h = 0 := countOf_eq_zero_of_not_mem o h (fun e he heq => ho (List.mem_map.mpr ⟨e, he, heq⟩))
  simp [this]

theorem reqOf_eq_zero_of_not_key (req : List (α × Int)) (o : α) (ho : o ∉ req.map Prod.fst) :
    reqOf req o = 0 := by
  unfold reqOf
  have : req.filter (fun r => r.1 = o) = [] := by
    rw [List.filter_eq_nil_iff]
    intro e he
    simp only [decide_eq_true_eq]
    intro heq
    exact ho (List.mem_map.mpr ⟨e, he, heq⟩)
  simp [this]

/-- what an accepted draw looks like -/
theorem drawH_ok (h : Hist α) (req : List (α × Int)) (r : Hist α) (hr : drawH le h req = .ok r) :
    (∀ o ∈ drawKeys h req, 0 ≤ cnt h o - reqOf req o) ∧
    r = ofItems le ((drawKeys h req).map fun o => (o, (cnt h o - reqOf req o).toNat)) := by
  unfold drawH at hr
  split at hr
  · cases hr
  · simp only at hr
    split at hr
    · cases hr
    · rename_i hneg
      injection hr with hr
      constructor
      · intro o ho
        simp only [List.any_map, List.any_eq_true, Function.comp, decide_eq_true_eq, not_exists, not_and] at hneg
        have := hneg o (by simpa [drawKeys] using ho)
        omega
      · rw [← hr]; simp [drawKeys, List.map_map, Function.comp_def]

/-- **C18**: an accepted draw reduces exactly the requested outcomes by exactly the requested
amounts (negative amounts add cards); every other count is unchanged -/
theorem draw_count (h : Hist α) (req : List (α × Int)) (hh : (h.map Prod.fst).Nodup)
    (hq : (req.map Prod.fst).Nodup) (r : Hist α) (hr : drawH le h req = .ok r) (o : α) :
    ((countOf o r : Nat) : Int) = cnt h o - reqOf req o := by
  obtain ⟨hnn, rfl⟩ := drawH_ok h req r hr
  rw [countOf_ofItems, countOf_keys_map _ (drawKeys_nodup h req hh hq)]
  by_cases ho : o ∈ drawKeys h req
  · rw [if_pos ho]
    exact Int.toNat_of_nonneg (hnn o ho)
  · rw [if_neg ho]
    have h1 : o ∉ h.map Prod.fst := fun hm => ho (List.mem_append_left _ hm)
    have h2 : o ∉ req.map Prod.fst := by
      intro hm
      obtain ⟨e, he, rfl⟩ := List.mem_map.mp hm
      exact ho (mem_drawKeys_of_req h req e he)
    rw [cnt_eq_zero_of_not_key h o h1, reqOf_eq_zero_of_not_key req o h2]; simp

/-- **C18**: the total changes by exactly the net number drawn -/
theorem draw_total (h : Hist α) (req : List (α × Int)) (hh : (h.map Prod.fst).Nodup)
    (hq : (req.map Prod.fst).Nodup) (r : Hist α) (hr : drawH le h req = .ok r) :
    ((total r : Nat) : Int) = (total h : Int) - (req.map Prod.snd).sum := by
  obtain ⟨hnn, rfl⟩ := drawH_ok h req r hr
  rw [total_ofItems]
  have hk := drawKeys_nodup h req hh hq
  have h1 : ((total ((drawKeys h req).map fun o => (o, (cnt h o - reqOf req o).toNat)) : Nat) : Int)
      = ((drawKeys h req).map fun o => cnt h o - reqOf req o).sum := by
    have : ∀ (ks : List α), (∀ o ∈ ks, 0 ≤ cnt h o - reqOf req o) →
        ((total (ks.map fun o => (o, (cnt h o - reqOf req o).toNat)) : Nat) : Int)
          = (ks.map fun o => cnt h o - reqOf req o).sum := by
      intro ks hks
      induction ks with
      | nil => simp [total]
      | cons k ks ih =>
        have := ih (fun o ho => hks o (by simp [ho]))
        simp only [List.map_cons, total_cons, List.sum_cons]
        push_cast
        rw [this, Int.toNat_of_nonneg (hks k (by simp))]
    exact this _ hnn
  rw [h1]
  rw [sum_map_sub']
  congr 1
  · -- Σ_k cnt h k = total h
    have := sum_over_keys (drawKeys h req) hk (h.map fun e => (e.1, (e.2 : Int)))
      (by
        intro e he
        simp only [List.mem_map] at he
        obtain ⟨x, hx, rfl⟩ := he
        exact List.mem_append_left _ (List.mem_map.mpr ⟨x, hx, rfl⟩))
    simp only [← cnt_eq_filter_sum] at this
    rw [this]
    exact sum_cast_snd h
  · exact sum_over_keys (drawKeys h req) hk req (fun e he => mem_drawKeys_of_req h req e he)

/-! ### keys of a constructed histogram -/

theorem keys_insertAdd_self (acc : Hist α) (o : α) (c : Nat) : o ∈ (insertAdd acc o c).map Prod.fst := by
  induction acc with
  | nil => simp [insertAdd]
  | cons b acc ih =>
    unfold insertAdd
    by_cases h : b.1 = o
    · simp [h]
    · simp only [h, if_false, List.map_cons, List.mem_cons]; right; exact ih

theorem keys_insertAdd_mono (acc : Hist α) (o : α) (c : Nat) (k : α) (hk : k ∈ acc.map Prod.fst) :
    k ∈ (insertAdd acc o c).map Prod.fst := by
  induction acc with
  | nil => simp at hk
  | cons b acc ih =>
    unfold insertAdd
    by_cases h : b.1 = o
    · simp only [h, if_true, List.map_cons, List.mem_cons] at hk ⊢
      rcases hk with hk | hk
      · left; rw [hk, ← h]
      · right; exact hk
    · simp only [h, if_false, List.map_cons, List.mem_cons] at hk ⊢
      rcases hk with hk | hk
      · left; exact hk
      · right; exact ih hk

theorem keys_foldl_insertAdd (l : List (α × Nat)) (acc : Hist α) :
    (∀ k ∈ acc.map Prod.fst, k ∈ (l.foldl (fun a oc => insertAdd a oc.1 oc.2) acc).map Prod.fst) ∧
    (∀ e ∈ l, e.1 ∈ (l.foldl (fun a oc => insertAdd a oc.1 oc.2) acc).map Prod.fst) := by
  induction l generalizing acc with
  | nil => simp
  | cons x l ih =>
    obtain ⟨h1, h2⟩ := ih (insertAdd acc x.1 x.2)
    constructor
    · intro k hk
      exact h1 k (keys_insertAdd_mono acc x.1 x.2 k hk)
    · intro e he
      simp only [List.mem_cons] at he
      rcases he with rfl | he
      · exact h1 _ (keys_insertAdd_self acc e.1 e.2)
      · exact h2 e he

/-- every outcome mentioned in the constructor's input is an outcome of the histogram -/
theorem mem_keys_ofItems (l : List (α × Nat)) (e : α × Nat) (he : e ∈ l) :
    e.1 ∈ (ofItems le l).map Prod.fst := by
  unfold ofItems
  exact (keys_foldl_insertAdd _ []).2 e ((List.mergeSort_perm l _).mem_iff.mpr he)

/-- **C18**: an accepted draw keeps every original outcome, including those that reach zero -/
theorem draw_keeps_originals (h : Hist α) (req : List (α × Int)) (r : Hist α)
    (hr : drawH le h req = .ok r) (o : α) (ho : o ∈ h.map Prod.fst) : o ∈ r.map Prod.fst := by
  obtain ⟨_, rfl⟩ := drawH_ok h req r hr
  have : (o, (cnt h o - reqOf req o).toNat) ∈ (drawKeys h req).map fun o => (o, (cnt h o - reqOf req o).toNat) :=
    List.mem_map.mpr ⟨o, List.mem_append_left _ ho, rfl⟩
  exact mem_keys_ofItems _ _ this

theorem reqOf_of_mem (req : List (α × Int)) (hq : (req.map Prod.fst).Nodup) (e : α × Int) (he : e ∈ req) :
    reqOf req e.1 = e.2 := by
  unfold reqOf
  induction req with
  | nil => simp at he
  | cons x req ih =>
    simp only [List.map_cons, List.nodup_cons] at hq
    simp only [List.mem_cons] at he
    rcases he with rfl | he
    · rw [List.filter_cons_of_pos (by simp)]
      have : req.filter (fun r => r.1 = e.1) = [] := by
        rw [List.filter_eq_nil_iff]
        intro y hy
        simp only [decide_eq_true_eq]
        intro hye
        exact hq.1 (List.mem_map.mpr ⟨y, hy, hye⟩)
      simp [this]
    · have hne : ¬ x.1 = e.1 := by
        intro hxe
        exact hq.1 (List.mem_map.mpr ⟨e, he, hxe.symm⟩)
      rw [List.filter_cons_of_neg (by simp [hne])]
      exact ih hq.2 he

/-- **C18**: an over-draw is rejected (`ValueError`), never turned into a negative count -/
theorem draw_overdraw_rejected (h : Hist α) (req : List (α × Int)) (hq : (req.map Prod.fst).Nodup)
    (e : α × Int) (he : e ∈ req) (hpos : 0 < e.2) (hover : cnt h e.1 < e.2) :
    ∃ err, drawH le h req = .error err := by
  cases hd : drawH le h req with
  | error err => exact ⟨err, rfl⟩
  | ok r =>
    obtain ⟨hnn, _⟩ := drawH_ok h req r hd
    have := hnn e.1 (mem_drawKeys_of_req h req e he)
    rw [reqOf_of_mem req hq e he] at this
    omega

end Dyce
