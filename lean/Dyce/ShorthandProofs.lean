import Dyce.EqProofs
import Dyce.AffineProofs
import Dyce.PoolCtorModel
/-! C05: the `H(n)` shorthand is the histogram of the explicit faces `1..n` (or `n..-1`), one each. -/
namespace Dyce
open List

theorem asc_ofInt (n : Int) : Asc leZ (ofInt n) := by
  unfold ofInt Asc
  split
  · rw [List.pairwise_map]
    refine List.Pairwise.imp ?_ List.pairwise_lt_range
    intro a b hab
    simp only [leZ, decide_eq_true_eq]
    constructor <;> omega
  · rw [List.pairwise_map]
    refine List.Pairwise.imp ?_ List.pairwise_lt_range
    intro a b hab
    simp only [leZ, decide_eq_true_eq]
    constructor <;> omega

theorem total_ofInt (n : Int) : total (ofInt n) = n.natAbs := by
  unfold ofInt total
  split
  · simp [List.map_map, Function.comp_def]; omega
  · simp [List.map_map, Function.comp_def]; omega

theorem mem_ofInt (n z : Int) (c : Nat) :
    (z, c) ∈ ofInt n ↔ c = 1 ∧ ((1 ≤ z ∧ z ≤ n) ∨ (n ≤ z ∧ z ≤ -1)) := by
  unfold ofInt
  split
  · simp only [List.mem_map, List.mem_range, Prod.mk.injEq]
    constructor
    · rintro ⟨i, hi, rfl, rfl⟩; exact ⟨rfl, Or.inl ⟨by omega, by omega⟩⟩
    · rintro ⟨rfl, h⟩
      refine ⟨(z - 1).toNat, by omega, by omega, rfl⟩
  · simp only [List.mem_map, List.mem_range, Prod.mk.injEq]
    constructor
    · rintro ⟨i, hi, rfl, rfl⟩; exact ⟨rfl, Or.inr ⟨by omega, by omega⟩⟩
    · rintro ⟨rfl, h⟩
      refine ⟨(z - n).toNat, by omega, by omega, rfl⟩

/-- building from the explicit faces in any order (pairs, bare outcomes — any data that is a
permutation of `(i, 1)` for the faces) gives the very histogram the shorthand gives -/
theorem ofItems_perm_ofInt (n : Int) {l : List (Int × Nat)} (hp : l ~ ofInt n) :
    ofItems leZ l = ofInt n := by
  rw [ofItems_perm leZ_total hp, ofItems_of_asc leZ_total (asc_ofInt n)]

end Dyce
