import Dyce.PoolHProofs
import Mathlib.Tactic.Ring
import Mathlib.Tactic.Linarith

/-! C03, metamorphic clause: relabelling all faces by an increasing affine map `x ↦ a·x + b`
(`a > 0`) relabels the sum of any selection of `m` positions by `s ↦ a·s + b·m`. -/
namespace Dyce
open List

def leZ (x y : Int) : Bool := decide (x ≤ y)

theorem leZ_total : TotalOrderB leZ where
  refl a := by simp [leZ]
  trans a b c := by simp only [leZ, decide_eq_true_eq]; omega
  total a b := by simp only [leZ, Bool.or_eq_true, decide_eq_true_eq]; omega
  antisymm a b := by simp only [leZ, decide_eq_true_eq]; omega

/-- relabel every face of every die -/
def relabelDice (f : Int → Int) (dice : List (Hist Int)) : List (Hist Int) :=
  dice.map fun h => h.map fun oc => (f oc.1, oc.2)

theorem poolTuples_relabel (f : Int → Int) (dice : List (Hist Int)) :
    poolTuples (relabelDice f dice) = (poolTuples dice).map fun tw => (tw.1.map f, tw.2) := by
  induction dice with
  | nil => rfl
  | cons h ds ih =>
    have : relabelDice f (h :: ds) = (h.map fun oc => (f oc.1, oc.2)) :: relabelDice f ds := rfl
    rw [this, poolTuples, ih, poolTuples]
    simp only [List.flatMap_map, List.map_flatMap, List.map_map, Function.comp_def, List.map_cons]

theorem wsum_map_fst {β γ} (L : List (β × Nat)) (g : β → γ) (F : γ → Nat) :
    wsum (L.map fun tw => (g tw.1, tw.2)) F = wsum L (fun b => F (g b)) := by
  induction L with
  | nil => rfl
  | cons e L ih => simp only [List.map_cons, wsum_cons, ih]

theorem sortBy_map_affine (a b : Int) (ha : 0 < a) (t : List Int) :
    sortBy leZ (t.map fun x => a * x + b) = (sortBy leZ t).map fun x => a * x + b := by
  unfold sortBy
  symm
  apply List.map_mergeSort
  intro x _ y _
  simp only [leZ, decide_eq_decide]
  constructor
  · intro h; nlinarith
  · intro h; nlinarith

theorem sum_getD_takeIdxs (s : List Int) (idxs : List Nat) (hlt : ∀ j ∈ idxs, j < s.length) :
    ((takeIdxs (s.map some) idxs).map fun o => o.getD 0).sum = (idxs.map fun j => s[j]?.getD 0).sum := by
  unfold takeIdxs
  rw [List.map_map]
  congr 1
  apply List.map_congr_left
  intro j hj
  have h := hlt j hj
  simp [List.getElem?_map, List.getElem?_eq_getElem h]

/-- the sum of the selected positions of the relabelled roll -/
theorem selSum_affine (a b : Int) (ha : 0 < a) (t : List Int) (idxs : List Nat)
    (hlt : ∀ j ∈ idxs, j < t.length) :
    selSum leZ 0 (· + ·) idxs (t.map fun x => a * x + b)
      = a * selSum leZ 0 (· + ·) idxs t + b * idxs.length := by
  unfold selSum
  rw [sortBy_map_affine a b ha, sumRoll_eq_sum_getD, sumRoll_eq_sum_getD]
  have hl : (sortBy leZ t).length = t.length := (sortBy_perm leZ t).length_eq
  rw [sum_getD_takeIdxs _ idxs (by intro j hj; rw [List.length_map, hl]; exact hlt j hj),
    sum_getD_takeIdxs _ idxs (by intro j hj; rw [hl]; exact hlt j hj)]
  induction idxs with
  | nil => simp
  | cons j js ih =>
    have hj : j < (sortBy leZ t).length := by rw [hl]; exact hlt j (by simp)
    have ih' := ih (fun j' hj' => hlt j' (by simp [hj']))
    simp only [List.map_cons, List.sum_cons, List.length_cons, ih']
    rw [List.getElem?_map, List.getElem?_eq_getElem hj]
    simp only [Option.map_some, Option.getD_some]
    push_cast
    ring

/-- **C03, increasing affine relabelling**: the number of rolls of the relabelled pool whose selected
sum is `a·z + b·m` equals the number of rolls of the original pool whose selected sum is `z` -/
theorem spec_affine (a b : Int) (ha : 0 < a) (dice : List (Hist Int)) (idxs : List Nat)
    (hlt : ∀ j ∈ idxs, j < dice.length) (z : Int) :
    wsum (poolTuples (relabelDice (fun x => a * x + b) dice))
        (fun t => if selSum leZ 0 (· + ·) idxs t = a * z + b * idxs.length then 1 else 0)
      = wsum (poolTuples dice) (fun t => if selSum leZ 0 (· + ·) idxs t = z then 1 else 0) := by
  rw [poolTuples_relabel, wsum_map_fst]
  apply wsum_congr'
  intro tw htw
  have hlen : tw.1.length = dice.length := mem_poolTuples_length htw
  rw [selSum_affine a b ha tw.1 idxs (by intro j hj; rw [hlen]; exact hlt j hj)]
  by_cases h : selSum leZ 0 (· + ·) idxs tw.1 = z
  · simp [h]
  · have : ¬ (a * selSum leZ 0 (· + ·) idxs tw.1 + b * idxs.length = a * z + b * idxs.length) := by
      intro heq
      have h1 : a * selSum leZ 0 (· + ·) idxs tw.1 = a * z := by linarith
      exact h (Int.eq_of_mul_eq_mul_left (by omega) h1)
    simp [h, this]

end Dyce

/-! ### the decreasing case: `a < 0` mirrors the sorted positions -/
namespace Dyce
open List

/-- relabel every face by a decreasing map; the faces of each die are listed ascending again -/
def relabelDiceRev (f : Int → Int) (dice : List (Hist Int)) : List (Hist Int) :=
  dice.map fun h => (h.map fun oc => (f oc.1, oc.2)).reverse

/-- position `j` from the low end ↦ position `j` from the high end -/
def mirror (n : Nat) (idxs : List Nat) : List Nat := idxs.map fun j => n - 1 - j

theorem wsum_poolTuples_forall₂_perm {d₁ d₂ : List (Hist Int)} (h : List.Forall₂ (· ~ ·) d₁ d₂)
    (F : List Int → Nat) : wsum (poolTuples d₁) F = wsum (poolTuples d₂) F := by
  induction h generalizing F with
  | nil => rfl
  | cons hp _ ih =>
    rw [wsum_poolTuples_cons, wsum_poolTuples_cons, wsum_perm hp]
    apply wsum_congr
    intro x _
    exact ih _

theorem relabelDiceRev_forall₂ (f : Int → Int) (dice : List (Hist Int)) :
    List.Forall₂ (· ~ ·) (relabelDiceRev f dice) (relabelDice f dice) := by
  induction dice with
  | nil => exact List.Forall₂.nil
  | cons h ds ih => exact List.Forall₂.cons (List.reverse_perm _) ih

theorem sortBy_map_affine_neg (a b : Int) (ha : a < 0) (t : List Int) :
    sortBy leZ (t.map fun x => a * x + b) = (sortBy leZ t).reverse.map fun x => a * x + b := by
  rw [← sortBy_flip leZ_total t]
  unfold sortBy
  symm
  apply List.map_mergeSort
  intro x _ y _
  simp only [leZ, decide_eq_decide]
  constructor
  · intro h; nlinarith
  · intro h; nlinarith

theorem selSum_affine_neg (a b : Int) (ha : a < 0) (t : List Int) (idxs : List Nat)
    (hlt : ∀ j ∈ idxs, j < t.length) :
    selSum leZ 0 (· + ·) idxs (t.map fun x => a * x + b)
      = a * selSum leZ 0 (· + ·) (mirror t.length idxs) t + b * idxs.length := by
  unfold selSum
  rw [sortBy_map_affine_neg a b ha, sumRoll_eq_sum_getD, sumRoll_eq_sum_getD]
  have hl : (sortBy leZ t).length = t.length := (sortBy_perm leZ t).length_eq
  rw [sum_getD_takeIdxs _ idxs (by intro j hj; rw [List.length_map, List.length_reverse, hl]; exact hlt j hj),
    sum_getD_takeIdxs _ (mirror t.length idxs) (by
      intro j hj
      obtain ⟨j', hj', rfl⟩ := List.mem_map.mp hj
      have := hlt j' hj'
      rw [hl]; omega)]
  induction idxs with
  | nil => simp [mirror]
  | cons j js ih =>
    have hj : j < (sortBy leZ t).length := by rw [hl]; exact hlt j (by simp)
    have ih' := ih (fun j' hj' => hlt j' (by simp [hj']))
    simp only [mirror, List.map_cons, List.sum_cons, List.length_cons] at ih' ⊢
    rw [ih']
    rw [List.getElem?_map, List.getElem?_reverse hj, hl]
    have hj2 : t.length - 1 - j < (sortBy leZ t).length := by rw [hl] at hj ⊢; omega
    rw [List.getElem?_eq_getElem hj2]
    simp only [Option.map_some, Option.getD_some]
    push_cast
    ring

/-- **C03, decreasing affine relabelling**: rolls of the relabelled pool whose selected sum is
`a·z + b·m` ↔ rolls of the original pool whose sum over the mirrored positions is `z` -/
theorem spec_affine_neg (a b : Int) (ha : a < 0) (dice : List (Hist Int)) (idxs : List Nat)
    (hlt : ∀ j ∈ idxs, j < dice.length) (z : Int) :
    wsum (poolTuples (relabelDiceRev (fun x => a * x + b) dice))
        (fun t => if selSum leZ 0 (· + ·) idxs t = a * z + b * idxs.length then 1 else 0)
      = wsum (poolTuples dice)
        (fun t => if selSum leZ 0 (· + ·) (mirror dice.length idxs) t = z then 1 else 0) := by
  rw [wsum_poolTuples_forall₂_perm (relabelDiceRev_forall₂ _ dice), poolTuples_relabel, wsum_map_fst]
  apply wsum_congr'
  intro tw htw
  have hlen : tw.1.length = dice.length := mem_poolTuples_length htw
  rw [selSum_affine_neg a b ha tw.1 idxs (by intro j hj; rw [hlen]; exact hlt j hj), hlen]
  by_cases h : selSum leZ 0 (· + ·) (mirror dice.length idxs) tw.1 = z
  · simp [h]
  · have : ¬ (a * selSum leZ 0 (· + ·) (mirror dice.length idxs) tw.1 + b * idxs.length
        = a * z + b * idxs.length) := by
      intro heq
      have h1 : a * selSum leZ 0 (· + ·) (mirror dice.length idxs) tw.1 = a * z := by linarith
      exact h (Int.eq_of_mul_eq_mul_left (by omega) h1)
    simp [h, this]

end Dyce
