import Dyce.RollProofs
import Dyce.KaronenMain
/-! C10, generator-threading view: `H.roll` / `P.roll` against an explicit stream of the answers the
installed generator gives (each answer the integer part of `random() * total`).  The stream is the
only input besides the dice, one answer is consumed per die, in pool order, and summing over the
`total` equally likely answers recovers exactly the encoded distribution (the weighted-list model
`rollHist` that the correspondence check runs against the real `H.roll`). -/
namespace Dyce
open List

theorem faceAt_cons_lt (o : Int) (w : Nat) (h : Hist Int) (u : Nat) (hu : u < w) :
    faceAt ((o, w) :: h) u = o := by
  simp [faceAt, pickIdx, hu]

theorem faceAt_cons_ge (o : Int) (w : Nat) (h : Hist Int) (k : Nat) :
    faceAt ((o, w) :: h) (w + k) = faceAt h k := by
  simp [faceAt, pickIdx, Nat.add_comm 1]

/-- **the stream view has exactly the encoded distribution**: of the `total` equally likely
generator answers, exactly `h[o]` make `H.roll()` return `o` -/
theorem faceAt_count (h : Hist Int) (o : Int) :
    ((List.range (total h)).filter fun u => faceAt h u = o).length = countOf o h := by
  induction h with
  | nil => simp [total, countOf, wsum]
  | cons e h ih =>
    obtain ⟨o', w⟩ := e
    rw [total_cons, List.range_add, List.filter_append, List.length_append, countOf_cons]
    have e2 : (((List.range (total h)).map (w + ·)).filter fun u => faceAt ((o', w) :: h) u = o).length
        = countOf o h := by
      rw [List.filter_map, List.length_map, ← ih]
      congr 1
      apply List.filter_congr
      intro k _
      simp only [Function.comp, faceAt_cons_ge]
    simp only at e2 ⊢
    rw [e2]
    congr 1
    by_cases ho : o' = o
    · rw [if_pos ho]
      have : (List.range w).filter (fun u => faceAt ((o', w) :: h) u = o) = List.range w := by
        rw [List.filter_eq_self]; intro u hu
        simp only [List.mem_range] at hu
        rw [faceAt_cons_lt o' w h u hu]; simp [ho]
      rw [this]; simp
    · rw [if_neg ho]
      have : (List.range w).filter (fun u => faceAt ((o', w) :: h) u = o) = [] := by
        rw [List.filter_eq_nil_iff]; intro u hu
        simp only [List.mem_range] at hu
        rw [faceAt_cons_lt o' w h u hu]; simp [ho]
      rw [this]; simp

/-- the stream view agrees with the weighted-list model that the correspondence check runs -/
theorem faceAt_count_eq_rollHist (h : Hist Int) (hT : total h ≠ 0) (o : Int) :
    ((List.range (total h)).filter fun u => faceAt h u = o).length = countOf o (rollHist h) := by
  rw [faceAt_count]; exact (wsum_rollHist h hT _).symm

/-- an in-range answer never selects a zero-count face -/
theorem faceAt_never_zero_count (h : Hist Int) (u : Nat) (hu : u < total h) :
    countOf (faceAt h u) h ≠ 0 := by
  rw [← faceAt_count]
  intro h0
  have hnil := List.eq_nil_of_length_eq_zero h0
  rw [List.filter_eq_nil_iff] at hnil
  exact hnil u (List.mem_range.mpr hu) (by simp)

/-- **one answer per die, in pool order, and nothing else**: with `pre` holding one answer per die,
the roll is a function of the dice and `pre` alone and the rest of the stream is handed on untouched -/
theorem rollDiceS_append (hs : List (Hist Int)) (hpos : ∀ h ∈ hs, total h ≠ 0)
    (pre rest : List Nat) (hlen : pre.length = hs.length) :
    rollDiceS hs (pre ++ rest) = ((rollDiceS hs pre).1, rest) ∧ (rollDiceS hs pre).2 = [] := by
  induction hs generalizing pre with
  | nil =>
    have : pre = [] := List.eq_nil_of_length_eq_zero (by simpa using hlen)
    subst this; simp [rollDiceS]
  | cons h hs ih =>
    cases pre with
    | nil => simp at hlen
    | cons u pre =>
      have hT : total h ≠ 0 := hpos h (by simp)
      have ih' := ih (fun g hg => hpos g (by simp [hg])) pre (by simpa using hlen)
      simp only [rollDiceS, rollHistS, if_neg hT, List.cons_append]
      rw [ih'.1]
      exact ⟨rfl, ih'.2⟩

theorem rollPoolS_append (hs : List (Hist Int)) (hpos : ∀ h ∈ hs, total h ≠ 0)
    (pre rest : List Nat) (hlen : pre.length = hs.length) :
    rollPoolS hs (pre ++ rest) = ((rollPoolS hs pre).1, rest) := by
  unfold rollPoolS
  simp only [(rollDiceS_append hs hpos pre rest hlen).1]

/-- the `i`-th die's face is decided by the `i`-th answer alone (independent draws) -/
theorem rollDiceS_eq_zip (hs : List (Hist Int)) (hpos : ∀ h ∈ hs, total h ≠ 0)
    (pre : List Nat) (hlen : pre.length = hs.length) :
    (rollDiceS hs pre).1 = (hs.zip pre).map fun hu => faceAt hu.1 hu.2 := by
  induction hs generalizing pre with
  | nil => simp [rollDiceS]
  | cons h hs ih =>
    cases pre with
    | nil => simp at hlen
    | cons u pre =>
      have hT : total h ≠ 0 := hpos h (by simp)
      simp only [rollDiceS, rollHistS, if_neg hT, List.zip_cons_cons, List.map_cons]
      rw [ih (fun g hg => hpos g (by simp [hg])) pre (by simpa using hlen)]

/-! ### the whole distribution from the stream view -/

/-- summing any statistic of the face over the `total` equally likely answers weighs each face by its count -/
theorem sum_faceAt (h : Hist Int) (G : Int → Nat) :
    ((List.range (total h)).map fun u => G (faceAt h u)).sum = wsum h G := by
  induction h with
  | nil => simp [total, wsum]
  | cons e h ih =>
    obtain ⟨o', w⟩ := e
    rw [total_cons, List.range_add, List.map_append, List.sum_append, wsum_cons, List.map_map, ← ih]
    have e1 : ((List.range w).map fun u => G (faceAt ((o', w) :: h) u)) = List.replicate w (G o') := by
      apply List.ext_getElem
      · simp
      · intro i h1 h2
        have hi : i < w := by simpa using h1
        simp [faceAt_cons_lt o' w h i hi]
    have e2 : ((fun u => G (faceAt ((o', w) :: h) u)) ∘ fun x => w + x) = fun u => G (faceAt h u) := by
      funext k; simp only [Function.comp, faceAt_cons_ge]
    simp only at e1 ⊢
    rw [e1, e2]; simp

theorem sum_map_flatMap {β γ} (l : List β) (f : β → List γ) (G : γ → Nat) :
    ((l.flatMap f).map G).sum = (l.map fun b => ((f b).map G).sum).sum := by
  induction l with
  | nil => rfl
  | cons b l ih => simp [List.flatMap_cons, ih]

/-- every sequence of in-range answers, one per die -/
def allAnswers : List (Hist Int) → List (List Nat)
  | [] => [[]]
  | h :: hs => (List.range (total h)).flatMap fun u => (allAnswers hs).map fun us => u :: us

/-- **`P.roll` over all equally likely answer sequences is the Cartesian product of the dice**: the
stream view and the weighted-list model (`wsum_rollDice`) describe the same distribution -/
theorem sum_rollDiceS (hs : List (Hist Int)) (hpos : ∀ h ∈ hs, total h ≠ 0) (F : List Int → Nat) :
    ((allAnswers hs).map fun us => F (rollDiceS hs us).1).sum = wsum (poolTuples hs) F := by
  induction hs generalizing F with
  | nil => simp [allAnswers, rollDiceS, poolTuples, wsum]
  | cons h hs ih =>
    have hT : total h ≠ 0 := hpos h (by simp)
    rw [wsum_poolTuples_cons, ← sum_faceAt]
    simp only [allAnswers]
    rw [sum_map_flatMap]
    congr 1
    apply List.map_congr_left
    intro u _
    rw [← ih (fun g hg => hpos g (by simp [hg])), List.map_map]
    congr 1
    apply List.map_congr_left
    intro us _
    simp [rollDiceS, rollHistS, hT]

/-! ### pools with zero-total dice -/

/-- dice that ask the generator at all -/
def liveDice (hs : List (Hist Int)) : List (Hist Int) := hs.filter fun h => decide (total h ≠ 0)

/-- **exactly one answer per die with a positive total, none for a zero-total die**: whatever the
pool, `p.roll()` hands on the stream with exactly that many answers removed from its front -/
theorem rollDiceS_rest (hs : List (Hist Int)) (us : List Nat) (hlen : (liveDice hs).length ≤ us.length) :
    (rollDiceS hs us).2 = us.drop (liveDice hs).length := by
  induction hs generalizing us with
  | nil => simp [rollDiceS, liveDice]
  | cons h hs ih =>
    by_cases hT : total h = 0
    · have hl : liveDice (h :: hs) = liveDice hs := by simp [liveDice, hT]
      rw [hl] at hlen ⊢
      simp only [rollDiceS, rollHistS, if_pos hT]
      exact ih us hlen
    · have hl : liveDice (h :: hs) = h :: liveDice hs := by simp [liveDice, hT]
      rw [hl] at hlen ⊢
      cases us with
      | nil => simp at hlen
      | cons u us =>
        simp only [rollDiceS, rollHistS, if_neg hT, List.length_cons, List.drop_succ_cons]
        exact ih us (by simpa using hlen)

end Dyce
