import Dyce.HistModel
import Dyce.PoolModel
/-! Import-free model of `P.__init__` (flatten nested pools, `H(n)` shorthand, drop zero-total
histograms, canonical sort by `tuple(h.items())`), `P.__matmul__`, `P.total`, `H.__matmul__`
argument checking. -/
namespace Dyce

variable {α : Type}

/-- Python's `tuple(a.items()) <= tuple(b.items())`: lexicographic on `(outcome, count)` pairs,
a proper prefix is smaller -/
def lexLe [DecidableEq α] (le : α → α → Bool) : Hist α → Hist α → Bool
  | [], _ => true
  | _ :: _, [] => false
  | (a, c) :: as, (b, d) :: bs =>
    if a = b then (if c = d then lexLe le as bs else decide (c < d)) else le a b

/-- `H(n)` for an integer `n`: `{1..n}` for positive, `{n..-1}` for negative `n`, `{}` for 0 -/
def ofInt (n : Int) : Hist Int :=
  if n > 0 then (List.range n.toNat).map fun (i : Nat) => ((i : Int) + 1, 1)
  else (List.range (-n).toNat).map fun (i : Nat) => (n + (i : Int), 1)

/-- an argument of `P(...)` -/
inductive PArg (α : Type) where
  | hist (h : Hist α)
  | pool (dice : List (Hist α))

def PArg.dice : PArg α → List (Hist α)
  | .hist h => [h]
  | .pool ds => ds

/-- canonicalisation of a list of histograms: drop those without positive count (`if h`), sort -/
def canonDice [DecidableEq α] (le : α → α → Bool) (hs : List (Hist α)) : List (Hist α) :=
  (hs.filter fun h => total h ≠ 0).mergeSort (lexLe le)

/-- `P(*args)` -/
def mkPool [DecidableEq α] (le : α → α → Bool) (args : List (PArg α)) : List (Hist α) :=
  canonDice le (args.flatMap PArg.dice)

/-- `P.total` -/
def poolTotal (dice : List (Hist α)) : Nat := (dice.map total).prod

/-- `p[i:j:k]` : `P(*self._hs[key])`, the slice given by the positions it resolves to -/
def poolSlice [DecidableEq α] (le : α → α → Bool) (dice : List (Hist α)) (idxs : List Nat) : List (Hist α) :=
  canonDice le (idxs.filterMap fun j => dice[j]?)

/-- `n @ p` : `P(*chain.from_iterable(repeat(self, n)))` -/
def matmulP [DecidableEq α] (le : α → α → Bool) (n : Nat) (dice : List (Hist α)) : List (Hist α) :=
  canonDice le (List.replicate n dice).flatten

end Dyce
