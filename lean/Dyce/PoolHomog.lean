import Dyce.PoolModel
import Dyce.High
import Dyce.SelectProofs

namespace Dyce
open List

variable {α : Type} [DecidableEq α]

theorem poolTuples_replicate (h : Hist α) (n : Nat) :
    poolTuples (List.replicate n h) = tuples h n := by
  induction n with
  | zero => rfl
  | succ n ih => simp [List.replicate_succ, poolTuples, tuples, ih]

/-! ### pushforward forms of the two homogeneous theorems -/

theorem homog_low_push {le : α → α → Bool} (hle : TotalOrderB le) (h : Hist α)
    (hs : h.Pairwise (fun a b => le a.1 b.1 = true ∧ a.1 ≠ b.1)) (hT : 0 < total h)
    (n k : Nat) (hkn : k ≤ n) (F : List α → Nat) :
    wsum (rwcHomogLow n h k) F = wsum (tuples h n) (fun t => F ((sortBy le t).take k)) := by
  symm
  apply wsum_pushforward
  intro r
  rw [rwcHomogLow_eq_karonen h n k hT hkn, karonen_correct hle h hs n k hkn r]
  rfl

theorem homog_high_push {le : α → α → Bool} (hle : TotalOrderB le) (h : Hist α)
    (hs : h.Pairwise (fun a b => le a.1 b.1 = true ∧ a.1 ≠ b.1)) (hT : 0 < total h)
    (n k : Nat) (hkn : k ≤ n) (F : List α → Nat) :
    wsum (rwcHomogHigh n h k) F = wsum (tuples h n) (fun t => F ((sortBy le t).drop (n - k))) := by
  symm
  apply wsum_pushforward
  intro r
  rw [rwcHomogHigh_correct hle h hs n k hT hkn r]
  rfl

/-! ### reading selected positions from padded rolls -/

theorem takeIdxs_pad_right (s : List α) (k n : Nat) (idxs : List Nat) (hk : ∀ j ∈ idxs, j < k) :
    takeIdxs ((s.take k).map some ++ List.replicate (n - k) none) idxs
      = takeIdxs (s.map some) idxs := by
  unfold takeIdxs
  apply List.map_congr_left
  intro j hj
  have hjk := hk j hj
  by_cases hjs : j < s.length
  · have h1 : j < ((s.take k).map some).length := by simp; omega
    rw [List.getElem?_append_left h1]
    simp [List.getElem?_take, hjk]
  · have h2 : (s.map some)[j]? = none := by simp; omega
    have h1 : ((s.take k).map some ++ List.replicate (n - k) (none : Option α))[j]? = none
        ∨ ((s.take k).map some ++ List.replicate (n - k) (none : Option α))[j]? = some none := by
      by_cases hj2 : j < ((s.take k).map some ++ List.replicate (n - k) (none : Option α)).length
      · right
        rw [List.getElem?_eq_getElem hj2]
        have : s.take k = s := List.take_of_length_le (by omega)
        simp only [this]
        rw [List.getElem_append_right (by simp; omega)]
        simp
      · left; exact List.getElem?_eq_none (by omega)
    rw [h2]
    rcases h1 with h1 | h1 <;> rw [h1]

theorem takeIdxs_pad_left (s : List α) (k n : Nat) (hn : s.length = n) (hkn : k ≤ n)
    (idxs : List Nat) (hk : ∀ j ∈ idxs, n - k ≤ j) :
    takeIdxs (List.replicate (n - k) none ++ (s.drop (n - k)).map some) idxs
      = takeIdxs (s.map some) idxs := by
  unfold takeIdxs
  apply List.map_congr_left
  intro j hj
  have hjk := hk j hj
  rw [List.getElem?_append_right (by simp; omega)]
  simp only [List.length_replicate, List.getElem?_map, List.getElem?_drop]
  have : n - k + (j - (n - k)) = j := by omega
  rw [this]

end Dyce

namespace Dyce
open List

variable {α : Type} [DecidableEq α]

theorem groupsOf_replicate (h : Hist α) (n : Nat) :
    groupsOf (List.replicate (n + 1) h) = [(h, n + 1)] := by
  induction n with
  | zero => simp [groupsOf]
  | succ n ih =>
    rw [List.replicate_succ, groupsOf, ih]
    simp

/-- how the analysed strategy value relates to the positions finally read -/
def Consistent (n : Nat) (idxs? : Option (List Nat)) (i : Option Int) : Prop :=
  match idxs? with
  | none => i = some (n : Int)
  | some idxs => (∀ j ∈ idxs, j < n) ∧ i = analyze n idxs

/-- positions finally read (`which` empty ⇒ the whole roll) -/
def effIdxs (n : Nat) (idxs? : Option (List Nat)) : List Nat := idxs?.getD (List.range n)

theorem ite_one_zero_congr {A B : Prop} [Decidable A] [Decidable B] (h : A ↔ B) :
    (if A then 1 else 0 : Nat) = if B then 1 else 0 := by
  by_cases hA : A
  · simp [hA, h.mp hA]
  · have : ¬ B := fun hB => hA (h.mpr hB)
    simp [hA, this]

theorem takeIdxs_range (s : List α) (n : Nat) (hn : s.length = n) :
    takeIdxs (s.map some) (List.range n) = s.map some := by
  apply List.ext_getElem
  · simp [takeIdxs, hn]
  · intro j h1 h2
    simp only [takeIdxs, List.length_map, List.length_range] at h1
    simp [takeIdxs, List.getElem?_map, hn ▸ h1]

theorem finish_full {le : α → α → Bool} (hle : TotalOrderB le) (h : Hist α)
    (hs : h.Pairwise (fun a b => le a.1 b.1 = true ∧ a.1 ≠ b.1)) (hT : 0 < total h)
    (n : Nat) (hn : 0 < n) (idxs? : Option (List Nat)) (r : List (Option α)) :
    countOf r (finishRolls idxs? ((rwcHomogRaw n h n).map fun e => (e.1.map some, e.2)))
      = specRWC le (List.replicate n h) (effIdxs n idxs?) r := by
  have hraw : rwcHomogRaw n h (n : Int) = rwcHomogLow n h n := by
    unfold rwcHomogRaw
    have h1 : ¬ ((n : Int).natAbs = 0 ∨ (n : Int).natAbs > n) := by simp; omega
    have h2 : ¬ ((n : Int) < 0) := by omega
    have h3 : ¬ (n = 0 ∨ n > n) := by omega
    simp only [h2, if_false, Int.natAbs_natCast, h3]
  rw [hraw]
  unfold finishRolls specRWC
  rw [List.map_map, poolTuples_replicate]
  cases idxs? with
  | none =>
    simp only [effIdxs, Option.getD_none, Function.comp_def]
    have := countOf_map_key (rwcHomogLow n h n) (fun s : List α => s.map some) r
    rw [this, homog_low_push hle h hs hT n n (le_refl n)]
    apply wsum_congr
    intro tw htw
    have hl : (sortBy le tw.1).length = n := by
      rw [(sortBy_perm le tw.1).length_eq, (mem_tuples htw).1]
    apply ite_one_zero_congr
    rw [takeIdxs_range _ n hl, List.take_of_length_le (by omega)]
  | some idxs =>
    simp only [effIdxs, Option.getD_some, Function.comp_def]
    have := countOf_map_key (rwcHomogLow n h n) (fun s : List α => takeIdxs (s.map some) idxs) r
    rw [this, homog_low_push hle h hs hT n n (le_refl n)]
    apply wsum_congr
    intro tw htw
    have hl : (sortBy le tw.1).length = n := by
      rw [(sortBy_perm le tw.1).length_eq, (mem_tuples htw).1]
    apply ite_one_zero_congr
    rw [List.take_of_length_le (by omega)]

/-- **C02, homogeneous pools**: every strategy the dispatcher can pick for a pool of `n ≥ 1`
identical dice yields, after the final `getitems`, exactly the brute-force counts. -/
theorem finish_rawRolls_homog {le : α → α → Bool} (hle : TotalOrderB le) (h : Hist α)
    (hs : h.Pairwise (fun a b => le a.1 b.1 = true ∧ a.1 ≠ b.1)) (hT : 0 < total h)
    (n : Nat) (hn : 0 < n) (idxs? : Option (List Nat)) (i : Option Int)
    (hc : Consistent n idxs? i) (r : List (Option α)) :
    countOf r (finishRolls idxs? (rawRolls le (List.replicate n h) i))
      = specRWC le (List.replicate n h) (effIdxs n idxs?) r := by
  obtain ⟨m, rfl⟩ : ∃ m, n = m + 1 := ⟨n - 1, by omega⟩
  unfold rawRolls
  rw [groupsOf_replicate]
  simp only [List.length_replicate]
  cases i with
  | none => exact finish_full hle h hs hT (m + 1) hn idxs? r
  | some i' =>
    simp only
    split
    · -- partial selection with fill
      rename_i hpart
      obtain ⟨hi0, hin⟩ := hpart
      cases idxs? with
      | none =>
        simp only [Consistent, Option.some.injEq] at hc
        subst hc
        exfalso
        have : ((m : Int) + 1).natAbs = m + 1 := by omega
        simp only [Nat.cast_add, Nat.cast_one] at hin
        omega
      | some idxs =>
        obtain ⟨hlt, hi⟩ := hc
        have hsound := analyze_sound (m + 1) idxs hlt i' hi.symm
        have hk1 : ¬ (i'.natAbs = 0 ∨ i'.natAbs > m + 1) := by
          intro hh; rcases hh with hh | hh
          · exact hi0 (Int.natAbs_eq_zero.mp hh)
          · omega
        unfold finishRolls rwcHomogFill rwcHomogRaw specRWC
        simp only [hk1, if_false, effIdxs, Option.getD_some]
        rw [poolTuples_replicate, List.map_map]
        by_cases hneg : i' < 0
        · -- high end
          simp only [hneg, if_true, Function.comp_def]
          have := countOf_map_key (rwcHomogHigh (m + 1) h i'.natAbs)
            (fun s : List α => takeIdxs (List.replicate (m + 1 - i'.natAbs) none ++ s.map some) idxs) r
          rw [this, homog_high_push hle h hs hT (m + 1) i'.natAbs (by omega)]
          apply wsum_congr
          intro tw htw
          have hl : (sortBy le tw.1).length = m + 1 := by
            rw [(sortBy_perm le tw.1).length_eq, (mem_tuples htw).1]
          have hge : ∀ j ∈ idxs, m + 1 - i'.natAbs ≤ j := by
            intro j hj
            have := hsound.2.2.1 hneg j hj
            omega
          apply ite_one_zero_congr
          rw [takeIdxs_pad_left _ i'.natAbs (m + 1) hl (by omega) idxs hge]
        · -- low end
          simp only [hneg, if_false, Function.comp_def]
          have hpos : 0 < i' := by omega
          have := countOf_map_key (rwcHomogLow (m + 1) h i'.natAbs)
            (fun s : List α => takeIdxs (s.map some ++ List.replicate (m + 1 - i'.natAbs) none) idxs) r
          rw [this, homog_low_push hle h hs hT (m + 1) i'.natAbs (by omega)]
          apply wsum_congr
          intro tw htw
          have hlt' : ∀ j ∈ idxs, j < i'.natAbs := by
            intro j hj
            have := hsound.2.1 hpos (by omega) j hj
            omega
          apply ite_one_zero_congr
          rw [takeIdxs_pad_right _ i'.natAbs (m + 1) idxs hlt']
    · exact finish_full hle h hs hT (m + 1) hn idxs? r

end Dyce
