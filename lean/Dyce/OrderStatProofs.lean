import Dyce.OrderStatModel
import Dyce.OrderStat

namespace Dyce
open List

variable {α : Type} [DecidableEq α] {le : α → α → Bool}

/-- the `beta` histograms count, over all rolls, how many dice satisfy the comparison -/
theorem wsum_betaHist (q : α → Bool) (n : Nat) (hn : 0 < n) (h : Hist α) (G : Nat → Nat) :
    wsum (betaHist q n h) G = wsum (tuples h n) (fun t => G (t.countP q)) := by
  unfold betaHist
  rw [wsum_matmulH]
  have : n ≠ 0 := by omega
  simp only [this, if_false]
  rw [wsum_tuples_umapH]
  apply wsum_congr
  intro tw _
  rw [foldl_add_indicator]

/-- **C09, order statistics**: the closed form (difference of two cumulative tails) counts exactly
the rolls whose `pos`-th smallest die shows `f`. -/
theorem orderStatCount_correct (hle : TotalOrderB le) (h : Hist α) (n : Nat) (hn : 0 < n)
    (pos : Nat) (f : α) :
    orderStatCount le h n pos f
      = wsum (tuples h n) (fun t => if (sortBy le t)[pos]? = some f then 1 else 0) := by
  unfold orderStatCount
  rw [wsum_betaHist _ n hn, wsum_betaHist _ n hn]
  -- pointwise: [#≤ > pos] - [#< > pos] = [sorted[pos] = f], and #< ≤ #≤
  have hpt : ∀ t : List α,
      (if t.countP (fun x => le x f) > pos then 1 else 0)
        = (if (sortBy le t)[pos]? = some f then 1 else 0)
          + (if t.countP (fun x => le x f && !(x == f)) > pos then 1 else 0) := by
    intro t
    have hmono : t.countP (fun x => le x f && !(x == f)) ≤ t.countP (fun x => le x f) := by
      apply List.countP_mono_left
      intro x _ hx
      simp only [Bool.and_eq_true] at hx
      exact hx.1
    have hiff := sorted_pos_iff hle t f pos
    by_cases h1 : t.countP (fun x => le x f && !(x == f)) > pos
    · have h2 : t.countP (fun x => le x f) > pos := by omega
      have h3 : ¬ (sortBy le t)[pos]? = some f := by
        intro h; have := hiff.mp h; omega
      simp [h1, h2, h3]
    · by_cases h2 : t.countP (fun x => le x f) > pos
      · have h3 : (sortBy le t)[pos]? = some f := hiff.mpr ⟨by omega, h2⟩
        simp [h1, h2, h3]
      · have h3 : ¬ (sortBy le t)[pos]? = some f := by
          intro h; have := hiff.mp h; omega
        simp [h1, h2, h3]
  rw [wsum_congr (tuples h n) (fun t => if t.countP (fun x => le x f) > pos then 1 else 0)
    (fun t => (if (sortBy le t)[pos]? = some f then 1 else 0)
      + (if t.countP (fun x => le x f && !(x == f)) > pos then 1 else 0))
    (fun b _ => hpt b.1), wsum_add]
  omega

end Dyce

namespace Dyce
open List Finset

variable {α : Type} [DecidableEq α]

theorem countOf_eq_zero_of_not_mem (o : α) (h : Hist α) (hno : ∀ e ∈ h, e.1 ≠ o) :
    countOf o h = 0 := by
  induction h with
  | nil => rfl
  | cons b h ih =>
    simp only [countOf_cons]
    have : ¬ b.1 = o := hno b (by simp)
    simp [this, ih (fun e he => hno e (by simp [he]))]

/-- **C09, binomial head counts**: `exactly_k_times_in_n` counts the rolls in which exactly `k` of
the `n` dice show `o` (any `o`: present, absent or zero-count). -/
theorem exactlyK_correct (h : Hist α) (hd : (h.map Prod.fst).Nodup) (o : α) (n k : Nat)
    (hk : k ≤ n) :
    exactlyK h o n k = wsum (tuples h n) (fun t => if t.count o = k then 1 else 0) := by
  unfold exactlyK
  simp only
  by_cases hmem : ∃ c, (o, c) ∈ h
  · obtain ⟨c, hc⟩ := hmem
    have hperm : h ~ (o, c) :: h.erase (o, c) := List.perm_cons_erase hc
    have hrest : ∀ e ∈ h.erase (o, c), e.1 ≠ o := by
      have hnd : ((o, c) :: h.erase (o, c)).map Prod.fst |>.Nodup :=
        (hperm.map Prod.fst).nodup_iff.mp hd
      simp only [List.map_cons, List.nodup_cons, List.mem_map, not_exists, not_and] at hnd
      intro e he heq
      exact hnd.1 e he heq
    have hcount : countOf o h = c := by
      rw [countOf_perm hperm, countOf_cons, countOf_eq_zero_of_not_mem o _ hrest]; simp
    have htot : total h = c + total (h.erase (o, c)) := by
      have : total h = total ((o, c) :: h.erase (o, c)) := by
        unfold total; exact (hperm.map _).sum_eq
      rw [this, total_cons]
    rw [hcount, wsum_tuples_perm hperm]
    have hA := wsum_tuples_cons o c (h.erase (o, c)) hrest n (fun i _ => if i = k then 1 else 0)
    rw [hA]
    rw [Finset.sum_eq_single k]
    · simp only [if_true, wsum_tuples_one, comb_eq_choose, htot, Nat.add_sub_cancel_left]
    · intro i _ hik
      simp [hik, wsum]
    · intro hkn; simp at hkn; omega
  · have hmem' : ∀ c, (o, c) ∉ h := fun c hc => hmem ⟨c, hc⟩
    have hno : ∀ e ∈ h, e.1 ≠ o := by
      intro e he heq
      exact hmem' e.2 (by rw [← heq]; exact he)
    rw [countOf_eq_zero_of_not_mem o h hno]
    have hcnt : ∀ tw ∈ tuples h n, tw.1.count o = 0 := by
      intro tw htw
      rw [List.count_eq_zero]
      intro hin
      have := (mem_tuples htw).2 o hin
      rw [List.mem_map] at this
      obtain ⟨e, he, heq⟩ := this
      exact hno e he heq
    rw [wsum_congr (tuples h n) _ (fun _ => if 0 = k then 1 else 0)
      (fun b hb => by simp only [hcnt b hb])]
    cases k with
    | zero => simp [comb, wsum_tuples_one]
    | succ k => simp [wsum]

end Dyce
