import Dyce.HistOpsProofs
import Dyce.Gcd

/-! Proofs about the constructor's canonical form, `lowest_terms` and `==` (C05). -/
namespace Dyce
open List

variable {α : Type} [DecidableEq α] {le : α → α → Bool}

/-! ### ascending histograms are canonical -/

theorem asc_countOf_mem {h : Hist α} (ha : Asc le h) (e : α × Nat) (he : e ∈ h) : countOf e.1 h = e.2 := by
  induction h with
  | nil => simp at he
  | cons x h ih =>
    have hx : ∀ y ∈ h, (le x.1 y.1 = true ∧ x.1 ≠ y.1) := (List.pairwise_cons.mp ha).1
    have ha' : Asc le h := (List.pairwise_cons.mp ha).2
    simp only [List.mem_cons] at he
    rcases he with rfl | he
    · rw [countOf_cons]
      have : countOf e.1 h = 0 := countOf_eq_zero_of_not_mem e.1 h (fun y hy hye => (hx y hy).2 hye.symm)
      simp [this]
    · rw [countOf_cons, ih ha' he]
      have : ¬ x.1 = e.1 := (hx e he).2
      simp [this]

theorem asc_snd_eq {h : Hist α} (ha : Asc le h) :
    h.map Prod.snd = (h.map Prod.fst).map (fun z => countOf z h) := by
  rw [List.map_map]
  apply List.map_congr_left
  intro e he
  exact (asc_countOf_mem ha e he).symm

theorem eq_of_unzip {β γ : Type} : ∀ (l₁ l₂ : List (β × γ)), l₁.map Prod.fst = l₂.map Prod.fst →
    l₁.map Prod.snd = l₂.map Prod.snd → l₁ = l₂
  | [], [], _, _ => rfl
  | [], _ :: _, h, _ => by simp at h
  | _ :: _, [], h, _ => by simp at h
  | (a, b) :: l₁, (c, d) :: l₂, h1, h2 => by
    simp only [List.map_cons, List.cons.injEq] at h1 h2
    rw [eq_of_unzip l₁ l₂ h1.2 h2.2]
    simp [h1.1, h2.1]

theorem asc_keys_pairwise {h : Hist α} (ha : Asc le h) :
    (h.map Prod.fst).Pairwise (fun a b => le a b = true ∧ a ≠ b) := by
  rw [List.pairwise_map]; exact ha

theorem keys_eq_of_same_mem (hle : TotalOrderB le) {A B : Hist α} (hA : Asc le A) (hB : Asc le B)
    (hmem : ∀ z, z ∈ A.map Prod.fst ↔ z ∈ B.map Prod.fst) : A.map Prod.fst = B.map Prod.fst := by
  have hnA : (A.map Prod.fst).Nodup := by
    rw [List.nodup_iff_pairwise_ne]; exact (asc_keys_pairwise hA).imp (fun h => h.2)
  have hnB : (B.map Prod.fst).Nodup := by
    rw [List.nodup_iff_pairwise_ne]; exact (asc_keys_pairwise hB).imp (fun h => h.2)
  have hperm : A.map Prod.fst ~ B.map Prod.fst := (List.perm_ext_iff_of_nodup hnA hnB).mpr hmem
  exact List.Perm.eq_of_pairwise
    (fun a b _ _ hab hba => hle.antisymm a b hab.1 hba.1)
    (asc_keys_pairwise hA) (asc_keys_pairwise hB) hperm

/-- two ascending histograms with the same outcomes and the same counts are the same list -/
theorem asc_ext (hle : TotalOrderB le) {A B : Hist α} (hA : Asc le A) (hB : Asc le B)
    (hmem : ∀ z, z ∈ A.map Prod.fst ↔ z ∈ B.map Prod.fst) (hc : ∀ z, countOf z A = countOf z B) :
    A = B := by
  have hk := keys_eq_of_same_mem hle hA hB hmem
  apply eq_of_unzip A B hk
  rw [asc_snd_eq hA, asc_snd_eq hB, hk]
  apply List.map_congr_left
  intro z _; exact hc z

/-! ### keys of the constructed histogram -/

theorem keys_ofItems_subset (l : List (α × Nat)) (z : α) (hz : z ∈ (ofItems le l).map Prod.fst) :
    z ∈ l.map Prod.fst := by
  unfold ofItems at hz
  have key : ∀ (l' : List (α × Nat)) (acc : Hist α),
      z ∈ (l'.foldl (fun a oc => insertAdd a oc.1 oc.2) acc).map Prod.fst →
      z ∈ acc.map Prod.fst ∨ z ∈ l'.map Prod.fst := by
    intro l'
    induction l' with
    | nil => intro acc h; left; exact h
    | cons x l' ih =>
      intro acc h
      rw [List.foldl_cons] at h
      rcases ih _ h with h1 | h1
      · obtain ⟨e, he, rfl⟩ := List.mem_map.mp h1
        rcases mem_keys_insertAdd acc x.1 x.2 e he with h2 | ⟨e', he', h2⟩
        · right; simp [h2]
        · left; exact List.mem_map.mpr ⟨e', he', h2⟩
      · right; simp [h1]
  rcases key _ [] hz with h | h
  · simp at h
  · obtain ⟨e, he, rfl⟩ := List.mem_map.mp h
    exact List.mem_map.mpr ⟨e, (List.mergeSort_perm l _).mem_iff.mp he, rfl⟩

theorem mem_keys_ofItems_iff (l : List (α × Nat)) (z : α) :
    z ∈ (ofItems le l).map Prod.fst ↔ z ∈ l.map Prod.fst := by
  constructor
  · exact keys_ofItems_subset l z
  · intro h
    obtain ⟨e, he, rfl⟩ := List.mem_map.mp h
    exact mem_keys_ofItems l e he

/-- **C05, construction**: the same multiset of outcome/count data, in any order, gives the
identical histogram -/
theorem ofItems_perm (hle : TotalOrderB le) {l₁ l₂ : List (α × Nat)} (hp : l₁ ~ l₂) :
    ofItems le l₁ = ofItems le l₂ := by
  apply asc_ext hle (asc_ofItems hle l₁) (asc_ofItems hle l₂)
  · intro z
    rw [mem_keys_ofItems_iff, mem_keys_ofItems_iff]
    exact (hp.map Prod.fst).mem_iff
  · intro z
    rw [countOf_ofItems, countOf_ofItems]
    exact countOf_perm hp z

/-- the constructor leaves an already canonical list alone -/
theorem ofItems_of_asc (hle : TotalOrderB le) {l : Hist α} (ha : Asc le l) : ofItems le l = l := by
  apply asc_ext hle (asc_ofItems hle l) ha
  · intro z; exact mem_keys_ofItems_iff l z
  · intro z; exact countOf_ofItems le l z

end Dyce

namespace Dyce
open List

variable {α : Type} [DecidableEq α] {le : α → α → Bool}

/-! ### `lowest_terms` -/

theorem gcdList_eq_zero_iff (l : List Nat) : gcdList l = 0 ↔ ∀ c ∈ l, c = 0 := by
  induction l with
  | nil => simp [gcdList]
  | cons a l ih =>
    simp only [gcdList, Nat.gcd_eq_zero_iff, ih, List.mem_cons, forall_eq_or_imp]

theorem gcdList_filter_ne_zero (l : List Nat) : gcdList (l.filter (· ≠ 0)) = gcdList l := by
  induction l with
  | nil => rfl
  | cons a l ih =>
    by_cases ha : a = 0
    · subst ha
      rw [List.filter_cons_of_neg (by simp), ih]; simp [gcdList]
    · rw [List.filter_cons_of_pos (by simp [ha])]; simp only [gcdList]; rw [ih]

theorem total_eq_zero_iff (h : Hist α) : total h = 0 ↔ ∀ e ∈ h, e.2 = 0 := by
  induction h with
  | nil => simp [total]
  | cons e h ih => rw [total_cons]; simp only [Nat.add_eq_zero_iff, ih, List.mem_cons, forall_eq_or_imp]

theorem countOf_all_zero (h : Hist α) (hall : ∀ e ∈ h, e.2 = 0) (z : α) : countOf z h = 0 := by
  induction h with
  | nil => rfl
  | cons e h ih =>
    rw [countOf_cons, ih (fun x hx => hall x (by simp [hx])), hall e (by simp)]; simp

/-- the divisor `lowest_terms` uses -/
def gOf (h : Hist α) : Nat := gcdList (h.map Prod.snd)
/-- … with the convention 1 for histograms without positive counts -/
def ga (h : Hist α) : Nat := if gOf h = 0 then 1 else gOf h

theorem ga_pos (h : Hist α) : 0 < ga h := by
  unfold ga; split <;> omega

theorem gOf_eq_zero_iff (h : Hist α) : gOf h = 0 ↔ total h = 0 := by
  unfold gOf
  rw [gcdList_eq_zero_iff, total_eq_zero_iff]
  constructor
  · intro hh e he; exact hh e.2 (List.mem_map.mpr ⟨e, he, rfl⟩)
  · intro hh c hc
    obtain ⟨e, he, rfl⟩ := List.mem_map.mp hc
    exact hh e he

/-- the list `lowest_terms` hands to the constructor -/
def ltItems (h : Hist α) : Hist α := (h.filter fun oc => oc.2 ≠ 0).map fun oc => (oc.1, oc.2 / gOf h)

theorem asc_ltItems {h : Hist α} (ha : Asc le h) : Asc le (ltItems h) := by
  unfold ltItems Asc
  rw [List.pairwise_map]
  exact (List.Pairwise.filter _ ha)

theorem countOf_ltItems (h : Hist α) (z : α) : countOf z (ltItems h) * gOf h = countOf z h := by
  unfold ltItems
  induction h with
  | nil => simp
  | cons e h ih =>
    have hg : gOf (e :: h) ∣ e.2 := gcdList_dvd _ e.2 (by simp)
    have hsub : ∀ x ∈ h, gOf (e :: h) ∣ x.2 :=
      fun x hx => gcdList_dvd _ x.2 (List.mem_map.mpr ⟨x, by simp [hx], rfl⟩)
    -- generalise the divisor so that the induction hypothesis applies
    have key : ∀ (g : Nat) (l : Hist α), (∀ x ∈ l, g ∣ x.2) →
        countOf z ((l.filter fun oc => oc.2 ≠ 0).map fun oc => (oc.1, oc.2 / g)) * g = countOf z l := by
      intro g l hl
      induction l with
      | nil => simp
      | cons x l ihl =>
        have hx : g ∣ x.2 := hl x (by simp)
        have ihl' := ihl (fun y hy => hl y (by simp [hy]))
        by_cases hx0 : x.2 = 0
        · rw [List.filter_cons_of_neg (by simp [hx0]), ihl', countOf_cons]; simp [hx0]
        · rw [List.filter_cons_of_pos (by simp [hx0]), List.map_cons, countOf_cons, countOf_cons,
            Nat.add_mul, ihl']
          by_cases hxz : x.1 = z
          · simp [hxz, Nat.div_mul_cancel hx]
          · simp [hxz]
    exact key (gOf (e :: h)) (e :: h) (by
      intro x hx
      simp only [List.mem_cons] at hx
      rcases hx with rfl | hx
      · exact hg
      · exact hsub x hx)

theorem ltItems_no_zero (h : Hist α) (hg : gOf h ≠ 0) : ∀ e ∈ ltItems h, e.2 ≠ 0 := by
  intro e he
  unfold ltItems at he
  obtain ⟨x, hx, rfl⟩ := List.mem_map.mp he
  simp only [List.mem_filter, decide_eq_true_eq] at hx
  have hd : gOf h ∣ x.2 := gcdList_dvd _ x.2 (List.mem_map.mpr ⟨x, hx.1, rfl⟩)
  obtain ⟨k, hk⟩ := hd
  simp only
  intro h0
  rw [hk, Nat.mul_div_cancel_left _ (Nat.pos_of_ne_zero hg)] at h0
  rw [h0] at hk; simp at hk; exact hx.2 hk

theorem gcd_ltItems (h : Hist α) (hg : gOf h ≠ 0) : gcdList ((ltItems h).map Prod.snd) = 1 := by
  unfold ltItems
  rw [List.map_map]
  have h1 : (List.map (Prod.snd ∘ fun oc : α × Nat => (oc.1, oc.2 / gOf h)) (h.filter fun oc => oc.2 ≠ 0))
      = ((h.map Prod.snd).filter (· ≠ 0)).map (· / gOf h) := by
    rw [List.filter_map]
    simp [List.map_map, Function.comp_def]
  rw [h1]
  have h2 : gcdList ((h.map Prod.snd).filter (· ≠ 0)) = gOf h := gcdList_filter_ne_zero _
  rw [← h2]
  exact gcdList_div _ (by rw [h2]; exact Nat.pos_of_ne_zero hg)

/-- the shortcut condition of `lowest_terms` -/
def ltShortcut (h : Hist α) : Prop := (gOf h = 0 ∨ gOf h = 1) ∧ h.all (fun oc => oc.2 ≠ 0) = true

theorem lowestTerms_shortcut (h : Hist α) (hs : ltShortcut h) : lowestTerms le h = h := by
  unfold lowestTerms
  simp only
  exact if_pos hs

theorem lowestTerms_general (hle : TotalOrderB le) {h : Hist α} (ha : Asc le h) (hs : ¬ ltShortcut h) :
    lowestTerms le h = ltItems h := by
  have : lowestTerms le h = ofItems le (ltItems h) := by
    unfold lowestTerms
    simp only
    exact if_neg hs
  rw [this]
  exact ofItems_of_asc hle (asc_ltItems ha)

/-- everything we need to know about `lowest_terms`, in one place -/
theorem lowestTerms_facts (hle : TotalOrderB le) {h : Hist α} (ha : Asc le h) :
    Asc le (lowestTerms le h) ∧
    (∀ e ∈ lowestTerms le h, e.2 ≠ 0) ∧
    (∀ z, countOf z (lowestTerms le h) * ga h = countOf z h) ∧
    (total h ≠ 0 → gcdList ((lowestTerms le h).map Prod.snd) = 1) ∧
    (total h = 0 → lowestTerms le h = []) := by
  by_cases hs : ltShortcut h
  · rw [lowestTerms_shortcut h hs]
    obtain ⟨hg, hall⟩ := hs
    have hnz : ∀ e ∈ h, e.2 ≠ 0 := by
      intro e he
      have := List.all_eq_true.mp hall e he
      simpa using this
    have hga : ga h = 1 := by
      unfold ga; rcases hg with hg | hg <;> simp [hg]
    refine ⟨ha, hnz, fun z => by rw [hga]; simp, ?_, ?_⟩
    · intro hT
      rcases hg with hg | hg
      · exact absurd ((gOf_eq_zero_iff h).mp hg) hT
      · exact hg
    · intro hT
      cases h with
      | nil => rfl
      | cons e h =>
        exfalso
        exact hnz e (by simp) ((total_eq_zero_iff _).mp hT e (by simp))
  · rw [lowestTerms_general hle ha hs]
    by_cases hg : gOf h = 0
    · -- no positive count at all: the filter is empty
      have hT := (gOf_eq_zero_iff h).mp hg
      have hall := (total_eq_zero_iff h).mp hT
      have hnil : ltItems h = [] := by
        unfold ltItems
        rw [List.map_eq_nil_iff, List.filter_eq_nil_iff]
        intro e he; simp [hall e he]
      rw [hnil]
      refine ⟨by simp [Asc], by simp, ?_, fun h => absurd hT h, fun _ => rfl⟩
      intro z
      rw [countOf_all_zero h hall z]; simp
    · have hga : ga h = gOf h := by unfold ga; rw [if_neg hg]
      refine ⟨asc_ltItems ha, ltItems_no_zero h hg, fun z => by rw [hga]; exact countOf_ltItems h z,
        fun _ => gcd_ltItems h hg, ?_⟩
      intro hT; exact absurd ((gOf_eq_zero_iff h).mpr hT) hg

end Dyce

namespace Dyce
open List

variable {α : Type} [DecidableEq α] {le : α → α → Bool}

theorem total_ltItems (h : Hist α) : total (ltItems h) * gOf h = total h := by
  have key : ∀ (g : Nat) (l : Hist α), (∀ x ∈ l, g ∣ x.2) →
      total ((l.filter fun oc => oc.2 ≠ 0).map fun oc => (oc.1, oc.2 / g)) * g = total l := by
    intro g l hl
    induction l with
    | nil => simp [total]
    | cons x l ihl =>
      have hx : g ∣ x.2 := hl x (by simp)
      have ihl' := ihl (fun y hy => hl y (by simp [hy]))
      by_cases hx0 : x.2 = 0
      · rw [List.filter_cons_of_neg (by simp [hx0]), ihl', total_cons]; simp [hx0]
      · rw [List.filter_cons_of_pos (by simp [hx0]), List.map_cons, total_cons, total_cons,
          Nat.add_mul, ihl', Nat.div_mul_cancel hx]
  exact key (gOf h) h (fun x hx => gcdList_dvd _ x.2 (List.mem_map.mpr ⟨x, hx, rfl⟩))

theorem lowestTerms_total (hle : TotalOrderB le) {h : Hist α} (ha : Asc le h) :
    total (lowestTerms le h) * ga h = total h := by
  by_cases hs : ltShortcut h
  · rw [lowestTerms_shortcut h hs]
    have : ga h = 1 := by unfold ga; rcases hs.1 with hg | hg <;> simp [hg]
    rw [this]; simp
  · rw [lowestTerms_general hle ha hs]
    by_cases hg : gOf h = 0
    · have hT := (gOf_eq_zero_iff h).mp hg
      have hall := (total_eq_zero_iff h).mp hT
      have hnil : ltItems h = [] := by
        unfold ltItems
        rw [List.map_eq_nil_iff, List.filter_eq_nil_iff]
        intro e he; simp [hall e he]
      rw [hnil, hT]; simp [total]
    · have : ga h = gOf h := by unfold ga; rw [if_neg hg]
      rw [this]; exact total_ltItems h

/-- **C05**: `lowest_terms` is idempotent -/
theorem lowestTerms_idem (hle : TotalOrderB le) {h : Hist α} (ha : Asc le h) :
    lowestTerms le (lowestTerms le h) = lowestTerms le h := by
  obtain ⟨_, hnz, _, hg1, h0⟩ := lowestTerms_facts hle ha
  apply lowestTerms_shortcut
  refine ⟨?_, ?_⟩
  · by_cases hT : total h = 0
    · left; rw [h0 hT]; rfl
    · right; exact hg1 hT
  · rw [List.all_eq_true]
    intro e he
    simpa using hnz e he

/-- "the same probability distribution" -/
def SameDist (a b : Hist α) : Prop :=
  (total a = 0 ↔ total b = 0) ∧ ∀ z, countOf z a * total b = countOf z b * total a

theorem mem_keys_iff_countOf_ne_zero {A : Hist α} (hA : Asc le A) (hnz : ∀ e ∈ A, e.2 ≠ 0) (z : α) :
    z ∈ A.map Prod.fst ↔ countOf z A ≠ 0 := by
  constructor
  · intro hz
    obtain ⟨e, he, rfl⟩ := List.mem_map.mp hz
    rw [asc_countOf_mem hA e he]; exact hnz e he
  · intro hc
    by_contra hz
    exact hc (countOf_eq_zero_of_not_mem z A (fun e he heq => hz (List.mem_map.mpr ⟨e, he, heq⟩)))

/-- **C05**: two histograms compare equal exactly when they encode the same distribution -/
theorem eqH_iff_sameDist (hle : TotalOrderB le) {a b : Hist α} (ha : Asc le a) (hb : Asc le b) :
    eqH le a b = true ↔ SameDist a b := by
  unfold eqH
  rw [decide_eq_true_eq]
  obtain ⟨hAasc, hAnz, hAc, hAg, hA0⟩ := lowestTerms_facts hle ha
  obtain ⟨hBasc, hBnz, hBc, hBg, hB0⟩ := lowestTerms_facts hle hb
  have hAT := lowestTerms_total hle ha
  have hBT := lowestTerms_total hle hb
  have hga := ga_pos a
  have hgb := ga_pos b
  constructor
  · intro heq
    constructor
    · rw [← hAT, ← hBT, heq]
      constructor
      · intro h
        rcases Nat.mul_eq_zero.mp h with h | h
        · rw [h]; simp
        · omega
      · intro h
        rcases Nat.mul_eq_zero.mp h with h | h
        · rw [h]; simp
        · omega
    · intro z
      rw [← hAc z, ← hBc z, ← hAT, ← hBT, heq]; ring
  · intro ⟨h0, hc⟩
    by_cases hTa : total a = 0
    · rw [hA0 hTa, hB0 (h0.mp hTa)]
    · have hTb : total b ≠ 0 := fun h => hTa (h0.mpr h)
      have hnz : ∀ z, countOf z (lowestTerms le a) ≠ 0 ↔ countOf z (lowestTerms le b) ≠ 0 := by
        intro z
        have e1 : countOf z (lowestTerms le a) ≠ 0 ↔ countOf z a ≠ 0 := by
          rw [← hAc z]; constructor
          · intro h; exact Nat.mul_ne_zero h (by omega)
          · intro h h'; rw [h'] at h; simp at h
        have e2 : countOf z (lowestTerms le b) ≠ 0 ↔ countOf z b ≠ 0 := by
          rw [← hBc z]; constructor
          · intro h; exact Nat.mul_ne_zero h (by omega)
          · intro h h'; rw [h'] at h; simp at h
        rw [e1, e2]
        constructor
        · intro h h'
          have := hc z; rw [h'] at this; simp at this
          rcases this with this | this
          · exact h this
          · exact hTb this
        · intro h h'
          have := hc z; rw [h'] at this; simp at this
          rcases this with this | this
          · exact h this
          · exact hTa this
      have hmem : ∀ z, z ∈ (lowestTerms le a).map Prod.fst ↔ z ∈ (lowestTerms le b).map Prod.fst := by
        intro z
        rw [mem_keys_iff_countOf_ne_zero hAasc hAnz, mem_keys_iff_countOf_ne_zero hBasc hBnz]
        exact hnz z
      have hk := keys_eq_of_same_mem hle hAasc hBasc hmem
      apply eq_of_unzip _ _ hk
      have hu := asc_snd_eq hAasc
      have hv := asc_snd_eq hBasc
      apply primitive_eq (ga a * total b) (ga b * total a)
        (Nat.mul_pos hga (Nat.pos_of_ne_zero hTb)) _ _ (hAg hTa) (hBg hTb)
      rw [hu, hv, hk]
      simp only [List.map_map]
      apply List.map_congr_left
      intro e _
      simp only [Function.comp]
      have := hc e.1
      rw [← hAc e.1, ← hBc e.1] at this
      calc ga a * total b * countOf e.1 (lowestTerms le a)
          = countOf e.1 (lowestTerms le a) * ga a * total b := by ring
        _ = countOf e.1 (lowestTerms le b) * ga b * total a := this
        _ = ga b * total a * countOf e.1 (lowestTerms le b) := by ring

end Dyce
