import Dyce.HistModel
/-! Import-free model of the remaining `H` operations: `lowest_terms`, `__eq__`/`__hash__` key,
`accumulate`, `zero_fill`, `remove`, `draw`, `distribution`, `mean`, `variance`. -/
namespace Dyce

variable {α : Type}

/-- `math.gcd(*counts)` -/
def gcdList : List Nat → Nat
  | [] => 0
  | c :: cs => Nat.gcd c (gcdList cs)

/-- `H.lowest_terms()` -/
def lowestTerms [DecidableEq α] (le : α → α → Bool) (h : Hist α) : Hist α :=
  let g := gcdList (h.map Prod.snd)
  if (g = 0 ∨ g = 1) ∧ h.all (fun oc => oc.2 ≠ 0) then h
  else ofItems le ((h.filter fun oc => oc.2 ≠ 0).map fun oc => (oc.1, oc.2 / g))

/-- `H.__eq__` between histograms: the lowest-terms mappings are equal. Both sides are ascending
lists of distinct outcomes, for which mapping equality is list equality. -/
def eqH [DecidableEq α] (le : α → α → Bool) (a b : Hist α) : Bool :=
  decide (lowestTerms le a = lowestTerms le b)

/-- the argument of `hash(frozenset(...))` in `H.__hash__` -/
def hashKey [DecidableEq α] (le : α → α → Bool) (h : Hist α) : Hist α := lowestTerms le h

/-- `H.accumulate(other)` : `H(chain(self.items(), other.items()))` -/
def accumulate [DecidableEq α] (le : α → α → Bool) (a b : Hist α) : Hist α := ofItems le (a ++ b)

/-- `H.zero_fill(outcomes)` -/
def zeroFill [DecidableEq α] (le : α → α → Bool) (h : Hist α) (outs : List α) : Hist α :=
  accumulate le h (ofItems le (outs.map fun o => (o, 0)))

/-- `H.remove(outcome)` -/
def removeH [DecidableEq α] (le : α → α → Bool) (h : Hist α) (o : α) : Hist α :=
  if h.any (fun oc => oc.1 = o) then ofItems le (h.filter fun oc => oc.1 ≠ o) else h

/-- requested amount for an outcome in a `Counter` of requests -/
def reqOf [DecidableEq α] (req : List (α × Int)) (o : α) : Int :=
  ((req.filter fun r => r.1 = o).map Prod.snd).sum

/-- count as an `Int`, `0` if absent (`Counter` semantics) -/
def cnt [DecidableEq α] (h : Hist α) (o : α) : Int := (countOf o h : Nat)

inductive DrawErr where
  | notInDeck   -- `ValueError`: outcomes to be drawn not in h
  | negative    -- `ValueError` from the constructor: count cannot be negative
  deriving DecidableEq, Repr

/-- `H.draw(outcomes)` on the `Counter` of requests `req` (distinct keys; amounts may be zero or
negative when the caller passed a mapping) -/
def drawH [DecidableEq α] (le : α → α → Bool) (h : Hist α) (req : List (α × Int)) : Except DrawErr (Hist α) :=
  -- would_go_negative = set(+to_draw) - set(+self)
  if req.any (fun r => decide (r.2 > 0) && decide (cnt h r.1 ≤ 0)) then .error .notInDeck
  else
    let keys := h.map Prod.fst ++ (req.map Prod.fst).filter (fun o => !(h.any fun oc => oc.1 = o))
    let new := keys.map fun o => (o, cnt h o - reqOf req o)
    if new.any (fun oc => decide (oc.2 < 0)) then .error .negative
    else .ok (ofItems le (new.map fun oc => (oc.1, oc.2.toNat)))

/-! ### statistics over exact rationals -/

/-- `H.distribution()` : `(outcome, Fraction(count, total or 1))` in ascending outcome order -/
def distribution (h : Hist α) : List (α × Rat) :=
  let t : Nat := if total h = 0 then 1 else total h
  h.map fun oc => (oc.1, (oc.2 : Rat) / (t : Rat))

/-- `H.mean()` -/
def meanH (h : Hist Rat) : Rat :=
  let t : Nat := if total h = 0 then 1 else total h
  ((h.map fun oc => oc.1 * (oc.2 : Rat)).sum) / (t : Rat)

/-- `H.variance(mu)` : `mu if mu else self.mean()` (a falsy `mu`, i.e. `None` or `0`, is recomputed) -/
def varianceH (h : Hist Rat) (mu : Option Rat) : Rat :=
  let t : Nat := if total h = 0 then 1 else total h
  let m : Rat := match mu with
    | some v => if v = 0 then meanH h else v
    | none => meanH h
  ((h.map fun oc => oc.1 * oc.1 * (oc.2 : Rat)).sum) / (t : Rat) - m * m

end Dyce

namespace Dyce
variable {α : Type}

/-- successive draws from one deck; a rejected draw leaves the deck as it was. Returns the final
deck and the net number of cards drawn by the accepted requests. -/
def drawSeq [DecidableEq α] (le : α → α → Bool) : Hist α → List (List (α × Int)) → Hist α × Int
  | h, [] => (h, 0)
  | h, req :: reqs =>
    match drawH le h req with
    | .ok r => let (f, n) := drawSeq le r reqs; (f, n + (req.map Prod.snd).sum)
    | .error _ => drawSeq le h reqs

end Dyce

namespace Dyce
variable {α : Type}

/-- `H(items)` with the count check of the constructor: a negative count is a `ValueError` -/
def ofItemsChecked [DecidableEq α] (le : α → α → Bool) (items : List (α × Int)) : Except Unit (Hist α) :=
  if items.any (fun oc => decide (oc.2 < 0)) then .error ()
  else .ok (ofItems le (items.map fun oc => (oc.1, oc.2.toNat)))

/-- `H.__ne__` -/
def neH [DecidableEq α] (le : α → α → Bool) (a b : Hist α) : Bool := !eqH le a b

end Dyce
