import Dyce.EvalConcrete
/-! Import-free model of argument checking (C19): the numeric classes a caller can pass, `as_int`,
`operator.index`, and the guard of every public entry point that documents a rejection. -/
namespace Dyce.Guard

/-- a Python argument, as far as the guards can tell values apart -/
inductive PyArg where
  | int (v : Int)
  | bool (b : Bool)
  | npInt (v : Int)                -- numpy integer
  | float (num : Int) (den : Nat)  -- a finite float with exact value `num/den` (`den > 0`, lowest terms)
  | nan | posInf | negInf
  | frac (num : Int) (den : Nat)   -- `Fraction(num, den)`, lowest terms, `den > 0`
  | str | none
  deriving DecidableEq, Repr

inductive GErr where
  | valueError | typeError | indexError
  deriving DecidableEq, Repr

/-- `dyce.types.as_int` (after fix a65824a): the integer the value equals, else `TypeError` -/
def asInt : PyArg → Except GErr Int
  | .int v => .ok v
  | .bool b => .ok (if b then 1 else 0)
  | .npInt v => .ok v
  | .float n d => if d = 1 then .ok n else .error .typeError
  | .frac n d => if d = 1 then .ok n else .error .typeError
  | .nan | .posInf | .negInf | .str | .none => .error .typeError

/-- `operator.index`: only genuine integer types -/
def asIndex : PyArg → Except GErr Int
  | .int v => .ok v
  | .bool b => .ok (if b then 1 else 0)
  | .npInt v => .ok v
  | _ => .error .typeError

/-- the mathematical value of an argument, when it has one -/
def valueOf : PyArg → Option (Int × Nat)
  | .int v => some (v, 1)
  | .bool b => some (if b then 1 else 0, 1)
  | .npInt v => some (v, 1)
  | .float n d => some (n, d)
  | .frac n d => some (n, d)
  | _ => none

/-- a histogram count (`H({o: c})`) -/
def countGuard (a : PyArg) : Except GErr Nat :=
  match asInt a with
  | .error e => .error e
  | .ok v => if v < 0 then .error .valueError else .ok v.toNat

/-- a repetition count (`H @ n`, `n @ H`, `P @ n`, `R @ n`; also `n` of the order statistic) -/
def repeatGuard (a : PyArg) : Except GErr Nat :=
  match asInt a with
  | .error _ => .error .typeError      -- `NotImplemented` → Python's TypeError
  | .ok v => if v < 0 then .error .valueError else .ok v.toNat

/-- parity test on an outcome -/
def parityGuard (a : PyArg) : Except GErr Bool :=
  match asInt a with
  | .error e => .error e
  | .ok v => .ok (v % 2 = 0)

/-- a selection position for a pool of `n` dice -/
def positionGuard (n : Nat) (a : PyArg) : Except GErr Nat :=
  match asIndex a with
  | .error e => .error e
  | .ok i =>
    let j : Int := if i < 0 then i + n else i
    if 0 ≤ j ∧ j < n then .ok j.toNat else .error .indexError

/-- `within(lo, hi)` on integer bounds -/
def withinGuard (lo hi : Int) : Except GErr Unit := if lo > hi then .error .valueError else .ok ()

/-- `max_depth` and `precision_limit` together -/
def bothLimitsGuard (maxDepth precision : Bool) : Except GErr Unit :=
  if maxDepth ∧ precision then .error .valueError else .ok ()

/-- `RollOutcome(value, sources)` -/
def rollOutcomeGuard (valueIsNone : Bool) (nSources : Nat) : Except GErr Unit :=
  if valueIsNone ∧ nSources = 0 then .error .valueError else .ok ()

/-- a recursion limit: its TYPE selects the meaning — integral types are whole-number limits,
Fractions and floats are fractional limits -/
def limitGuard : PyArg → Except GErr (Option Limit)
  | .int v => (normalizeLimit (.int v)).mapError fun _ => .valueError
  | .bool b => (normalizeLimit (.int (if b then 1 else 0))).mapError fun _ => .valueError
  | .npInt v => (normalizeLimit (.int v)).mapError fun _ => .valueError
  | .float n d => (normalizeLimit (.frac n d)).mapError fun _ => .valueError
  | .frac n d => (normalizeLimit (.frac n d)).mapError fun _ => .valueError
  | .nan | .posInf | .negInf => .error .valueError
  | .str | .none => .error .typeError

end Dyce.Guard
